#!/usr/bin/env python3
"""Regenerates MANIFEST.json from the table below (kept in one place so it stays valid)."""
import json, os
HERE = os.path.dirname(os.path.abspath(__file__))

# id -> (implemented, engine, level, technique, text, note, design_ref)
CHECKS = {
 "C06": (True, "payflow", "model_checking",
   "bounded exhaustive histories of commitment updates on two channels of one real node with a ghost ledger of accepted contents",
   "Every history of <= 4 (6) letters over: approve a keysend for H1, per channel validate-holder / revoke / sign-counterparty / counterparty-revokes with HTLC sets over the approved hash H1 (half, full, over the allowance, two parts) and the unapproved hash H2 (alone, or covered by incoming value), preimage disclosure, force close of a channel, restart; plus a narrower counterparty-side-only search to depth 6, a search that starts with the first part of the payment locked into both commitments, one that starts with an incoming HTLC for the approved hash locked in, and one in which the approval is declined by the node-wide velocity limit (a declined hash must stay unbacked). After every accepted update the ledger inequality of the statement is evaluated in u128, and an accepted update that introduces an unbacked outgoing HTLC is a violation.",
   "In-flight value is defined on the two current commitments of each channel (max of views outgoing, min of views incoming), as fixed in DESIGN 3.4.",
   "3.4"),
 "C17": (True, "macenum", "model_checking",
   "exhaustive enumeration of records / mutation lists over a 3-byte alphabet on the real MAC functions of both sides, collision search by hash map; exhaustive enumeration of provider responses through the real start-up read (second harness crate on the async stack)",
   "Every record (key of 1-2 characters, version bytes, value of 0-2 bytes over {0x00,'a','b'}) is written with prepare_value_for_put and its stored bytes are presented under every other (key, version) together with shifted/prefixed bytes, and with every single-bit flip, truncation and extension; every list of <= 2 records (plus merged records) is tagged with compute_shared_hmac on the signer side and the storage-library side (compared with each other), collisions between different lists are searched exhaustively; replay under a new nonce, modified and truncated tags are refused. The start-up read of the whole external state (ExternalPersistWithHelper::init_state, as used by vlsd and vls-proxy) is driven on a tokio runtime with 3114 provider responses: stored lists of <= 2 records x 9 edits of the returned list (incl. dropping some or all records) x 9 tags a provider without the secret can attach (replayed, put tags, made up, damaged); accepted => authentic under this request's fresh nonce for exactly the returned records.",
   "HMAC-SHA256 trusted. The unframed-MAC collisions found on the unchanged tree are recorded as known findings, one key per boundary that moves.",
   "7.2"),
 "C18": (True, "keysrel", "model_checking",
   "exhaustive enumeration of channel-creation orders, restart points and setup masks on real nodes with a relational oracle",
   "Seeds x {native, LDK} x networks x every ordered arrangement of every non-empty subset of channel ids {1,2,3} x restart position x set-up mask: basepoints, funding key, per-commitment points and 16 secrets of every channel are observed as stub, after setup and at the end; all observations of the same (seed, style, network, id) must be identical across all runs, different ids/seeds must give different keys, and the secrets must equal an independent BOLT-3 generate_from_seed and be accepted in order by the compact store. A channel is also advanced through six real commitments (with a restart): every point / secret the request path hands out for a number must be the key material's for that number.",
   "Secrets are read from the key material (not through the policy path).",
   "7.3"),
 "C12": (True, "velocity+nodevel", "model_checking",
   "explicit-state search over the real VelocityControl (closes per config) and bounded exhaustive histories of approvals, clock advances and restarts on a real node, against a sliding-window oracle",
   "Component: for limits {0, 100, 2^64-2}, 1-4 buckets and the three interval types, every sequence of insert(now+dt, amount) over bucket-edge time deltas and limit-edge amounts up to the depth bound / state closure, with the sum of approved amounts in any (N-1)-bucket window compared with the limit in u128; plus every (first spec, second spec) pair of five specs x update / repeated update / update + state round trip x three inserts at the new geometry's edges (a real change of spec may forget the history, anything else may not). Node: every history of <= 5 (7) letters (keysend / invoice / on-chain fee at limit edges, clock +1/+11/+12 buckets, restart, the most recent request presented again unchanged, reload of the unchanged policy) on a real node with hourly limits (under the simple and the chain-aware validator factory); the same oracle on the log of approvals, across restarts.",
   "ManualClock; non-decreasing time (as in the statement).",
   "5.3"),
 "C15": (True, "nodemc", "model_checking",
   "bounded exhaustive histories of open/new/forget/heartbeat/block macro-steps/disconnect/restart on a real node with ghost predicates",
   "Every history of <= 5 (7) letters in ten scenarios (a mutual close that was reorganised out, two parts of one payment with identical output scripts of which one stays unswept, life cycle from nothing, mutual close, funding double-spend, unilateral close with HTLC sweeps, all outputs swept, only the HTLC outputs swept, three channel ids created / forgotten in any order, a prunable channel with a permanent id; the unilateral ones for static-remotekey and anchors channels and for the holder's and the counterparty's commitment), over the plain and the cloud store, compact and streamed delivery: NewChannel, ForgetChannel, GetHeartbeat, blocks carrying funding / double-spend / mutual close / sweeps, macro-steps of 1, 98 and 99 empty blocks (straddling the 100-block depth), disconnects and restarts; after every letter each ready channel must be present live and in the store unless a forget was requested and the close is buried >= 100 on the harness's own copy of the best chain; a NewChannel at or below a forgotten id must fail.",
   "Depth-bounded (not closed): the bounded space of histories is covered completely.",
   "6.3"),
 "C13": (True, "chain13", "model_checking",
   "explicit-state BFS over add/remove requests (one defect per request) on the real tracker of a real node, independent accept/reject prediction, atomicity + follow-up probe",
   "All sequences of valid and single-defect add/remove requests (wrong previous hash, insufficient work, changed bits, proof for another block, wrong filter header / height in the attestation, untrusted key, too few or duplicated oracles, forged attestation signature, omitted spend, non-streamed full-block proof; wrong previous header / filter header / all-zero filter header on removal; also with deep reorganisations allowed) over blocks that are empty, confirm the watched funding txid or spend a watched outpoint, and of otherwise valid blocks claiming a target 2, 4 or 8 times harder / easier than the tip's or the network maximum, on and off a retarget boundary, with 0-4 trusted oracles, compact and streamed delivery and restarts, until closure. Accepting a defective request, changing any state on rejection, or failing the correct request afterwards is a violation.",
   "Real regtest headers and txoo proofs built by the harness; chain of <= 3 (4) blocks above genesis, above a filled header window, or above a checkpoint next to a retarget boundary on a tip 1-64 times harder than the network maximum. The retarget rule is the one the tracker documents (at most a factor of four per boundary, never above the network maximum); timestamps are not part of it.",
   "6.1"),
 "C14": (True, "chainmc", "model_checking",
   "explicit-state BFS over connect/disconnect paths through AddBlock/RemoveBlock/BlockChunk on a real node; differential oracle against a fresh signer that connects only the best chain",
   "Every connect/disconnect path (also from a base in which the commitment, the main sweep and both first-level HTLC spends are already confirmed; blocks = every UTXO-valid ordered subset of <= 2 (3) menu transactions: funding with two inputs, two double-spends, mutual close, holder / counterparty / revoked commitment, sweep, first- and second-level HTLC spends) with chains of <= 3 (4) blocks, compact and streamed delivery (also mixed: channel set up in the middle of a streamed block, reference replay delivered compact), closes; after every transition the monitor state, chain state, listen slot and header window must equal those of a fresh signer fed only the surviving chain; a panic is a violation.",
   "Channel prepared through the public API at commitment 1 on both sides with one offered and one received HTLC (preimage known).",
   "6.2"),
 "C01": (True, "chanfsm", "model_checking",
   "replay-based explicit-state BFS over the real ChannelHandler/Channel with a ghost reference monitor (closes under a counter cap)",
   "All request histories of one channel over ~45 letters (GetPerCommitmentPoint[2], ValidateCommitmentTx[2] with valid / invalid / other-content / too few / previous-number signatures, RevokeCommitmentTx, SignLocalCommitmentTx2, SignCommitmentTx, core get_per_commitment_secret[_or_none], revoke_previous_holder_commitment, activate, recovery/redundant signing, mutual close, restart) at commitment numbers relative to the live counters, for protocol versions 4, 5, 6, under the simple and the on-chain validator, until the canonical state set closes. A ghost monitor scans every reply for the channel's BOLT-3 secrets and requires an earlier accepted validate of n+1 with signatures valid by construction.",
   "Counter cap k (2 quick / 3 thorough): states beyond the cap are terminal. Counterparty signatures are produced by the harness over LDK-built transactions assembled from the setup. secp256k1/LDK key derivation trusted.",
   "3.1"),
 "C02": (True, "chanfsm", "model_checking",
   "same exploration; ghost sets signed/disclosed must stay disjoint, disclosed frozen after first signature",
   "Same exploration as C01 (all holder-signature entry points and mutual close are letters). Every released signature is attributed to a commitment number by verifying it against harness-built holder commitments; invariants: signed and disclosed are disjoint in every state and no new secret is disclosed once a signature was released; both orders are reachable.",
   "As C01. A signature that verifies against none of the candidate transactions is itself reported.",
   "3.2"),
 "C03": (True, "chanfsm+secretstore", "model_checking",
   "explicit-state BFS over SignRemoteCommitmentTx[2]/ValidateRevocation letters with tree and rogue points/secrets + exhaustive in-order sequences into the compact secret store vs a naive BOLT-3 reference",
   "All interleavings of sign-counterparty-commitment (numbers nc-1..nc+1; point from the tree, outside the tree, or outside the tree and the same for every number; three contents, phase 1 and 2) and validate-revocation (numbers nr-1..nr+1, matching / tree-although-rogue / previous / future / unrelated secret) with restarts, until closure; ghost: signed[n] -> (point, content), revoked set; plus every in-order secret sequence (with retries of old indices, three secret kinds) of length <= 6 (8) into CounterpartyCommitmentSecrets against a keep-everything reference.",
   "Counter cap k (3/4). The secret store is fed in order only (future indices are outside its contract and unreachable through the channel layer).",
   "3.3"),
 "C10": (True, "history-engines", "model_checking",
   "refusal monitor (full state snapshot before == after on every error reply) switched on in the history explorations",
   "Every (reachable state, request) pair of the history explorations (channel state machine on holder and counterparty side at protocol versions 4-6, payments, node velocity, chain add/remove with defective requests, node life cycle with blocks, disconnects and the scenarios with permanent channel ids) and every request of the C05 / C07 / C08 grids whose reply is an error is checked: canonical JSON of all channel slots, node state, tracker and store contents must be identical before and after. The channel and node explorations are repeated over the cloud store, where a refused request must also leave no mutation staged for the next request.",
   "Storage-backend failures are not injected. Successors of a state-corrupting violation are not explored.",
   "5.1"),
 "C11": (True, "history-engines", "fault_enumeration",
   "durability monitor: after every request of every explored history a second signer is restored from a deep copy of the store and compared with the live one",
   "One crash point after each request of each explored history and of each C05 / C07 / C08 grid case (accepted or refused): Node::restore_node over a copy of the store, then field-by-field comparison of every channel (setup, enforcement state), tracker, allowlist, invoices and high-water mark; a restore that panics is a violation. Under the composite BackupPersister the signer is also restored from the backup store alone. Over the cloud store the crash is also placed between prepare and commit of every request (the reply is then never sent, and the restored signer must equal the state before the request).",
   "Crash points are between requests, not inside a store write.",
   "5.2"),
 "C16": (True, "kvvmc", "model_checking",
   "explicit-state BFS over the real MemoryKVVStore/RedbKVVStore/CloudKVVStore against a BTreeMap reference (closes)",
   "Every operation sequence over 2 prefix-related keys, 3-4 versions and 3 values (incl. all batches of <=2 entries and a reopen letter) is executed on the real stores in lock-step with a map reference; the canonical state set closes (100 store states quick), every read is compared after every step. Cloud store: all protocol-legal transactions of bounded length; every commit is also run on a twin store whose local store stops after n write operations (n = 0..), and must leave none or all of the reported mutations.",
   "Trusts redb itself and /dev/shm as a file system; torn writes inside redb are out of scope. Duplicate-key batches are compared between backends and against all-or-nothing/monotonicity only.",
   "7.1"),
 "C04": (True, "c04", "model_checking",
   "bounded exhaustive enumeration: setup variants x contents, both entry points on twin worlds, every single (thorough: pair of) field mutation of the raw transaction, witness scripts and semantic arguments on a fresh real signer; oracle = harness-assembled BOLT-3 transaction + secp256k1 verification",
   "24 (20 quick) setup variants (commitment type, direction, delay pair inside and on both edges of the policy range, funding outpoint, simple / chain-aware validator) x 7-8 contents (no HTLC, offered, received, two identical received, both, HTLC just above / below the trim limit, a small HTLC at a low claimed fee rate, three HTLCs): the semantic entry point signs and every commitment / HTLC signature is verified against the transaction the harness assembles from the setup, the basepoints and the content; the raw entry point must accept that transaction on a twin signer and return the same signature; then every mutation (version, locktime, sequence, prevout txid/vout, input witness / script_sig, each output value +-1/+1000, script byte flips and truncation, swapped / dropped / duplicated / extra outputs, extra input, witness-script flips / removal / swaps, fee rate, commitment number, per-commitment point, HTLC list edits) is presented to the raw entry point: acceptance requires byte equality with the canonical transaction of the content the presented arguments imply and a signature that verifies against it.",
   "Canonical transaction built with LDK's BOLT-3 builder from parameters assembled by the harness (not Channel's helpers); LDK and secp256k1 trusted. Panics of the signer (outputs above the channel value) are counted, not treated as acceptance.",
   "4.1"),
 "C05": (True, "c05", "model_checking",
   "deviation-bounded exhaustive enumeration (d=1 quick, d=2 thorough on the tight policy) of requests on fresh real signers, under checked and wrapping arithmetic, against an independent u128 reference predicate (accepted => within all bounds)",
   "Bases: 3 policies (default, tight with small distinct bounds, huge channel sizes) x simple / on-chain validator x chain-state use on/off x commitment type x direction x entry point (setup_channel, sign_counterparty_commitment_tx_phase2, validate_holder_commitment_tx_phase2 with harness-made valid signatures) x commitment number 0 / 1. Deviations: commitment type, both delays around the policy range, channel value around the maximum, push value, claimed fee rate, each balance at dust edges / at the values that put the implied fee rate at min-1..max+2 / at 2^32- and 2^64-wrap candidates, added HTLCs at both trim limits, around the in-flight cap and 2^63, an existing HTLC raised to the cap's edge, HTLC counts around the cap, expiries around height+delay and 500000000, funding depth / close seen, commitment number. Further bases put the other side one commitment ahead while the funding is confirmed (and disconnect the funding block again for depth 0). Every case is executed on a fresh signer (blocks fed through the tracker for the on-chain validator) and the reference predicate is evaluated independently; after a refused setup the slot must still be a stub and the identical request must be refused again, otherwise the case counts as accepted.",
   "Only accepted-and-outside-a-bound is a violation (the signer may be stricter). The claimed feerate is constrained through the trim limit only, as in the code.",
   "4.2"),
 "C07": (True, "c07", "model_checking",
   "deviation-bounded exhaustive enumeration (d=1 quick, d=2 thorough) of mutual-close requests over channel states reached by real commitment updates, both entry points, with a u128 reference predicate and a closing transaction built from first principles (cross-checked against LDK's builder on every case)",
   "Bases: 10 channel states reached through validate/revoke/sign/revocation requests (both sides at commitment 0; at 1 with equal views; the two views differing by eps-1, eps, eps+1, -(eps+1), 2eps+1; an HTLC pending in the holder's, the counterparty's or both current commitments) x funder / fundee x commitment type x upfront shutdown script (none, wallet, allowlisted foreign) x entry point (semantic, raw transaction) x simple / chain-aware validator. Deviations: non-fee-payer's value at +-1, +-eps, +-(eps+1) and 0, the two values swapped; fee at min-2, min, max, max+2, 0 and 900000 sat; holder script kind (wallet at the right / wrong / no path, allowlisted, foreign, upfront, absent); counterparty script absent, or a wallet (with / without path) or allowlisted script; allowlist cleared between setup and signing, or the allowlisted script removed and the signer restarted; for the raw entry point output order, paths attached to the other output, version, locktime, sequence, prevout, extra output. Accepted => the reference holds (for the raw entry point: for some assignment of outputs to parties), the signature verifies against the independently built closing transaction spending the funding outpoint under the funding key, and channel_closed is set live and in a signer restored from a copy of the store.",
   "epsilon 1000 sat, fee range 500..20000 sat/kw in the policy used; fee-rate rounding in the accepting direction.",
   "4.3"),
 "C08": (True, "c08", "model_checking",
   "deviation-bounded exhaustive enumeration (d=1 quick, d=2 thorough) of on-chain transactions on fresh real nodes through Node::check_onchain_tx and Approve::handle_proposed_onchain (recording approver), under checked and wrapping arithmetic, against an independent output classifier and a u128 fee bound",
   "Bases: a wallet spend (change + allowlisted destination), a single-channel funding with change, a two-channel funding from two inputs x 2 policies (max fee rate 333333 / 5000 sat per kw, daily / hourly 3000 sat fee velocity) x 3 allowlists (foreign address; + the wallet's own change address; + a foreign xpub and the node's own xpub) x 3 entry points (check_onchain_tx, handle_proposed_onchain with a declining / an approving approver). Deviations: each output replaced by every other class (wallet native / wrapped / taproot at the right, wrong or no path; allowlisted script with and without path; xpub-derived at the right, wrong or no path; foreign with and without path; funding output breaking one rule: value +-1 / +100000, script of other keys, inbound, push, initial commitment not counter-signed, channel already advanced), outputs added / dropped / zero / 2^63 / 2^64-1, a third channel funded, segwit and non-segwit inputs added, segwit flags cleared, input values 0 / 2^64-1, version 1 / 3, the non-beneficial value set to 0, around max_rate x weight / 1000 for the unsigned, the signer's and the reference's weight, to every output value (+fee, x2), to 2^32 and 2^64 wrap candidates, the request repeated at once, after an hour, and (22 requests) until the allowance is used up and then again and again one bucket later, or after a reload of the unchanged policy, the allowlisted destination removed and the signer restarted; a funding base with an unknown destination is run with a declining and an approving operator. Channels are really created, set up on the transaction's outpoint and (unless the deviation says otherwise) their initial holder commitment validated with harness signatures.",
   "A pass requires the reference to hold; a report of unknown destinations must list exactly the reference-unknown outputs, and the approver must be consulted exactly then. What an operator then approves is outside the property.",
   "4.4"),
 "C09": (True, "c09", "model_checking",
   "exhaustive enumeration of the full product of field alphabets of sweep requests, and base + every single (thorough: pair of) mutation of second-level HTLC transactions, on a real channel per commitment type; reference envelope + BOLT-3 HTLC transaction built by the harness + secp256k1 verification",
   "Sweeps (sign_delayed_sweep, sign_counterparty_htlc_sweep with offered and received redeemscripts, sign_justice_sweep): commitment type x version {1,2,3} x 13 locktimes (0, height, height+2, +3, +145, HTLC expiry, +1, +145, 499999999, 500000000, past and future timestamps, 2^32-1) x 11 sequences of the signed input (delay-1, delay, delay+1, 0, 1, 0xfffffffd/e/f, 65535, time-flagged, delay+145) x another input (absent, or before/after the signed one with its own sequence) x 9 output patterns (wallet, wallet at another path, allowlisted, foreign, and two-output mixes in both orders): 75k (quick) / 290k requests. HTLC transactions (sign_holder_htlc_tx, sign_counterparty_htlc_tx; offered and received; both commitment types): version, locktime, sequence, prevout, fee at min-2 / min / max / max+2 / 0 / 2^32-wrap, output value +-1, output script with another delay / revocation key / delayed key / foreign, extra input / output, amount +-1, other or junk redeemscript, other per-commitment point. A signed sweep must satisfy the envelope and its signature must verify as SIGHASH_ALL over the presented transaction under one of the channel's keys; a signed HTLC transaction must have the sighash of the harness-built BOLT-3 transaction for the negotiated delay and keys at an in-range fee rate, and the signature must verify against it under the node's HTLC key with the channel type's sighash flag.",
   "Qualitative bounds use a generous envelope (e.g. locktime <= height + 144) so that removing a check is caught but retuning a constant is not; the parameter-only sign_holder_htlc_tx_phase2 is out of scope as in the statement.",
   "4.5"),
 "C19": (True, "wirert", "model_checking",
   "exhaustive enumeration, per message type of the registry (code generated from msgs.rs at check time), of the base value, every single field deviation and (thorough) every pair over per-type value alphabets; field-by-field and byte-level round-trip oracle, semantic oracle for streamed PSBTs",
   "tools/gen_wire.py parses every #[message_id] struct and the Message enum of vls-protocol/src/msgs.rs before each build and emits a builder and a checker per type (109 types; a struct missing from the parse, a count mismatch with the enum or a field type without an alphabet is a machinery failure). Alphabets: integers {position-dependent base, 0, 1, max}, fixed arrays {pattern, zeros, 0xff}, Octets {short, empty, 1, 65535 bytes}, LargeOctets up to 70000, fillers that make the whole message exactly 128 KiB long, arrays {one, none, three, one element per element deviation}, options present / absent, strings, transactions (minimal, two inputs with witnesses, 20 outputs), PSBTs (bare, witness utxo, non-witness utxo, paths and scripts), block headers, proofs built with txoo, and for streamed PSBTs every sequence of 1-2 (selected 3) inputs over {previous tx segwit / legacy / + matching witness utxo / + contradicting witness utxo, witness utxo only, nothing}. Oracle: msgs::from_vec(m.as_vec()) yields the same variant, every field encoded on its own is byte-identical before and after, the decoded message re-encodes to the original bytes, the typed decoder agrees; base cases and single deviations also travel as two length-framed messages over a transport that delivers 1 / 64 / 4096 bytes per read (read_raw returns the encoding unchanged, read decodes the same message type); for streamed PSBTs the decoded transaction, per-input previous outputs, segwit flags, scripts and paths equal those implied by the encoded PSBT.",
   "Trailing bytes / proper prefixes are recorded as observations only. Developer-only message types are not in the build under test. A PSBT whose witness utxo contradicts its previous transaction may be refused by the decoder.",
   "7.4"),
 "C20": (True, "concur", "model_checking",
   "stateless model checking of the real Node under shuttle's runtime with an own preemption-bounded depth-first scheduler (iterative context bounding); linearizability by brute force against all sequential orders",
   "vls-core is built with --cfg vls_verif so that every Mutex of its prelude (node state, channel map, channel slots, tracker, monitor state, stores) is shuttle's. For each of ~120 scenarios (every unordered pair of 14 request kinds, twelve of them also against themselves - commitment updates, forget/new/setup channel, balance, heartbeat, keysend, on-chain check and signature, block with the channel's close (compact and streamed), empty block, allowlist - plus the single-channel races validate||revoke, sign-holder||revoke, sign-counterparty||counterparty-revocation, two allowlist updates, a channel used while it is being set up, two channels paying the same invoice, a balance query beside a thread that closes two of three channels one after the other, two approvals while the wall clock (a third thread) crosses a velocity bucket boundary; thorough adds triples) every schedule of the request threads with <= 1 (2) preemptions is executed to completion on a freshly built node, and <= 2 (3) preemptions as far as the budget goes; a schedule that cannot complete is a deadlock, and the tuple (replies, fingerprint of live state and store) must equal that of some sequential order of the same requests that keeps each thread's own order.",
   "Scheduling points are mutex operations (sequentially consistent); locks taken directly from std (redb store) are not in the scenarios. Replaying a prefix with a different enabled set is a machinery error.",
   "8"),
}

ENGINE_PATH = {"chanfsm+secretstore": "harness/src/chanfsm.rs", "history-engines": "harness/src/monitors.rs", "velocity+nodevel": "harness/src/nodevel.rs"}

PENDING_REASON = "check not built yet in this session (planned, see DESIGN.md section 0)"

def main():
    props = [json.loads(l) for l in open(os.path.join(HERE, "properties.jsonl"))]
    checks, na = [], []
    for p in props:
        pid = p["id"]
        c = CHECKS.get(pid)
        if not c or not c[0]:
            na.append({"property_id": pid, "reason": (c[4] if c else PENDING_REASON)})
            continue
        _, engine, level, technique, text, note, ref = c
        checks.append({
            "property_id": pid,
            "quick_cmd": "./check %s quick" % pid,
            "thorough_cmd": "./check %s thorough" % pid,
            "evidence_file": "/verif/evidence/%s.json" % pid,
            "replay_cmd_template": "./check --replay {path}",
            "engine": engine,
            "level_claimed": {"category": level, "text": text, "design_ref": "DESIGN.md section " + ref},
            "level_note": note,
            "technique": technique,
        })
    engines = {}
    for c in checks:
        engines.setdefault(c["engine"], []).append(c["property_id"])
    m = {
        "version": 1,
        "setup_cmd": "./check --setup",
        "hooks": {
            "guard": "--cfg vls_verif",
            "enable": "RUSTFLAGS='--cfg vls_verif' (only the C20 build; every other check builds /repo unmodified through path dependencies)",
            "baseline_off_cmd": "cd /repo && cargo nextest run --workspace --no-fail-fast --offline --test-threads 8",
            "source_commits": ["b64786d"],
            "add_only": False,
            "add_only_note": "the hook adds a `vls_verif` disjunct to the three existing cfg predicates of the vls-core prelude (two pub use of the same names would collide) and a cfg-gated dependency; with the cfg off every predicate evaluates as before",
        },
        "engines": [{"name": k, "path": ENGINE_PATH.get(k, "harness/src/%s.rs" % k), "serves_properties": v,
                     "kind_free_text": "exhaustive bounded exploration driving the real implementation"} for k, v in sorted(engines.items())],
        "checks": checks,
        "not_applicable": na,
        "notes": "All checks drive the real code of /repo through cargo path dependencies (harness/Cargo.toml), so they always rebuild from the current working tree. Engines run under setarch -R because hashbrown/ahash seed maps from addresses.",
    }
    json.dump(m, open(os.path.join(HERE, "MANIFEST.json"), "w"), indent=1)
    print("checks:", [c["property_id"] for c in checks], "not_applicable:", len(na))

if __name__ == "__main__":
    main()
