#!/usr/bin/env python3
"""Regenerates MANIFEST.json from the table below (kept in one place so it stays valid)."""
import json, os
HERE = os.path.dirname(os.path.abspath(__file__))

# id -> (implemented, engine, level, technique, text, note, design_ref)
CHECKS = {
 "C16": (True, "kvvmc", "model_checking",
   "explicit-state BFS over the real MemoryKVVStore/RedbKVVStore/CloudKVVStore against a BTreeMap reference (closes)",
   "Every operation sequence over 2 prefix-related keys, 3-4 versions and 3 values (incl. all batches of <=2 entries and a reopen letter) is executed on the real stores in lock-step with a map reference; the canonical state set closes (100 store states quick), every read is compared after every step. Cloud store: all protocol-legal transactions of bounded length.",
   "Trusts redb itself and /dev/shm as a file system; torn writes inside redb are out of scope. Duplicate-key batches are compared between backends and against all-or-nothing/monotonicity only.",
   "7.1"),
}

PENDING_REASON = "check not built yet in this session (planned, see DESIGN.md section 0)"

def main():
    props = [json.loads(l) for l in open(os.path.join(HERE, "properties.jsonl"))]
    checks, na = [], []
    for p in props:
        pid = p["id"]
        c = CHECKS.get(pid)
        if not c or not c[0]:
            na.append({"property_id": pid, "reason": (c[4] if c else PENDING_REASON)})
            continue
        _, engine, level, technique, text, note, ref = c
        checks.append({
            "property_id": pid,
            "quick_cmd": "./check %s quick" % pid,
            "thorough_cmd": "./check %s thorough" % pid,
            "evidence_file": "/verif/evidence/%s.json" % pid,
            "replay_cmd_template": "./check --replay {path}",
            "engine": engine,
            "level_claimed": {"category": level, "text": text, "design_ref": "DESIGN.md section " + ref},
            "level_note": note,
            "technique": technique,
        })
    engines = {}
    for c in checks:
        engines.setdefault(c["engine"], []).append(c["property_id"])
    m = {
        "version": 1,
        "setup_cmd": "./check --setup",
        "hooks": {
            "guard": "--cfg vls_verif",
            "enable": "RUSTFLAGS='--cfg vls_verif' (only the C20 build; every other check builds /repo unmodified through path dependencies)",
            "baseline_off_cmd": "cd /repo && cargo nextest run --workspace --no-fail-fast --offline --test-threads 8",
            "source_commits": [],
            "add_only": True,
        },
        "engines": [{"name": k, "path": "harness/src/%s.rs" % k, "serves_properties": v,
                     "kind_free_text": "exhaustive bounded exploration driving the real implementation"} for k, v in sorted(engines.items())],
        "checks": checks,
        "not_applicable": na,
        "notes": "All checks drive the real code of /repo through cargo path dependencies (harness/Cargo.toml), so they always rebuild from the current working tree. Engines run under setarch -R because hashbrown/ahash seed maps from addresses.",
    }
    json.dump(m, open(os.path.join(HERE, "MANIFEST.json"), "w"), indent=1)
    print("checks:", [c["property_id"] for c in checks], "not_applicable:", len(na))

if __name__ == "__main__":
    main()
