//! C17, read path: the start-up read of the whole external state
//! (`vls_util::persist::ExternalPersistWithHelper::init_state`, used by vlsd and vls-proxy) is
//! driven with every response of a small provider alphabet.
//!
//! The provider does not know the shared secret.  What it can put into a response is a record
//! list of its choice and a tag it has seen before or made up; the only party that can make a tag
//! for (this request's nonce, the returned list) is the storage library holding the secret.
//! Oracle: a response is accepted (no abort, local state replaced) only if its tag equals the
//! storage library's `compute_shared_hmac(secret, nonce of this request, returned list)`, and an
//! accepted response leaves exactly the returned records in the local state.
//!
//! Output: one JSON object on the last line of stdout / in the file given as second argument:
//! {"cases": n, "accepted": n, "refused": n, "violations": [{"key","what","case"}], ...}

use async_trait::async_trait;
use lightning_signer::persist::{ExternalPersistHelper, Mutations};
use lightning_storage_server::util::compute_shared_hmac as lss_shared_hmac;
use lightning_storage_server::Value as LssValue;
use serde_json::{json, Value};
use std::collections::BTreeMap;
use std::sync::{Arc, Mutex};
use tokio::sync::Mutex as AsyncMutex;
use vls_frontend::external_persist::{Error, ExternalPersist, Info};
use vls_util::persist::ExternalPersistWithHelper;

type Rec = (String, (u64, Vec<u8>));

const SECRET: [u8; 32] = [0x5c; 32];

/// what the provider does with the records it holds
#[derive(Clone, Copy, Debug, PartialEq)]
enum Shape {
    Same,
    DropFirst,
    DropLast,
    DropAll,
    Swap,
    ValueFlip,
    VersionUp,
    KeyChange,
    Append,
}

/// which tag it attaches
#[derive(Clone, Copy, Debug, PartialEq)]
enum Tag {
    /// made by the storage library for this nonce and the returned list (the honest answer)
    Right,
    /// made for this nonce, but for the records as stored (not as returned)
    ForStored,
    /// the right tag of an earlier request (other nonce) for the returned list
    Replayed,
    /// the tag the signer itself attached when it wrote these records (client tag of a put)
    ClientPut,
    /// the tag the server returned for that put
    ServerPut,
    Zeros,
    Empty,
    Truncated,
    BitFlip,
}

struct Provider {
    stored: Vec<Rec>,
    shape: Shape,
    tag: Tag,
    /// nonces of the requests seen
    nonces: Mutex<Vec<Vec<u8>>>,
    /// what was returned: (records, tag)
    returned: Mutex<Option<(Vec<Rec>, Vec<u8>)>>,
}

fn to_lss(recs: &[Rec]) -> Vec<(String, LssValue)> {
    recs.iter().map(|(k, (ver, val))| (k.clone(), LssValue { version: *ver as i64, value: val.clone() })).collect()
}

fn shaped(stored: &[Rec], shape: Shape) -> Option<Vec<Rec>> {
    let mut r = stored.to_vec();
    match shape {
        Shape::Same => {}
        Shape::DropFirst => {
            if r.is_empty() {
                return None;
            }
            r.remove(0);
        }
        Shape::DropLast => {
            if r.len() < 2 {
                return None;
            }
            r.pop();
        }
        Shape::DropAll => {
            if r.is_empty() {
                return None;
            }
            r.clear();
        }
        Shape::Swap => {
            if r.len() < 2 {
                return None;
            }
            r.swap(0, 1);
        }
        Shape::ValueFlip => {
            if r.is_empty() {
                return None;
            }
            if r[0].1 .1.is_empty() {
                r[0].1 .1.push(1);
            } else {
                r[0].1 .1[0] ^= 1;
            }
        }
        Shape::VersionUp => {
            if r.is_empty() {
                return None;
            }
            r[0].1 .0 += 1;
        }
        Shape::KeyChange => {
            if r.is_empty() {
                return None;
            }
            r[0].0.push('x');
        }
        Shape::Append => r.push(("zz".to_string(), (0, vec![9]))),
    }
    Some(r)
}

#[async_trait]
impl ExternalPersist for Provider {
    async fn put(&self, _mutations: Mutations, _client_hmac: &[u8]) -> Result<Vec<u8>, Error> {
        Err(Error::NotAvailable)
    }

    async fn get(&self, _key_prefix: String, nonce: &[u8]) -> Result<(Mutations, Vec<u8>), Error> {
        self.nonces.lock().unwrap().push(nonce.to_vec());
        let recs = shaped(&self.stored, self.shape).expect("case filtered before");
        let right = lss_shared_hmac(&SECRET, nonce, &to_lss(&recs));
        let tag = match self.tag {
            Tag::Right => right,
            Tag::ForStored => lss_shared_hmac(&SECRET, nonce, &to_lss(&self.stored)),
            Tag::Replayed => lss_shared_hmac(&SECRET, &[0x11; 32], &to_lss(&recs)),
            Tag::ClientPut => lss_shared_hmac(&SECRET, &[0x01], &to_lss(&recs)),
            Tag::ServerPut => lss_shared_hmac(&SECRET, &[0x02], &to_lss(&recs)),
            Tag::Zeros => vec![0u8; 32],
            Tag::Empty => vec![],
            Tag::Truncated => right[..31].to_vec(),
            Tag::BitFlip => {
                let mut t = right;
                t[31] ^= 1;
                t
            }
        };
        *self.returned.lock().unwrap() = Some((recs.clone(), tag.clone()));
        Ok((Mutations::from_vec(recs), tag))
    }

    async fn info(&self) -> Result<Info, Error> {
        Err(Error::NotAvailable)
    }
}

fn record_lists() -> Vec<Vec<Rec>> {
    let keys = ["a", "ab"];
    let vers = [0u64, 1];
    let vals: [Vec<u8>; 2] = [vec![], vec![1]];
    let mut singles = vec![];
    for k in keys {
        for v in vers {
            for x in &vals {
                singles.push((k.to_string(), (v, x.clone())));
            }
        }
    }
    let mut out: Vec<Vec<Rec>> = vec![vec![]];
    for s in &singles {
        out.push(vec![s.clone()]);
    }
    for a in &singles {
        for b in &singles {
            if a.0 != b.0 {
                out.push(vec![a.clone(), b.clone()]);
            }
        }
    }
    out
}

struct Outcome {
    accepted: bool,
    state: BTreeMap<String, (u64, Vec<u8>)>,
    nonce: Vec<u8>,
    returned: (Vec<Rec>, Vec<u8>),
}

fn run_one(rt: &tokio::runtime::Runtime, stored: &[Rec], shape: Shape, tag: Tag) -> Outcome {
    let provider = Arc::new(Provider { stored: stored.to_vec(), shape, tag, nonces: Mutex::new(vec![]), returned: Mutex::new(None) });
    struct Fwd(Arc<Provider>);
    #[async_trait]
    impl ExternalPersist for Fwd {
        async fn put(&self, m: Mutations, h: &[u8]) -> Result<Vec<u8>, Error> {
            self.0.put(m, h).await
        }
        async fn get(&self, k: String, n: &[u8]) -> Result<(Mutations, Vec<u8>), Error> {
            self.0.get(k, n).await
        }
        async fn info(&self) -> Result<Info, Error> {
            self.0.info().await
        }
    }
    let state = Arc::new(Mutex::new(BTreeMap::new()));
    // something the signer believed before the read, so that "state replaced" is observable
    let subject = ExternalPersistWithHelper {
        persist_client: Arc::new(AsyncMutex::new(Box::new(Fwd(provider.clone())) as Box<dyn ExternalPersist>)),
        state: state.clone(),
        helper: ExternalPersistHelper::new(SECRET),
    };
    let res = std::panic::catch_unwind(std::panic::AssertUnwindSafe(|| rt.block_on(subject.init_state())));
    let nonce = provider.nonces.lock().unwrap().last().cloned().unwrap_or_default();
    let returned = provider.returned.lock().unwrap().clone().unwrap_or_default();
    // a poisoned mutex means the subject aborted while holding it
    let st = match state.lock() {
        Ok(g) => g.clone(),
        Err(p) => p.into_inner().clone(),
    };
    Outcome { accepted: res.is_ok(), state: st, nonce, returned }
}

const SHAPES: [Shape; 9] = [Shape::Same, Shape::DropFirst, Shape::DropLast, Shape::DropAll, Shape::Swap, Shape::ValueFlip, Shape::VersionUp, Shape::KeyChange, Shape::Append];
const TAGS: [Tag; 9] = [Tag::Right, Tag::ForStored, Tag::Replayed, Tag::ClientPut, Tag::ServerPut, Tag::Zeros, Tag::Empty, Tag::Truncated, Tag::BitFlip];

/// re-execute one recorded case without the enumeration and say what happened
fn replay(rt: &tokio::runtime::Runtime, file: &str) -> i32 {
    let v: Value = serde_json::from_str(&std::fs::read_to_string(file).expect("read replay file")).expect("replay json");
    let case = if v["replay"]["case"].is_object() { &v["replay"]["case"] } else { &v["case"] };
    let stored: Vec<Rec> = serde_json::from_value(case["stored"].clone()).expect("stored records");
    let shape = SHAPES.iter().find(|s| format!("{:?}", s) == case["shape"].as_str().unwrap_or("")).copied().expect("shape");
    let tag = TAGS.iter().find(|t| format!("{:?}", t) == case["tag"].as_str().unwrap_or("")).copied().expect("tag");
    let o = run_one(rt, &stored, shape, tag);
    let right = lss_shared_hmac(&SECRET, &o.nonce, &to_lss(&o.returned.0));
    let authentic = o.returned.1 == right;
    println!("stored {:?} shape {:?} tag {:?}: returned {:?}, tag authentic under this request's nonce: {}, accepted: {}, local state afterwards {:?}", stored, shape, tag, o.returned.0, authentic, o.accepted, o.state);
    if o.accepted && !authentic {
        println!("VIOLATION property=C17 replay={}", file);
        1
    } else {
        0
    }
}

fn main() {
    let args: Vec<String> = std::env::args().collect();
    if args.len() < 2 || (args[1] != "readpath" && args[1] != "replay") {
        eprintln!("usage: vmc-ext readpath [out.json] | vmc-ext replay <file>");
        std::process::exit(2);
    }
    std::panic::set_hook(Box::new(|_| {}));
    let rt = tokio::runtime::Builder::new_current_thread().build().expect("runtime");
    if args[1] == "replay" {
        std::process::exit(replay(&rt, &args[2]));
    }
    let shapes = SHAPES;
    let tags = TAGS;
    let (mut cases, mut accepted, mut refused, mut honest_accepted, mut honest) = (0u64, 0u64, 0u64, 0u64, 0u64);
    let mut violations: Vec<Value> = vec![];
    let mut seen_keys = std::collections::BTreeSet::new();
    let mut nonces = std::collections::BTreeSet::new();
    let mut samples = vec![];
    for stored in record_lists() {
        for shape in shapes {
            if shaped(&stored, shape).is_none() {
                continue;
            }
            for tag in tags {
                cases += 1;
                let o = run_one(&rt, &stored, shape, tag);
                let case = json!({"stored": stored, "shape": format!("{:?}", shape), "tag": format!("{:?}", tag)});
                if o.nonce.len() != 32 || !nonces.insert(o.nonce.clone()) {
                    let k = "C17:read:nonce-not-fresh".to_string();
                    if seen_keys.insert(k.clone()) {
                        violations.push(json!({"key": k, "what": format!("the read request carried the nonce {:02x?}, which is empty or was used by an earlier request", o.nonce), "case": case}));
                    }
                }
                let right = lss_shared_hmac(&SECRET, &o.nonce, &to_lss(&o.returned.0));
                let authentic = o.returned.1 == right;
                if tag == Tag::Right {
                    honest += 1;
                    if o.accepted {
                        honest_accepted += 1;
                    }
                }
                if o.accepted {
                    accepted += 1;
                    if !authentic {
                        let k = format!("C17:read:accepted-unauthenticated-response:{:?}:{:?}{}", shape, tag, if o.returned.0.is_empty() { ":empty-list" } else { "" });
                        if seen_keys.insert(k.clone()) {
                            violations.push(json!({"key": k, "what": format!("init_state accepted a response of {} record(s) whose tag ({:?}) is not the storage library's tag for this request's nonce and the returned records (stored {:?}, returned {:?})", o.returned.0.len(), tag, stored, o.returned.0), "case": case}));
                        }
                    }
                    let want: BTreeMap<String, (u64, Vec<u8>)> = o.returned.0.iter().cloned().collect();
                    if o.state != want {
                        let k = format!("C17:read:accepted-state-differs-from-response:{:?}", shape);
                        if seen_keys.insert(k.clone()) {
                            violations.push(json!({"key": k, "what": format!("after an accepted read the local state is {:?}, the response carried {:?}", o.state, o.returned.0), "case": case}));
                        }
                    }
                    if samples.len() < 2 {
                        samples.push(json!({"accepted": case}));
                    }
                } else {
                    refused += 1;
                    if !o.state.is_empty() {
                        let k = format!("C17:read:refused-response-changed-state:{:?}:{:?}", shape, tag);
                        if seen_keys.insert(k.clone()) {
                            violations.push(json!({"key": k, "what": format!("a refused read response left {:?} in the local state", o.state), "case": case}));
                        }
                    }
                    if samples.len() < 4 && samples.len() >= 2 {
                        samples.push(json!({"refused": case}));
                    }
                }
            }
        }
    }
    let out = json!({
        "cases": cases,
        "accepted": accepted,
        "refused": refused,
        "honest_responses": honest,
        "honest_responses_accepted": honest_accepted,
        "distinct_nonces": nonces.len(),
        "violations": violations,
        "samples": samples,
        "rule": "stored record lists of <= 2 records over keys {a, ab} x versions {0,1} x values {empty, 01} x 9 response shapes (as stored, first / last / all records dropped, swapped, value bit, version + 1, key changed, record appended) x 9 tags (right for this nonce and list, right for the stored list, replayed from another nonce, client / server tag of the put, zeros, empty, truncated, bit flip), each through ExternalPersistWithHelper::init_state on a tokio runtime",
    });
    let text = serde_json::to_string(&out).unwrap();
    if args.len() > 2 {
        std::fs::write(&args[2], &text).expect("write result");
    }
    println!("{}", text);
}
