#!/bin/bash
# usage: tools/regress_seeds.sh [seed-dir ...]   -- every saved seed against the quick check of its property
# prints one line per seed: CAUGHT / MISSED / MACHINERY
cd /verif || exit 2
dirs=("$@")
[ ${#dirs[@]} -eq 0 ] && dirs=(seeded/*/)
for d in "${dirs[@]}"; do
  name=$(basename "$d"); id=${name%-*}
  [ -f "$d/patch.diff" ] || continue
  out=$(tools/mutant.sh "/verif/seeded/$name/patch.diff" "$id" 2>&1)
  code=$(echo "$out" | grep -o "exit=[0-9]*" | head -1)
  nv=$(echo "$out" | grep -c "^VIOLATION")
  case "$code" in
    exit=1) echo "$name CAUGHT ($nv)";;
    exit=0) echo "$name MISSED";;
    *) echo "$name MACHINERY $code $(echo "$out" | grep -E 'MACHINERY|DOES NOT APPLY' | head -1 | cut -c1-200)";;
  esac
done
