#!/bin/bash
# usage: tools/coverage.sh [ID ...]      (default: every check except C20)
# Not a check: an aid for reading what the quick tiers actually execute in the repository.
# Builds the harness with -C instrument-coverage (nightly toolchain, for its llvm-tools), runs the
# quick tier of the named checks and writes, per repository source file, the lines with an execution
# count of zero to /verif/.cache/cov/uncovered/<file>.txt plus a summary table.
set -u
cd /verif/harness || exit 2
TOOLS=$(ls -d ~/.rustup/toolchains/nightly-x86_64-unknown-linux-gnu/lib/rustlib/x86_64-unknown-linux-gnu/bin)
COV=/verif/.cache/cov
export CARGO_NET_OFFLINE=true CARGO_TARGET_DIR=/verif/.cache/target-cov RUSTFLAGS="-C instrument-coverage"
# build scripts are instrumented too: keep their profiles out of the repository
export LLVM_PROFILE_FILE=/verif/.cache/cov-build-%p.profraw
python3 ../tools/gen_wire.py >/dev/null || exit 2
cargo +nightly build --release --offline --quiet || exit 2
rm -f /verif/.cache/cov-build-*.profraw; rm -rf $COV; mkdir -p $COV/raw $COV/uncovered
ids=("$@"); [ ${#ids[@]} -eq 0 ] && ids=(C01 C02 C03 C04 C05 C06 C07 C08 C09 C10 C11 C12 C13 C14 C15 C16 C17 C18 C19)
cd /verif
for id in "${ids[@]}"; do
  eng=$(echo $id | tr A-Z a-z)
  LLVM_PROFILE_FILE="$COV/raw/$id-%p.profraw" RUST_LOG=off VERIF_NO_EVIDENCE=1 setarch $(uname -m) -R \
    $CARGO_TARGET_DIR/release/vmc $eng quick > $COV/$id.log 2>&1
  echo "$id exit=$?"
done
# the engines rewrite evidence files; restore the committed ones
git -C /verif checkout -q -- evidence 2>/dev/null; git -C /verif clean -qfd evidence 2>/dev/null
$TOOLS/llvm-profdata merge -sparse $COV/raw/*.profraw -o $COV/all.profdata || exit 2
$TOOLS/llvm-cov export --format=lcov --instr-profile=$COV/all.profdata $CARGO_TARGET_DIR/release/vmc \
   --ignore-filename-regex='(\.cargo|rustc|/verif/)' > $COV/all.lcov
python3 - "$COV" <<'PY'
import sys,os,collections
cov=sys.argv[1]
cur=None; miss=collections.defaultdict(list); tot=collections.Counter(); hit=collections.Counter()
for l in open(cov+"/all.lcov"):
    l=l.strip()
    if l.startswith("SF:"): cur=l[3:]
    elif l.startswith("DA:"):
        n,c=l[3:].split(",")[:2]; tot[cur]+=1
        if int(c)>0: hit[cur]+=1
        else: miss[cur].append(int(n))
rows=[]
for f in tot:
    if not f.startswith("/repo/"): continue
    rows.append((f,hit[f],tot[f]))
    src=open(f).read().splitlines()
    out=open(os.path.join(cov,"uncovered",f[6:].replace("/","__")+".txt"),"w")
    for n in miss[f]:
        out.write("%5d  %s\n"%(n,src[n-1] if n<=len(src) else ""))
rows.sort()
with open(cov+"/summary.txt","w") as s:
    for f,h,t in rows: s.write("%-70s %5d/%5d %3d%%\n"%(f[6:],h,t,100*h//max(t,1)))
print(open(cov+"/summary.txt").read())
PY
