import sys, json
pid=sys.argv[1]; ROUND=int(sys.argv[2])
props={}
for l in open('/verif/properties.jsonl'):
    p=json.loads(l); props[p['id']]=p
p=props[pid]
prop="Title: %s\n\nStatement: %s\n\nQuantifier: %s\n\nAnchors (files): %s\n"%(p['title'],p['statement'],p['quantifier']['text'],", ".join(p['anchors']['files']))
prev=""
for k in range(1, ROUND):
    try:
        m=json.load(open('/verif/seeded/%s-%d/meta.json'%(pid,k)))
        prev+="\nPREVIOUS ATTEMPT %d (do NOT repeat it or a close variant; pick a different mechanism, a different function and if possible a different clause of the property):\n"%k+m.get('summary','')[:600]+"\n"
    except Exception as e:
        pass
wt="/tmp/seed%d-%s"%(ROUND,pid)
print(f"""You are testing how robust a verification effort is. You are given ONE semantic property of the Rust project validating-lightning-signer (VLS: a Lightning signer that enforces policy before signing) and a scratch git worktree of it at {wt} (work ONLY there; never touch /repo or /verif; do not read /verif).

PROPERTY {pid}
{prop}{prev}
YOUR TASK: produce a small, realistic source change (a plausible bug a developer could introduce: a refactor slip, off-by-one, wrong variable, missing check on one path, check moved after a mutation, wrong comparison, a cache/flag not reset, an early return...) to the non-test source of the repository that BREAKS this property, while
  (a) the workspace still compiles,
  (b) the ENTIRE existing test suite still passes: run `cd {wt} && CARGO_TARGET_DIR={wt}/target CARGO_NET_OFFLINE=true cargo nextest run --workspace --no-fail-fast --offline --test-threads 6 --build-jobs 6` and require 651 passed, 0 failed (run it on the final patch, with your demonstration file moved aside),
  (c) the breakage needs something SPECIFIC to manifest — a particular multi-step sequence, an unusual input shape or boundary value, a particular configuration, a particular interleaving / crash (restart) point, or two cooperating sites that each look fine alone — NOT something ordinary use would expose at once.
Also write a demonstration: a new integration test file (e.g. vls-core/tests/seed{ROUND}_{pid.lower()}.rs, or in the crate where it fits; it may use the `test_utils` feature helpers) that FAILS with your change and PASSES on the unchanged tree. Verify both yourself (use `git stash`/`git apply -R` to compare).

Constraints: no network (cargo --offline only, no new crates). Do not edit or delete existing tests. Do not change Cargo.lock. Keep the change minimal (a few lines). Use CARGO_TARGET_DIR={wt}/target for every cargo command so build output stays inside the worktree. Building takes a few minutes; limit parallel build jobs to 6.

DELIVERABLES, written into {wt}/OUT/:
  patch.diff  — `git diff` of ONLY the source change (no demo file), applying cleanly with `git apply` to the worktree's HEAD
  demo.diff   — a diff that adds ONLY the demonstration test file
  meta.json   — {{"property": "{pid}", "summary": what the change does and why it breaks the property, "needs": what specifically is needed for it to manifest, "demo_cmd": exact command (starting with `cd <repo> && ...`) running the demo, "demo_files": [...], "tests_run": what you ran and the pass/fail counts with and without the patch}}
When done, reply with a short summary (file changed, what manifests it, test-suite result, demo result with/without). If after a serious attempt you cannot find a change that the existing suite does not catch, say so and explain which tests pin the behaviour.""")
