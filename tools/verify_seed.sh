#!/bin/bash
# usage: tools/verify_seed.sh <seed-dir> [<seed-dir>...]
# Confirms a seeded change in a scratch worktree of /repo (HEAD): it compiles, the repository suite still
# passes with it, and its demonstration fails with it and passes without it.  Writes <seed-dir>/verified.json.
for dir in "$@"; do
  name=$(basename "$dir")
  wt=/tmp/wt-verify-$name
  git -C /repo worktree remove --force $wt 2>/dev/null
  git -C /repo worktree add --detach $wt HEAD >/dev/null 2>&1 || { echo "$name: worktree failed"; continue; }
  export CARGO_TARGET_DIR=/tmp/wt-verify-target CARGO_NET_OFFLINE=true
  cd $wt
  res_apply=ok
  git apply "$dir/patch.diff" 2>/dev/null || git apply --3way "$dir/patch.diff" 2>/dev/null || res_apply=FAILED
  suite="skipped"; demo_with="skipped"; demo_without="skipped"
  demo_cmd=$(python3 -c "import json,sys;print(json.load(open('$dir/meta.json')).get('demo_cmd',''))" 2>/dev/null | sed -e 's#^cd [^&]*&& *##' -e 's#CARGO_TARGET_DIR=[^ ]* ##g')
  if [ "$res_apply" = ok ]; then
    out=$(cargo nextest run --workspace --no-fail-fast --offline --test-threads 8 2>&1 | grep -E "Summary|error(\[|:)" | tail -3)
    suite="$out"
    if [ -f "$dir/demo.diff" ]; then
      git apply "$dir/demo.diff" 2>/dev/null || echo "demo.diff does not apply"
      (eval "$demo_cmd") > /tmp/wt-verify-demo.log 2>&1; demo_with="exit=$? $(grep -E 'test result|error(\[|:)' /tmp/wt-verify-demo.log | tail -1)"
      git apply -R "$dir/patch.diff" 2>/dev/null || { git checkout -- . ; git apply "$dir/demo.diff"; }
      (eval "$demo_cmd") > /tmp/wt-verify-demo.log 2>&1; demo_without="exit=$? $(grep -E 'test result|error(\[|:)' /tmp/wt-verify-demo.log | tail -1)"
    fi
  fi
  cd /
  python3 - "$dir" "$res_apply" "$suite" "$demo_with" "$demo_without" "$demo_cmd" <<'PY'
import json,sys,subprocess
d,ap,suite,dw,dwo,cmd=sys.argv[1:7]
head=subprocess.run(["git","-C","/repo","rev-parse","--short","HEAD"],capture_output=True,text=True).stdout.strip()
json.dump({"repo_head":head,"patch_applies":ap,"suite_with_patch":suite,"demo_cmd":cmd,"demo_with_patch":dw,"demo_without_patch":dwo},open(d+"/verified.json","w"),indent=1)
print(d, ap, "|", suite.replace("\n"," "), "| with:", dw, "| without:", dwo)
PY
  git -C /repo worktree remove --force $wt
done
rm -rf /tmp/wt-verify-target
