#!/bin/bash
# usage: tools/verify_seed_inplace.sh <scratch-worktree> <seed-dir>
# Like verify_seed.sh, but reuses the scratch worktree (and its build output) the seed was written in: the
# worktree is reset to HEAD, then patch.diff is applied and the whole repository suite run; then the demonstration
# is added and run with and without the patch.  Writes <seed-dir>/verified.json.
wt="$1"; dir="$2"
cd "$wt" || exit 2
export CARGO_TARGET_DIR=$wt/target CARGO_NET_OFFLINE=true
git checkout -q -- . ; git clean -qfd -e OUT -e target
res_apply=ok
git apply "$dir/patch.diff" 2>/dev/null || res_apply=FAILED
suite=skipped; demo_with=skipped; demo_without=skipped
demo_cmd=$(python3 -c "import json,sys;print(json.load(open('$dir/meta.json')).get('demo_cmd',''))" 2>/dev/null | sed -e 's#^cd [^&]*&& *##' -e 's#CARGO_TARGET_DIR=[^ ]* ##g' -e 's#git apply [^&]*&& *##')
if [ "$res_apply" = ok ]; then
  suite=$(cargo nextest run --workspace --no-fail-fast --offline --test-threads 6 --build-jobs 6 2>&1 | grep -E "Summary|error(\[|:)" | tail -3)
  git apply "$dir/demo.diff" 2>/dev/null || echo "demo.diff does not apply"
  (eval "$demo_cmd") > $wt/OUT/verify-demo.log 2>&1; demo_with="exit=$? $(grep -E 'test result|Summary|error(\[|:)' $wt/OUT/verify-demo.log | tail -1)"
  git apply -R "$dir/patch.diff" 2>/dev/null || echo "patch does not revert"
  (eval "$demo_cmd") > $wt/OUT/verify-demo.log 2>&1; demo_without="exit=$? $(grep -E 'test result|Summary|error(\[|:)' $wt/OUT/verify-demo.log | tail -1)"
fi
cd /
python3 - "$dir" "$res_apply" "$suite" "$demo_with" "$demo_without" "$demo_cmd" <<'PY'
import json,sys,subprocess
d,ap,suite,dw,dwo,cmd=sys.argv[1:7]
head=subprocess.run(["git","-C","/repo","rev-parse","--short","HEAD"],capture_output=True,text=True).stdout.strip()
json.dump({"repo_head":head,"patch_applies":ap,"suite_with_patch":suite,"demo_cmd":cmd,"demo_with_patch":dw,"demo_without_patch":dwo,"how":"scratch worktree of the seed reset to HEAD, build output reused"},open(d+"/verified.json","w"),indent=1)
print(d, ap, "|", suite.replace("\n"," "), "| with:", dw, "| without:", dwo)
PY
