#!/bin/bash
# usage: tools/mutant.sh <patch.diff> <ID> [<ID>...]  -- apply a seeded change to /repo, run quick checks, undo it
set -u
patch="$1"; shift
cd /repo || exit 2
if [ -n "$(git status --porcelain)" ]; then echo "repo not clean"; exit 2; fi
if ! git apply --check "$patch" 2>/dev/null; then
  if ! git apply --3way "$patch" 2>/dev/null; then echo "PATCH DOES NOT APPLY: $patch"; git reset -q --hard HEAD ; exit 3; fi
else
  git apply "$patch"
fi
git diff --stat | tail -1
rc=0
for id in "$@"; do
  tier=quick
  case "$id" in *:t) tier=thorough; id="${id%:t}";; esac
  out=$(cd /verif && ./check "$id" $tier 2>&1)
  code=$?
  echo "== $id $tier exit=$code"
  echo "$out" | grep -E "VIOLATION|key=|MACHINERY|KNOWN" | cut -c1-400 | head -12
done
git reset -q --hard HEAD
git status --porcelain | head -3
# the evidence written while the change was applied must not survive it
git -C /verif checkout -q -- evidence 2>/dev/null
git -C /verif clean -qfd evidence 2>/dev/null
