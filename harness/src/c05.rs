//! C05: accepted commitments satisfy every mandatory policy bound (DESIGN 4.2).
//!
//! Deviation-bounded grid: every base (policy x validator x chain-state use x setup x entry point
//! x commitment number) is an accepted request; every set of <= d deviations replaces one field
//! each by a value of that field's boundary alphabet.  Each case runs on a fresh world.  The oracle
//! is an independent reference predicate in u128 written from the statement; only
//! `accepted && !reference_ok` is a violation (the signer may be stricter).

use crate::chain::*;
use crate::ev::*;
use crate::txbase::*;
use crate::world::*;
use lightning_signer::bitcoin::OutPoint;
use lightning_signer::channel::CommitmentType;
use lightning_signer::policy::simple_validator::SimplePolicy;
use serde::{Deserialize, Serialize};
use serde_json::{json, Value};
use std::collections::BTreeSet;

#[derive(Clone, Copy, Debug, PartialEq, Eq, Hash, Serialize, Deserialize)]
pub enum Entry {
    Setup,
    SignCp,
    Validate,
}

#[derive(Clone, Debug, PartialEq, Eq, Hash, Serialize, Deserialize)]
pub struct Case {
    pub pol: u8,
    pub onchain: bool,
    pub ucs: bool,
    /// 0 funding unconfirmed, 1 funding confirmed, 2 funding confirmed and spent (closed)
    pub chain: u8,
    pub v: SetupV,
    /// commitment type index: 0 legacy, 1 static-remotekey, 2 anchors, 3 anchors-zero-fee-htlc
    pub ctype: u8,
    pub entry: Entry,
    pub n: u64,
    pub c: Content,
    /// the other side's commitment number is one ahead when the request is made (the holder
    /// already validated commitment 1 and revoked 0 before counterparty commitment 1 is signed,
    /// or the counterparty's commitment 1 was signed before holder commitment 1 is validated)
    #[serde(default)]
    pub other_ahead: bool,
    /// index of the channel's output in the funding transaction (a change output comes first when 1)
    #[serde(default)]
    pub fvout: u32,
    /// the request is a *retry*: the same commitment number was first signed / validated with the
    /// base's own contents (and the same point); the contents under test are presented afterwards
    #[serde(default)]
    pub retry: bool,
    pub devs: Vec<Dev>,
}

#[derive(Clone, Debug, PartialEq, Eq, Hash, Serialize, Deserialize)]
pub enum Dev {
    CType(u8),
    HDelay(u16),
    CDelay(u16),
    /// channel value, the funder's balance follows
    Value(u64),
    Push(u64),
    Feerate(u32),
    ToHolder(u64),
    ToCp(u64),
    /// add k offered / received HTLCs of the given value, taken from the offerer's balance
    AddOut(u64, u32, usize),
    AddInc(u64, u32, usize),
    /// the first offered / received HTLC grows by this much, taken from the offerer's balance
    RaiseOut(u64),
    RaiseInc(u64),
    /// raw value / expiry of the first HTLC (no rebalancing)
    HtlcValue(u64),
    HtlcCltv(u32),
    Chain(u8),
    N(u64),
}

fn dev_kind(d: &Dev) -> String {
    format!("{:?}", d).split('(').next().unwrap().to_string()
}

pub fn policy(id: u8, ucs: bool) -> SimplePolicy {
    policy_with(|p| {
        match id {
            1 | 3 | 4 => {
                p.min_delay = 5;
                p.max_delay = 10;
                p.max_htlcs = 2;
                p.max_htlc_value_sat = 60_000;
                p.min_feerate_per_kw = 500;
                p.max_feerate_per_kw = 5_000;
                p.max_channel_size_sat = CHANNEL_VALUE + 1;
            }
            2 => {
                p.max_channel_size_sat = u64::MAX;
                p.max_htlc_value_sat = u64::MAX;
            }
            _ => {}
        }
        if id == 3 {
            // the tight policy again, with every tag family that no commitment / set-up rule
            // reports under demoted to a warning (the policy stays non-permissive for C05's bounds)
            p.filter = unrelated_filter(&["policy-commitment", "policy-channel", "policy-funding"]);
        }
        if id == 4 {
            // the tight policy again, with the rules of the commitment family that are *not* bounds
            // of C05 (retry with changed contents, re-validation of a revoked holder commitment,
            // routing balance, payment velocity) demoted one by one; every bound stays mandatory
            use lightning_signer::policy::filter::{FilterResult, FilterRule, PolicyFilter};
            let tags = ["policy-commitment-retry-same", "policy-commitment-holder-not-revoked", "policy-commitment-htlc-routing-balance", "policy-commitment-payment-velocity"];
            p.filter = PolicyFilter { rules: tags.iter().map(|t| FilterRule { tag: t.to_string(), is_prefix: false, action: FilterResult::Warn }).collect() };
        }
        p.use_chain_state = ucs;
    })
}

fn ctype_of(i: u8) -> CommitmentType {
    match i {
        0 => CommitmentType::Legacy,
        1 => CommitmentType::StaticRemoteKey,
        2 => CommitmentType::Anchors,
        _ => CommitmentType::AnchorsZeroFeeHtlc,
    }
}

const HEIGHT_BASE: u32 = 1;

/// chain facts the harness knows because it fed the blocks
#[derive(Clone, Copy, Debug)]
struct ChainFacts {
    height: u32,
    funding_depth: u32,
    closing_depth: u32,
}

fn chain_facts(chain: u8) -> ChainFacts {
    match chain {
        0 => ChainFacts { height: HEIGHT_BASE, funding_depth: 0, closing_depth: 0 },
        1 => ChainFacts { height: HEIGHT_BASE + 1, funding_depth: 1, closing_depth: 0 },
        _ => ChainFacts { height: HEIGHT_BASE + 2, funding_depth: 2, closing_depth: 1 },
    }
}

fn u(x: u64) -> u128 {
    x as u128
}

/// The reference predicate (u128): is this request within all bounds the statement lists?
/// Returns the first bound that is broken.
fn reference(case: &Case, eff: &Eff) -> Result<(), String> {
    let p = policy(case.pol, case.ucs);
    let v = &eff.v;
    // usable channel: safe type, both delays in range
    if !(eff.ctype == 1 || eff.ctype == 3) {
        return Err("unsafe-commitment-type".into());
    }
    for (name, d) in [("holder-delay", v.hdelay), ("counterparty-delay", v.cdelay)] {
        if (d as u32) < p.min_delay as u32 || (d as u32) > p.max_delay as u32 {
            return Err(format!("{}-out-of-range", name));
        }
    }
    if case.entry == Entry::Setup {
        return Ok(());
    }
    let c = &eff.c;
    let anchors = eff.ctype >= 2;
    let zero_fee = eff.ctype == 3;
    if case.entry == Entry::SignCp && u(v.value) > u(p.max_channel_size_sat) {
        return Err("channel-above-maximum-size".into());
    }
    for (name, x) in [("to-holder", c.to_holder), ("to-counterparty", c.to_cp)] {
        if x > 0 && x < 354 {
            return Err(format!("{}-below-dust", name));
        }
    }
    let n_htlc = c.out.len() + c.inc.len();
    if n_htlc > p.max_htlcs {
        return Err("htlc-count".into());
    }
    // which HTLCs are "offered" depends on whose commitment it is
    let (timeout_w, success_w) = if anchors { (666u128, 706u128) } else { (663u128, 703u128) };
    let (offered_by_broadcaster, received_by_broadcaster) = match case.entry {
        Entry::SignCp => (&c.inc, &c.out),
        _ => (&c.out, &c.inc),
    };
    let lim_off = if zero_fee { 354 } else { 330 + u(c.feerate as u64) * timeout_w / 1000 };
    let lim_rec = if zero_fee { 354 } else { 330 + u(c.feerate as u64) * success_w / 1000 };
    let mut sum: u128 = 0;
    for h in offered_by_broadcaster.iter() {
        if u(h.value_sat) < lim_off {
            return Err("offered-htlc-below-trim-limit".into());
        }
    }
    for h in received_by_broadcaster.iter() {
        if u(h.value_sat) < lim_rec {
            return Err("received-htlc-below-trim-limit".into());
        }
    }
    for h in c.out.iter().chain(c.inc.iter()) {
        sum += u(h.value_sat);
        if h.cltv >= 500_000_000 {
            return Err("htlc-expiry-not-a-height".into());
        }
        if case.ucs {
            let hgt = eff.facts.height as u128;
            if (h.cltv as u128) < hgt + p.min_delay as u128 || (h.cltv as u128) > hgt + p.max_delay as u128 {
                return Err("htlc-expiry-out-of-range".into());
            }
        }
    }
    if sum > u(p.max_htlc_value_sat) {
        return Err("htlc-in-flight-value".into());
    }
    // implied fee
    let outputs = u(c.to_holder) + u(c.to_cp) + sum;
    if outputs > u(v.value) {
        return Err("outputs-exceed-channel-value".into());
    }
    let fee = u(v.value) - outputs;
    let weight = commitment_weight(anchors, n_htlc) as u128;
    // envelope: the reference is weaker than any sensible rounding of the rate
    if fee * 1000 / weight > p.max_feerate_per_kw as u128 {
        return Err("implied-feerate-above-maximum".into());
    }
    if (fee * 1000 + 999) / weight + 1 < p.min_feerate_per_kw as u128 {
        return Err("implied-feerate-below-minimum".into());
    }
    if eff.n == 0 {
        if n_htlc > 0 {
            return Err("initial-commitment-with-htlcs".into());
        }
        if v.outbound && u(c.to_cp) > u(v.push_msat) / 1000 {
            return Err("initial-commitment-gives-fundee-more-than-push".into());
        }
    }
    if case.onchain && eff.n > 0 {
        if eff.facts.funding_depth < 1 {
            return Err("funding-unconfirmed".into());
        }
        if eff.facts.closing_depth > 0 {
            return Err("closed-on-chain".into());
        }
    }
    Ok(())
}

/// the effective request after applying the deviations
#[derive(Clone, Debug)]
struct Eff {
    v: SetupV,
    ctype: u8,
    n: u64,
    c: Content,
    chain: u8,
    facts: ChainFacts,
}

fn effective(case: &Case) -> Eff {
    let mut e = Eff { v: case.v.clone(), ctype: case.ctype, n: case.n, c: case.c.clone(), chain: case.chain, facts: chain_facts(case.chain) };
    for d in &case.devs {
        match d {
            Dev::CType(t) => {
                e.ctype = *t;
                e.v.anchors = *t >= 2;
            }
            Dev::HDelay(x) => e.v.hdelay = *x,
            Dev::CDelay(x) => e.v.cdelay = *x,
            Dev::Value(x) => {
                let old = e.v.value;
                e.v.value = *x;
                // the funder's balance follows the channel value
                let t = if e.v.outbound { &mut e.c.to_holder } else { &mut e.c.to_cp };
                *t = (*t as u128 + *x as u128).saturating_sub(old as u128).min(u64::MAX as u128) as u64;
            }
            Dev::Push(x) => e.v.push_msat = *x,
            Dev::Feerate(x) => e.c.feerate = *x,
            Dev::ToHolder(x) => e.c.to_holder = *x,
            Dev::ToCp(x) => e.c.to_cp = *x,
            Dev::AddOut(val, cltv, k) => {
                for i in 0..*k {
                    e.c.out.push(H { value_sat: *val, hash: 2, cltv: *cltv + i as u32 % 2 });
                    e.c.to_holder = e.c.to_holder.saturating_sub(*val);
                }
            }
            Dev::AddInc(val, cltv, k) => {
                for i in 0..*k {
                    e.c.inc.push(H { value_sat: *val, hash: 1, cltv: *cltv + i as u32 % 2 });
                    e.c.to_cp = e.c.to_cp.saturating_sub(*val);
                }
            }
            Dev::RaiseOut(x) => {
                if let Some(h) = e.c.out.first_mut() {
                    h.value_sat = h.value_sat.saturating_add(*x);
                    e.c.to_holder = e.c.to_holder.saturating_sub(*x);
                }
            }
            Dev::RaiseInc(x) => {
                if let Some(h) = e.c.inc.first_mut() {
                    h.value_sat = h.value_sat.saturating_add(*x);
                    e.c.to_cp = e.c.to_cp.saturating_sub(*x);
                }
            }
            Dev::HtlcValue(x) => {
                if let Some(h) = e.c.out.first_mut() {
                    h.value_sat = *x;
                } else if let Some(h) = e.c.inc.first_mut() {
                    h.value_sat = *x;
                }
            }
            Dev::HtlcCltv(x) => {
                if let Some(h) = e.c.out.first_mut() {
                    h.cltv = *x;
                } else if let Some(h) = e.c.inc.first_mut() {
                    h.cltv = *x;
                }
            }
            Dev::Chain(x) => {
                e.chain = *x;
                e.facts = chain_facts(*x);
            }
            Dev::N(x) => e.n = *x,
        }
    }
    e
}

#[derive(Default, Debug)]
struct Res {
    class: String,
    accepted: bool,
    refused: bool,
    panic: bool,
    skipped: bool,
    /// the monitor's chain state differs from the chain the harness delivered
    facts_mismatch: bool,
    ref_ok: bool,
    ref_why: String,
    vio: Option<(String, String)>,
    calls: u64,
    mon: Vec<crate::vmc::Vio>,
}

fn run_case(case: &Case) -> Res {
    let mut r = Res::default();
    let e = effective(case);
    match reference(case, &e) {
        Ok(()) => r.ref_ok = true,
        Err(w) => r.ref_why = w,
    }
    let mut cfg = WorldCfg::default();
    cfg.policy = Some(policy(case.pol, case.ucs));
    cfg.onchain = case.onchain;
    cfg.oracle_pubkeys = vec![oracle_pub(0)];
    // the world and its chain
    let w = World::new(cfg);
    let mut chain = w.new_sim_chain();
    let b = make_block(&chain.tip().0, chain.height() + 1, 0, vec![]);
    if !w.connect(&mut chain, b, Delivery::Compact).is_ok() {
        r.skipped = true;
        r.class = "chain-setup-failed".into();
        return r;
    }
    let cp = Cp::new(110);
    if !w.new_channel(DBID).is_ok() {
        r.skipped = true;
        r.class = "new-channel-failed".into();
        return r;
    }
    let holder_pubkeys = w.holder_basepoints(DBID).unwrap();
    let mut setup = make_setup(&w, &cp, &e.v);
    setup.commitment_type = ctype_of(e.ctype);
    // a funding transaction the harness can put on chain
    let funding_tx = simple_tx(
        vec![OutPoint { txid: lightning_signer::bitcoin::Txid::from_raw_hash(lightning_signer::bitcoin::hashes::Hash::from_byte_array([0x71; 32])), vout: 0 }],
        {
            let f = (e.v.value, ChanParams { setup: setup.clone(), holder_pubkeys: holder_pubkeys.clone() }.funding_redeemscript().to_p2wsh());
            // with fvout = 1 a change output precedes the channel's output
            if case.fvout == 1 { vec![(12_345, foreign_script(7)), f] } else { vec![f] }
        },
        0,
    );
    setup.funding_outpoint = OutPoint { txid: funding_tx.compute_txid(), vout: case.fvout };
    r.calls += 1;
    let before = if crate::monitors::grid_monitors() { Some(w.snapshot()) } else { None };
    // (v.wire: by the SetupChannel message through the channel handler)
    let so = if e.v.wire { w.setup_channel_wire(DBID, &setup) } else { w.setup_channel(DBID, &setup) };
    crate::monitors::around(&w, &before, &so, "setup_channel", &mut r.mon);
    // "becomes usable only with ...": a refused setup must leave the slot a stub, and repeating
    // the identical request must be refused again; otherwise the channel did become usable and
    // the case counts as accepted.
    let mut after_refusal = "";
    let so = match so {
        Outcome::Err(x) => {
            r.calls += 1;
            if w.peek_chan(DBID, |_| ()).is_some() {
                after_refusal = "ready-after-refusal";
                Outcome::Ok(())
            } else if (if e.v.wire { w.setup_channel_wire(DBID, &setup) } else { w.setup_channel(DBID, &setup) }).is_ok() {
                after_refusal = "accepted-on-identical-retry";
                Outcome::Ok(())
            } else {
                Outcome::Err(x)
            }
        }
        o => o,
    };
    if case.entry == Entry::Setup {
        match so {
            Outcome::Ok(_) => {
                r.accepted = true;
                r.class = if after_refusal.is_empty() { "accepted".into() } else { after_refusal.into() };
            }
            Outcome::Err(x) => {
                r.refused = true;
                r.class = format!("refused:{}", x);
            }
            Outcome::Panic(p) => {
                r.panic = true;
                r.class = format!("panic:{}", p.chars().take(60).collect::<String>());
            }
        }
        return finish(case, &e, r);
    }
    match so {
        Outcome::Ok(_) => {}
        Outcome::Err(x) => {
            // the channel never became usable: nothing can be accepted on it
            r.refused = true;
            r.class = format!("setup-refused:{}", x);
            return finish(case, &e, r);
        }
        Outcome::Panic(_) => {
            r.panic = true;
            r.class = "setup-panic".into();
            return r;
        }
    }
    let params = ChanParams { setup: setup.clone(), holder_pubkeys };
    let ch = Chan { w, cp, setup, params, v: e.v.clone() };
    // move to the commitment number under test with plain contents
    if e.n >= 1 {
        if let Err(x) = ch.start() {
            r.skipped = true;
            r.class = format!("start-failed:{}", x);
            return r;
        }
    }
    if e.n >= 2 {
        r.skipped = true;
        r.class = "n>1".into();
        return r;
    }
    // chain state
    let need_funding_first = case.other_ahead && e.n == 1;
    if e.chain >= 1 || need_funding_first {
        let b = make_block(&chain.tip().0, chain.height() + 1, 1, vec![funding_tx.clone()]);
        if !ch.w.connect(&mut chain, b, Delivery::Compact).is_ok() {
            r.skipped = true;
            r.class = "funding-block-failed".into();
            return r;
        }
    }
    if need_funding_first {
        // the other side moves ahead with a plain content while the funding is confirmed
        let plain = balanced(&e.v, if e.v.outbound { e.v.value.saturating_sub(1_000_000) } else { 1_000_000 }, vec![], vec![], 1000);
        let adv = if case.entry == Entry::SignCp { ch.holder_to_one(&plain) } else { ch.cp_to_one(&plain) };
        if let Err(x) = adv {
            r.skipped = true;
            r.class = format!("other-side-advance-failed:{}", x.chars().take(40).collect::<String>());
            return r;
        }
        if e.chain == 0 {
            // ... and the funding block is reorganised away again
            if !ch.w.disconnect(&mut chain, Delivery::Compact).is_ok() {
                r.skipped = true;
                r.class = "funding-reorg-failed".into();
                return r;
            }
        }
    }
    if e.chain >= 2 {
        let spend = simple_tx(vec![ch.setup.funding_outpoint], vec![(e.v.value.saturating_sub(1000).max(1000), foreign_script(9))], 0);
        let b = make_block(&chain.tip().0, chain.height() + 1, 2, vec![spend]);
        if !ch.w.connect(&mut chain, b, Delivery::Compact).is_ok() {
            r.skipped = true;
            r.class = "closing-block-failed".into();
            return r;
        }
    }
    // the harness's facts must agree with what the monitor derived (self-check of the oracle's inputs)
    if let Some(cs) = ch.w.peek_chan(DBID, |c| c.monitor.as_chain_state()) {
        if cs.current_height != e.facts.height || cs.funding_depth != e.facts.funding_depth || cs.closing_depth != e.facts.closing_depth {
            // The facts are those of the blocks the harness delivered (funding confirmed / spent,
            // heights); a monitor that derived something else is not a reason to look away: the
            // case goes on and is judged by the delivered chain.
            r.facts_mismatch = true;
        }
    }
    if ch.approve_out(&e.c).is_err() {
        r.skipped = true;
        r.class = "keysend-failed".into();
        return r;
    }
    let c = e.c.clone();
    let n = e.n;
    if case.retry {
        // the number under test is first used with the base's own contents; a set-up that cannot
        // carry them (deviating channel value ...) is not a retry case
        let c0 = effective(&Case { devs: vec![], ..case.clone() }).c;
        if ch.approve_out(&c0).is_err() {
            r.skipped = true;
            r.class = "keysend-failed".into();
            return r;
        }
        r.calls += 1;
        let first: Outcome<()> = match case.entry {
            Entry::SignCp => {
                let point = ch.cp.point(n);
                ch.w.with_chan(DBID, |chn| chn.sign_counterparty_commitment_tx_phase2(&point, n, c0.feerate, c0.to_holder, c0.to_cp, c0.inc_info(), c0.out_info()).map(|_| ()))
            }
            _ => {
                let params = ch.params.clone();
                let cpk = ch.cp.clone();
                let cc = c0.clone();
                match ch.w.holder_point_raw(DBID, n).and_then(|p| catch(move || params.cp_sign_holder_commitment(&cpk, n, &p, &cc)).ok()) {
                    Some((sig, hs)) => ch.w.with_chan(DBID, |chn| chn.validate_holder_commitment_tx_phase2(n, c0.feerate, c0.to_holder, c0.to_cp, c0.out_info(), c0.inc_info(), &sig, &hs).map(|_| ())),
                    None => Outcome::Err("request-not-constructible".into()),
                }
            }
        };
        if !first.is_ok() {
            r.skipped = true;
            r.class = "first-use-of-the-number-refused".into();
            return r;
        }
    }
    r.calls += 1;
    let before = if crate::monitors::grid_monitors() { Some(ch.w.snapshot()) } else { None };
    let o: Outcome<()> = match case.entry {
        Entry::SignCp => {
            let point = ch.cp.point(n);
            ch.w.with_chan(DBID, |chn| chn.sign_counterparty_commitment_tx_phase2(&point, n, c.feerate, c.to_holder, c.to_cp, c.inc_info(), c.out_info()).map(|_| ()))
        }
        _ => {
            let p = match ch.w.holder_point_raw(DBID, n) {
                Some(p) => p,
                None => {
                    r.skipped = true;
                    return r;
                }
            };
            // counterparty signatures over the harness-built holder commitment; the builder may
            // reject absurd values by panicking, in which case this request cannot be formed
            let params = ch.params.clone();
            let cpk = ch.cp.clone();
            let cc = c.clone();
            let sigs = catch(move || params.cp_sign_holder_commitment(&cpk, n, &p, &cc));
            match sigs {
                Ok((sig, hs)) => ch.w.with_chan(DBID, |chn| chn.validate_holder_commitment_tx_phase2(n, c.feerate, c.to_holder, c.to_cp, c.out_info(), c.inc_info(), &sig, &hs).map(|_| ())),
                Err(_) => {
                    r.skipped = true;
                    r.class = "request-not-constructible".into();
                    return r;
                }
            }
        }
    };
    crate::monitors::around(&ch.w, &before, &o, if case.entry == Entry::SignCp { "sign_counterparty_commitment_tx_phase2" } else { "validate_holder_commitment_tx_phase2" }, &mut r.mon);
    match o {
        Outcome::Ok(_) => {
            r.accepted = true;
            r.class = if after_refusal.is_empty() { "accepted".into() } else { format!("accepted-on-channel-{}", after_refusal) };
        }
        Outcome::Err(x) => {
            r.refused = true;
            r.class = format!("refused:{}", x);
        }
        Outcome::Panic(p) => {
            r.panic = true;
            r.class = format!("panic:{}", p.chars().take(60).collect::<String>());
        }
    }
    finish(case, &e, r)
}

fn finish(case: &Case, e: &Eff, mut r: Res) -> Res {
    if r.accepted && !r.ref_ok {
        let kinds: Vec<String> = case.devs.iter().map(dev_kind).collect();
        r.vio = Some((
            format!("C05:{:?}:accepted-outside-bound:{}", case.entry, r.ref_why),
            format!("{:?} {} although {} (policy {}, onchain {}, use_chain_state {}, deviations {:?} [{}], effective setup {:?} type {} n {} content {:?} chain {:?})", case.entry, r.class, r.ref_why, case.pol, case.onchain, case.ucs, case.devs, kinds.join("+"), e.v, e.ctype, e.n, e.c, e.facts),
        ));
    }
    r
}

fn alphabet(case: &Case) -> Vec<Dev> {
    let p = policy(case.pol, case.ucs);
    let mut v = vec![];
    let f = chain_facts(case.chain);
    for t in 0..4u8 {
        if t != case.ctype {
            v.push(Dev::CType(t));
        }
    }
    for d in [0, p.min_delay.saturating_sub(1), p.min_delay, p.max_delay, p.max_delay.saturating_add(1), u16::MAX] {
        v.push(Dev::HDelay(d));
        v.push(Dev::CDelay(d));
    }
    if case.entry == Entry::Setup {
        v.push(Dev::Value(p.max_channel_size_sat.saturating_add(1)));
        return v;
    }
    for x in [p.max_channel_size_sat.saturating_sub(1), p.max_channel_size_sat, p.max_channel_size_sat.saturating_add(1), 1 << 32, 1 << 40] {
        if x > 2_000_000 && x != case.v.value {
            v.push(Dev::Value(x));
        }
    }
    for x in [1_000u64, 1_000_000, case.v.value.saturating_mul(1000), case.v.value.saturating_mul(1000).saturating_add(1000)] {
        if x != case.v.push_msat {
            v.push(Dev::Push(x));
        }
    }
    for x in [0, p.min_feerate_per_kw - 1, p.min_feerate_per_kw, p.max_feerate_per_kw, p.max_feerate_per_kw + 1, u32::MAX] {
        v.push(Dev::Feerate(x));
    }
    // raw balances: dust edges, fee edges, extremes
    let n_htlc = case.c.out.len() + case.c.inc.len();
    let w = commitment_weight(case.v.anchors, n_htlc);
    let htlc_sum: u64 = case.c.out.iter().chain(case.c.inc.iter()).map(|h| h.value_sat).sum();
    let fee_at = |rate: u64| rate * w / 1000;
    for x in [0u64, 1, 353, 354, 355, u64::MAX, 1 << 63, u64::MAX / 1000 + 1] {
        if x != case.c.to_holder {
            v.push(Dev::ToHolder(x));
        }
        if x != case.c.to_cp {
            v.push(Dev::ToCp(x));
        }
    }
    let mut bal = vec![];
    for rate in [p.min_feerate_per_kw as u64 - 1, p.min_feerate_per_kw as u64, p.max_feerate_per_kw as u64, p.max_feerate_per_kw as u64 + 1, p.max_feerate_per_kw as u64 + 2] {
        // sum of the two balances that makes the implied fee hit this rate (and one sat either side)
        for delta in [0i64, 1, -1] {
            let fee = (fee_at(rate) as i64 + delta).max(0) as u64;
            bal.push(case.v.value.saturating_sub(htlc_sum).saturating_sub(fee));
        }
    }
    // 32-bit wrap candidates of the implied rate: rates that are in range modulo 2^32
    for k in [1u64, 2] {
        for r in [0, 1, p.min_feerate_per_kw as u64 + 10, p.max_feerate_per_kw as u64 - 10] {
            let fee = ((k << 32) + r) * w / 1000;
            bal.push(case.v.value.saturating_sub(htlc_sum).saturating_sub(fee));
        }
    }
    // 64-bit wrap candidates of fee * 1000
    for k in [1u128, 2] {
        for r in [0u128, (p.min_feerate_per_kw as u128 + 10) * w as u128 / 1000] {
            let fee = ((k << 64) / 1000 + 1 + r).min(u64::MAX as u128) as u64;
            bal.push(case.v.value.saturating_sub(htlc_sum).saturating_sub(fee));
        }
    }
    bal.sort();
    bal.dedup();
    for x in &bal {
        // applied to the funder's output, the other output unchanged
        if case.v.outbound {
            let y = x.saturating_sub(case.c.to_cp);
            if y != case.c.to_holder {
                v.push(Dev::ToHolder(y));
            }
        } else {
            let y = x.saturating_sub(case.c.to_holder);
            if y != case.c.to_cp {
                v.push(Dev::ToCp(y));
            }
        }
    }
    // HTLCs
    let cltv_ok = f.height + p.min_delay as u32 + 1;
    let (tw, sw) = if case.v.anchors { (666u64, 706u64) } else { (663, 703) };
    let zero_fee = case.ctype == 3;
    let lim = |wgt: u64| if zero_fee { 354 } else { 330 + case.c.feerate as u64 * wgt / 1000 };
    let mut vals = vec![];
    for l in [lim(tw), lim(sw)] {
        vals.extend(around(l));
    }
    vals.extend([329, 330, 331, 20_000]);
    let room = p.max_htlc_value_sat.saturating_sub(htlc_sum);
    vals.extend(around(room));
    vals.push(1 << 63);
    vals.push(u64::MAX);
    vals.sort();
    vals.dedup();
    for x in &vals {
        if *x == 0 {
            continue;
        }
        v.push(Dev::AddOut(*x, cltv_ok, 1));
        v.push(Dev::AddInc(*x, cltv_ok, 1));
    }
    // two HTLCs whose values wrap around 2^64
    v.push(Dev::AddOut((1 << 63) + 10_000, cltv_ok, 2));
    v.push(Dev::AddInc((1 << 63) + 10_000, cltv_ok, 2));
    // counts around the limit (only for a small limit: a thousand signatures per case is too slow)
    if p.max_htlcs <= 8 {
        for k in [p.max_htlcs.saturating_sub(n_htlc), p.max_htlcs + 1 - n_htlc.min(p.max_htlcs)] {
            if k > 0 {
                v.push(Dev::AddOut(2_000, cltv_ok, k));
                v.push(Dev::AddInc(2_000, cltv_ok, k));
            }
        }
    }
    if n_htlc > 0 {
        // the in-flight total at its cap with the value spread over both directions
        for x in around(room) {
            if x > 0 {
                v.push(Dev::RaiseOut(x));
                v.push(Dev::RaiseInc(x));
            }
        }
        for l in [lim(tw), lim(sw)] {
            for x in around(l) {
                v.push(Dev::HtlcValue(x));
            }
        }
        v.push(Dev::HtlcValue(0));
        v.push(Dev::HtlcValue(u64::MAX));
        let h = f.height;
        for x in [0, 1, h + p.min_delay as u32 - 1, h + p.min_delay as u32, h + p.max_delay as u32, h + p.max_delay as u32 + 1, 499_999_999, 500_000_000, u32::MAX] {
            v.push(Dev::HtlcCltv(x));
        }
    }
    for x in 0..3u8 {
        if x != case.chain {
            v.push(Dev::Chain(x));
        }
    }
    v.push(Dev::N(1 - case.n.min(1)));
    v
}

fn bases(tier: Tier) -> Vec<Case> {
    let mut v = vec![];
    for pol in 0..5u8 {
        for onchain in [false, true] {
            if pol >= 3 && onchain {
                continue;
            }
            for ucs in [false, true] {
                if (pol == 3 && ucs && tier == Tier::Quick) || (pol == 4 && ucs) {
                    continue;
                }
                for anchors in [false, true] {
                    for outbound in [true, false] {
                        if tier == Tier::Quick && pol == 2 && (onchain || !outbound) {
                            continue;
                        }
                        let mut sv = SetupV::basic(anchors, outbound);
                        if pol == 2 {
                            // a 50 BTC channel: implied-rate arithmetic near 2^32; with anchors
                            // an absurd 2^62 sat channel: fee * 1000 near 2^64
                            sv.value = if anchors { 1 << 62 } else { 5_000_000_000 };
                            if !outbound {
                                sv.push_msat = 1_000_000_000;
                            }
                        }
                        let ctype = if anchors { 3 } else { 1 };
                        let chain = if onchain { 1 } else { 0 };
                        let f = chain_facts(chain);
                        let cltv = f.height + 6;
                        v.push(Case { pol, onchain, ucs, chain, v: sv.clone(), ctype, entry: Entry::Setup, n: 0, c: balanced(&sv, initial_holder_total(&sv), vec![], vec![], 1000), other_ahead: false, fvout: 0, retry: false, devs: vec![] });
                        for entry in [Entry::SignCp, Entry::Validate] {
                            // initial commitment
                            v.push(Case { pol, onchain, ucs, chain, v: sv.clone(), ctype, entry, n: 0, c: balanced(&sv, initial_holder_total(&sv), vec![], vec![], 1000), other_ahead: false, fvout: 0, retry: false, devs: vec![] });
                            // a later commitment with one offered and one received HTLC
                            let ht = if outbound { sv.value - 1_000_000 } else { 1_000_000 };
                            let c1 = balanced(&sv, ht, vec![H { value_sat: 20_000, hash: 2, cltv }], vec![H { value_sat: 25_000, hash: 1, cltv: cltv + 1 }], 1000);
                            v.push(Case { pol, onchain, ucs, chain, v: sv.clone(), ctype, entry, n: 1, c: c1.clone(), other_ahead: false, fvout: 0, retry: false, devs: vec![] });
                            if pol != 2 {
                                v.push(Case { pol, onchain, ucs, chain, v: sv.clone(), ctype, entry, n: 1, c: c1, other_ahead: true, fvout: 0, retry: false, devs: vec![] });
                            }
                            // and one without HTLCs
                            let c2 = balanced(&sv, ht, vec![], vec![], 1000);
                            v.push(Case { pol, onchain, ucs, chain, v: sv.clone(), ctype, entry, n: 1, c: c2, other_ahead: false, fvout: 0, retry: false, devs: vec![] });
                        }
                    }
                }
            }
        }
    }
    // the channel's output is not always the first of its funding transaction: every base under the
    // on-chain validator (whose verdict depends on what the monitor saw on chain) also with a change
    // output in front of it
    // set-up by the SetupChannel message through the channel handler: the set-up bases and the
    // first-commitment bases of the simple validator (tight and default policy)
    let by_wire: Vec<Case> = v.iter().filter(|c| !c.onchain && !c.ucs && c.pol < 2 && c.n == 0).map(|c| { let mut c = c.clone(); c.v.wire = true; c }).collect();
    v.extend(by_wire);
    // under the policy that demotes the non-bound commitment rules, every commitment base also as
    // a retry of its own number (the deviations then change the contents of the retry)
    let retries: Vec<Case> = v.iter().filter(|c| c.pol == 4 && c.entry != Entry::Setup && !c.other_ahead).map(|c| { let mut c = c.clone(); c.retry = true; c }).collect();
    v.extend(retries);
    let with_change: Vec<Case> = v.iter().filter(|c| c.onchain && c.entry != Entry::Setup && c.n == 1).map(|c| { let mut c = c.clone(); c.fvout = 1; c }).collect();
    v.extend(with_change);
    v
}

/// the quick-tier cases with the C10 / C11 monitors around every request
pub fn monitored(wall_s: f64) -> (u64, Vec<(crate::vmc::Vio, Value)>) {
    let t0 = std::time::Instant::now();
    let bs = bases(Tier::Quick);
    let mut cases = bs.clone();
    for b in &bs {
        for d in alphabet(b) {
            let mut c = b.clone();
            c.devs = vec![d];
            cases.push(c);
        }
    }
    let mut out = vec![];
    let mut n = 0u64;
    for chunk in cases.chunks(2048) {
        if t0.elapsed().as_secs_f64() > wall_s {
            break;
        }
        let rs = par_map(chunk, nthreads(), |c| run_case(c));
        for (c, r) in chunk.iter().zip(rs.into_iter()) {
            n += r.calls;
            for v in r.mon {
                out.push((v, json!({"engine": "c05", "case": c})));
            }
        }
    }
    (n, out)
}

pub fn main(tier: Tier) -> i32 {
    let profile = std::env::var("VERIF_PROFILE").unwrap_or_else(|_| "checked".to_string());
    let mut run = Run::new("C05", tier, "model_checking", "txgrid-c05");
    if profile != "checked" {
        run.evidence_name = Some(format!("C05-{}.json", profile));
    }
    let t0 = std::time::Instant::now();
    let bs = bases(tier);
    let rs = par_map(&bs, nthreads(), |c| run_case(c));
    let mut ok_bases = vec![];
    let mut refused_bases = vec![];
    for (b, r) in bs.iter().zip(rs.iter()) {
        if r.accepted {
            if let Some((k, w)) = &r.vio {
                run.violation(k, w, json!({"engine": "c05", "case": b}));
            }
            ok_bases.push(b.clone());
        } else {
            refused_bases.push(format!("{:?}/{}/{}/{}/{:?}/n{}: {}", b.entry, b.pol, b.onchain, b.ucs, b.v.anchors, b.n, r.class));
        }
    }
    if ok_bases.len() * 10 < bs.len() * 9 {
        run.vacuous(&format!("only {} of {} base cases were accepted; e.g. {:?}", ok_bases.len(), bs.len(), refused_bases.iter().take(5).collect::<Vec<_>>()));
    }
    let d = tier.pick(1, 2);
    let mut cases = vec![];
    for b in &ok_bases {
        let a = alphabet(b);
        // pairs (thorough) only on the tight policy, where every bound is close to the base
        let dd = if d == 2 && b.pol == 1 { 2 } else { 1 };
        for s in dev_sets(a.len(), dd) {
            if s.is_empty() {
                continue;
            }
            if s.len() == 2 && dev_kind(&a[s[0]]) == dev_kind(&a[s[1]]) {
                continue;
            }
            let mut c = b.clone();
            c.devs = s.iter().map(|i| a[*i].clone()).collect();
            cases.push(c);
        }
    }
    let budget = tier.pick(45.0, 1500.0);
    let (mut evals, mut calls, mut acc, mut refu, mut panics, mut skipped, mut acc_nonbase, mut ref_rejects) = (bs.len() as u64, 0u64, 0u64, 0u64, 0u64, 0u64, 0u64, 0u64);
    let mut facts_mismatches = 0u64;
    let mut classes: BTreeSet<String> = BTreeSet::new();
    let mut skip_classes: BTreeSet<String> = BTreeSet::new();
    let mut complete = true;
    let mut done = 0usize;
    let mut samples: Vec<Value> = vec![];
    for chunk in cases.chunks(4096) {
        if t0.elapsed().as_secs_f64() > budget {
            complete = false;
            break;
        }
        let rs = par_map(chunk, nthreads(), |c| run_case(c));
        for (c, r) in chunk.iter().zip(rs.iter()) {
            done += 1;
            if r.skipped {
                skipped += 1;
                skip_classes.insert(r.class.split(':').next().unwrap().to_string());
                continue;
            }
            evals += 1;
            calls += r.calls;
            if r.facts_mismatch {
                facts_mismatches += 1;
            }
            if r.accepted {
                acc += 1;
                acc_nonbase += 1;
                if samples.len() < 3 {
                    samples.push(json!({"accepted_deviation": c}));
                }
            }
            if r.refused {
                refu += 1;
            }
            if r.panic {
                panics += 1;
            }
            if !r.ref_ok {
                ref_rejects += 1;
            }
            let kinds: Vec<String> = c.devs.iter().map(dev_kind).collect();
            classes.insert(format!("{:?}|{}|{}|{}|{}|{}", c.entry, c.pol, c.n, kinds.join("+"), r.class, r.ref_why));
            if let Some((k, w)) = &r.vio {
                run.violation(k, w, json!({"engine": "c05", "case": c}));
            }
        }
    }
    if samples.is_empty() {
        samples.push(json!({"base": ok_bases.first()}));
    }
    run.assume(&format!("arithmetic profile: {} (checked = overflow-checks on, wrap = production arithmetic)", profile));
    run.assume("reference predicate in u128 from the statement: dust 354 on balances, trim limit 330 + feerate x HTLC-tx weight / 1000 (354 for zero-fee HTLC), count, in-flight sum, expiry < 500000000 and within [height+min_delay, height+max_delay] when chain state is used, implied fee rate within [min,max] with rounding in the accepting direction, initial-commitment rules, safe type, delays, channel size (counterparty commitments), funding depth >= 1 and no close seen for n > 0 with the on-chain validator");
    run.assume("the claimed feerate_per_kw is constrained only through the trim limit (the code checks the implied rate, and so does the reference)");
    let cov = json!({
        "states": evals,
        "transitions": calls,
        "traces_validated_against_impl": evals,
        "evaluations": evals,
        "distinct_nontrivial": classes.len(),
        "exhaustive": complete,
        "bases": bs.len(),
        "bases_accepted": ok_bases.len(),
        "bases_refused": refused_bases,
        "cases_generated": cases.len(),
        "cases_run": done,
        "not_constructible": skipped,
        "monitor_chain_state_differs_from_delivered_chain": facts_mismatches,
        "not_constructible_kinds": skip_classes,
        "accepted": acc,
        "accepted_deviating_cases": acc_nonbase,
        "refused": refu,
        "panics": panics,
        "reference_rejects": ref_rejects,
        "deviation_bound": d,
        "profile": profile,
        "samples": samples,
        "rule": "bases x every set of <= d deviations (one boundary value of one field each); non-trivial/distinct = (entry, policy, n, deviation kinds, outcome class, first broken bound of the reference)",
    });
    run.finish(cov)
}

pub fn replay(v: &Value) {
    let c: Case = serde_json::from_value(v["replay"]["case"].clone()).unwrap_or_else(|e| machinery_failure(&format!("{}", e)));
    for round in 0..2 {
        let r = run_case(&c);
        println!("round {}: {:?}", round, r);
    }
}
