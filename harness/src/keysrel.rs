//! C18: channel keys are a stable function of seed, network, style and channel id.
//!
//! Exhaustive over: seeds x styles x networks x every ordered arrangement of every non-empty
//! subset of channel ids {1,2,3} x restart position x which channels are set up.  Relational
//! oracle: all observations for the same (seed, style, network, id) are identical in every run;
//! different ids give pairwise different keys; secrets equal an independent BOLT-3 generation.

use crate::ev::*;
use crate::lsync::Arc;
use crate::secretstore::{tree_secret, TOP};
use crate::world::*;
use lightning_signer::bitcoin::bip32::DerivationPath;
use lightning_signer::bitcoin::secp256k1::PublicKey;
use lightning_signer::bitcoin::Network;
use lightning_signer::channel::{ChannelId, ChannelSlot, CommitmentType};
use lightning_signer::lightning::sign::ChannelSigner;
use lightning_signer::node::{Node, NodeConfig, NodeServices};
use lightning_signer::persist::Persist;
use lightning_signer::policy::simple_validator::SimpleValidatorFactory;
use lightning_signer::policy::validator::CounterpartyCommitmentSecrets;
use lightning_signer::signer::derive::KeyDerivationStyle;
use lightning_signer::util::clock::ManualClock;
use lightning_signer::util::test_utils::FixedStartingTimeFactory;
use lightning_signer::util::INITIAL_COMMITMENT_NUMBER;
use serde_json::{json, Value};
use std::collections::{BTreeMap, BTreeSet};
use std::time::Duration;
use vls_persist::kvv::memory::MemoryKVVStore;
use vls_persist::kvv::{JsonFormat, KVVPersister};

struct KNode {
    node: Arc<Node>,
    persister: Arc<MemPersister>,
    seed: [u8; 32],
}

fn services(persister: Arc<MemPersister>) -> NodeServices {
    NodeServices {
        validator_factory: Arc::new(SimpleValidatorFactory::new()),
        starting_time_factory: FixedStartingTimeFactory::new(START_TIME, 0),
        persister: persister as Arc<dyn Persist>,
        clock: Arc::new(ManualClock::new(Duration::from_secs(START_TIME))),
        trusted_oracle_pubkeys: vec![],
    }
}

fn new_node(seed: [u8; 32], style: KeyDerivationStyle, network: Network) -> KNode {
    let persister: Arc<MemPersister> = Arc::new(KVVPersister(HStore::new(false), JsonFormat));
    let mut config = NodeConfig::new(network);
    config.key_derivation_style = style;
    let node = Arc::new(Node::new(config, &seed, vec![], services(persister.clone())));
    node.add_allowlist(&[]).unwrap();
    persister.new_node(&node.get_id(), &config, &*node.get_state()).unwrap();
    persister.new_tracker(&node.get_id(), &node.get_tracker()).unwrap();
    KNode { node, persister, seed }
}

fn restart(k: KNode) -> KNode {
    let d = dump_persister(&k.persister);
    let seed = k.seed;
    drop(k);
    let persister = persister_from_dump(&d);
    let nodes = persister.get_nodes().unwrap();
    let (id, entry) = nodes.into_iter().next().unwrap();
    let node = Node::restore_node(&id, entry, &seed, services(persister.clone())).unwrap();
    KNode { node, persister, seed }
}

/// The three channel "ids" of the enumeration: 1 and 2 are dbids 1 and 2 of peer A; 3 is dbid 1
/// of **peer B**, so that two channels that differ only in the peer must get different keys.
fn peer_and_oid(d: u64) -> ([u8; 33], u64) {
    if d == 3 {
        (PublicKey::from_secret_key(&secp(), &sk(210)).serialize(), 1)
    } else {
        (PublicKey::from_secret_key(&secp(), &sk(200)).serialize(), d)
    }
}

fn chan_id(dbid: u64) -> ChannelId {
    let (peer, oid) = peer_and_oid(dbid);
    ChannelId::new_from_peer_id_and_oid(&peer, oid)
}

/// everything observable about the keys of channel `dbid`
fn observe(k: &KNode, dbid: u64) -> Option<Value> {
    let slot = k.node.get_channel(&chan_id(dbid)).ok()?;
    let g = slot.lock().unwrap();
    let (keys, ready) = match &*g {
        ChannelSlot::Ready(c) => (&c.keys, true),
        ChannelSlot::Stub(s) => (&s.keys, false),
    };
    let pk = keys.pubkeys().clone();
    let secrets: Vec<String> = (0..16u64).map(|n| hex::encode(keys.release_commitment_secret(INITIAL_COMMITMENT_NUMBER - n).unwrap())).collect();
    let points: Vec<String> = (0..4u64).map(|n| keys.get_per_commitment_point(INITIAL_COMMITMENT_NUMBER - n, &secp()).unwrap().to_string()).collect();
    // through the policy path as well (commitments 0 and 1 are always available)
    drop(g);
    let pol: Vec<String> = (0..2u64)
        .map(|n| k.node.with_channel_base(&chan_id(dbid), |b| b.get_per_commitment_point(n)).map(|p| p.to_string()).unwrap_or_else(|_| "err".into()))
        .collect();
    let _ = ready;
    Some(json!({
        "funding": pk.funding_pubkey.to_string(),
        "revocation": pk.revocation_basepoint.0.to_string(),
        "payment": pk.payment_point.to_string(),
        "delayed": pk.delayed_payment_basepoint.0.to_string(),
        "htlc": pk.htlc_basepoint.0.to_string(),
        "secrets": secrets,
        "points": points,
        "points_via_api": pol,
    }))
}

fn commitment_seed(k: &KNode, dbid: u64) -> Option<[u8; 32]> {
    let slot = k.node.get_channel(&chan_id(dbid)).ok()?;
    let g = slot.lock().unwrap();
    Some(match &*g {
        ChannelSlot::Ready(c) => c.keys.commitment_seed,
        ChannelSlot::Stub(s) => s.keys.commitment_seed,
    })
}

fn setup(k: &KNode, dbid: u64, permanent_id: bool) -> bool {
    let cp = Cp::new(100);
    let setup = lightning_signer::channel::ChannelSetup {
        is_outbound: true,
        channel_value_sat: CHANNEL_VALUE + dbid * 1000,
        push_value_msat: 0,
        funding_outpoint: lightning_signer::bitcoin::OutPoint {
            txid: {
                use lightning_signer::bitcoin::hashes::Hash;
                lightning_signer::bitcoin::Txid::from_slice(&[dbid as u8 + 0x20; 32]).unwrap()
            },
            vout: 0,
        },
        holder_selected_contest_delay: 6,
        holder_shutdown_script: None,
        counterparty_points: cp.pubkeys(),
        counterparty_selected_contest_delay: 7,
        counterparty_shutdown_script: None,
        commitment_type: CommitmentType::StaticRemoteKey,
    };
    // the LDK flow gives the channel a permanent id that differs from the original one
    let perm = if permanent_id { Some(ChannelId::new(&[0xc0 + dbid as u8; 32])) } else { None };
    k.node.setup_channel(chan_id(dbid), perm, setup, &DerivationPath::master()).is_ok()
}

fn arrangements() -> Vec<Vec<u64>> {
    let ids = [1u64, 2, 3];
    let mut out = vec![];
    fn perm(cur: &mut Vec<u64>, rest: &[u64], out: &mut Vec<Vec<u64>>) {
        if !cur.is_empty() {
            out.push(cur.clone());
        }
        for (i, x) in rest.iter().enumerate() {
            let mut r = rest.to_vec();
            r.remove(i);
            cur.push(*x);
            perm(cur, &r, out);
            cur.pop();
        }
    }
    perm(&mut vec![], &ids, &mut out);
    out
}

pub fn main(tier: Tier) -> i32 {
    let mut run = Run::new("C18", tier, "model_checking", "keysrel");
    let seeds: Vec<[u8; 32]> = vec![[0x42; 32], [0x17; 32]];
    let styles = [(KeyDerivationStyle::Native, "native"), (KeyDerivationStyle::Ldk, "ldk")];
    let networks: Vec<Network> = tier.pick(vec![Network::Regtest], vec![Network::Regtest, Network::Testnet]);
    let arrs = arrangements();
    let mut evaluations = 0u64;
    let mut observations = 0u64;
    let mut samples = vec![];
    let mut distinct: BTreeSet<String> = BTreeSet::new();
    // canonical observation per (seed, style, network, id)
    let mut canon: BTreeMap<(usize, &str, String, u64), Value> = BTreeMap::new();
    for (si, seed) in seeds.iter().enumerate() {
        for (style, sname) in styles.iter() {
            for net in networks.iter() {
                for arr in arrs.iter() {
                    let n = arr.len();
                    // restart position r in 0..=n (r == n+1 means no restart), setup mask over arr
                    for r in 0..=(n + 1) {
                        for mask2 in 0..(2u32 << n) {
                            // the top bit says whether set-up channels get a permanent id
                            let (mask, perm) = (mask2 & ((1u32 << n) - 1), mask2 >> n != 0);
                            if perm && mask == 0 {
                                continue;
                            }
                            if tier == Tier::Quick && n == 3 && (mask != 0 && mask != 0b111 && mask != 0b010) {
                                continue;
                            }
                            evaluations += 1;
                            let res = catch(|| {
                                let mut k = new_node(*seed, *style, *net);
                                let mut obs: Vec<(u64, &'static str, Value)> = vec![];
                                for (i, &d) in arr.iter().enumerate() {
                                    if r == i {
                                        k = restart(k);
                                    }
                                    let (peer, oid) = peer_and_oid(d);
                                    if k.node.new_channel(oid, &peer, &k.node).is_err() {
                                        return Err(format!("new_channel({}) failed", d));
                                    }
                                    if let Some(o) = observe(&k, d) {
                                        obs.push((d, "stub", o));
                                    }
                                    if mask & (1 << i) != 0 {
                                        if !setup(&k, d, perm) {
                                            return Err(format!("setup_channel({}) failed", d));
                                        }
                                        if let Some(o) = observe(&k, d) {
                                            obs.push((d, "ready", o));
                                        }
                                    }
                                }
                                if r == n {
                                    k = restart(k);
                                }
                                // final observation of everything, after all other channels exist
                                for &d in arr.iter() {
                                    match observe(&k, d) {
                                        Some(o) => obs.push((d, "final", o)),
                                        None => return Err(format!("channel-not-created: channel {} was asked for and does not exist at the end", d)),
                                    }
                                }
                                let seeds_c: Vec<(u64, [u8; 32])> = arr.iter().map(|&d| (d, commitment_seed(&k, d).unwrap())).collect();
                                Ok((obs, seeds_c))
                            });
                            let desc = json!({"seed": si, "style": sname, "network": net.to_string(), "order": arr, "restart_before_index": r, "setup_mask": mask, "permanent_ids": perm});
                            let (obs, seeds_c) = match res {
                                Ok(Ok(x)) => x,
                                Ok(Err(e)) => {
                                    // a channel that was asked for and is not there got no keys
                                    // of its own: a violation; anything else is the harness's
                                    let key = if e.starts_with("channel-not-created") { "C18:channel-not-created" } else { "C18:machinery" };
                                    run.violation(key, &e, desc.clone());
                                    continue;
                                }
                                Err(p) => {
                                    run.violation("C18:panic", &format!("panicked: {} at {}", p, last_panic_loc()), desc.clone());
                                    continue;
                                }
                            };
                            if samples.len() < 3 && n == 2 && mask == 1 {
                                samples.push(desc.clone());
                            }
                            // (1) stability
                            for (d, phase, o) in obs.iter() {
                                observations += 1;
                                let key = (si, *sname, net.to_string(), *d);
                                match canon.get(&key) {
                                    None => {
                                        canon.insert(key, o.clone());
                                    }
                                    Some(c) => {
                                        if let Some(diff) = json_diff(c, o) {
                                            let field = diff.split(':').next().unwrap_or("").split('/').next().unwrap_or("").to_string();
                                            run.violation(
                                                &format!("C18:keys-depend-on-history:{}:{}:{}", sname, phase, field),
                                                &format!("channel {} observed {} in this run differs from another run with the same seed/style/network/id: {}", d, phase, diff),
                                                desc.clone(),
                                            );
                                        }
                                    }
                                }
                                distinct.insert(fp(o));
                            }
                            // (3) BOLT-3 tree from the channel's commitment seed (independent derivation)
                            for (d, cseed) in seeds_c.iter() {
                                let o = obs.iter().rev().find(|(dd, _, _)| dd == d).unwrap();
                                let mut store = CounterpartyCommitmentSecrets::new();
                                for nn in 0..16u64 {
                                    let want = hex::encode(tree_secret(*cseed, TOP - nn));
                                    let got = o.2["secrets"][nn as usize].as_str().unwrap_or("").to_string();
                                    if want != got {
                                        run.violation(
                                            &format!("C18:secret-not-bolt3:{}", sname),
                                            &format!("secret {} of channel {} is not generate_from_seed(commitment_seed, 2^48-1-{})", nn, d, nn),
                                            desc.clone(),
                                        );
                                        break;
                                    }
                                    let mut b = [0u8; 32];
                                    b.copy_from_slice(&hex::decode(&got).unwrap());
                                    if store.provide_secret(TOP - nn, b).is_err() {
                                        run.violation(
                                            &format!("C18:secrets-not-compactly-storable:{}", sname),
                                            &format!("secret {} of channel {} is refused by the compact store after its predecessors", nn, d),
                                            desc.clone(),
                                        );
                                        break;
                                    }
                                }
                            }
                        }
                    }
                }
                // (2) distinctness across ids (and across seeds / styles via the canon map below)
            }
        }
    }
    // (3b) wide node-assigned ids: the id is 64 bits, and channels of one peer whose ids agree in
    // the low (or high) half are different channels.  Ids 2^32+1, 2^63+1 and 2^64-2 next to id 1,
    // created in both orders; the observations join the canonical map, so that the stability and
    // the pairwise-distinctness checks cover them.
    let wide: Vec<u64> = vec![(1u64 << 32) + 1, (1u64 << 63) + 1, u64::MAX - 1];
    for (si, seed) in seeds.iter().enumerate() {
        for (style, sname) in styles.iter() {
            for rev in [false, true] {
                evaluations += 1;
                let mut order = vec![1u64];
                order.extend(wide.iter().cloned());
                if rev {
                    order.reverse();
                }
                let desc = json!({"part": "wide-ids", "seed": si, "style": sname, "order": order.iter().map(|d| d.to_string()).collect::<Vec<_>>()});
                let ord = order.clone();
                let res = catch(|| {
                    let k = new_node(*seed, *style, Network::Regtest);
                    for &d in ord.iter() {
                        let (peer, oid) = peer_and_oid(d);
                        if k.node.new_channel(oid, &peer, &k.node).is_err() {
                            return Err(format!("channel-not-created: new_channel({}) failed", d));
                        }
                    }
                    let mut obs = vec![];
                    for &d in ord.iter() {
                        match observe(&k, d) {
                            Some(o) => obs.push((d, o)),
                            None => return Err(format!("channel-not-created: channel {} was asked for and does not exist at the end", d)),
                        }
                    }
                    if k.node.get_channels().len() != ord.len() {
                        return Err(format!("channel-not-created: {} channels were asked for, {} exist", ord.len(), k.node.get_channels().len()));
                    }
                    Ok(obs)
                });
                match res {
                    Ok(Ok(obs)) => {
                        for (d, o) in obs {
                            observations += 1;
                            let key = (si, *sname, Network::Regtest.to_string(), d);
                            match canon.get(&key) {
                                None => {
                                    canon.insert(key, o.clone());
                                }
                                Some(c) => {
                                    if let Some(diff) = json_diff(c, &o) {
                                        run.violation(&format!("C18:keys-depend-on-history:{}:wide-ids", sname), &format!("channel {} differs between two creation orders: {}", d, diff), desc.clone());
                                    }
                                }
                            }
                            distinct.insert(fp(&o));
                        }
                    }
                    Ok(Err(e)) => {
                        let key = if e.starts_with("channel-not-created") { "C18:channel-not-created" } else { "C18:machinery" };
                        run.violation(key, &e, desc.clone());
                    }
                    Err(p) => run.violation("C18:panic", &format!("panicked: {} at {}", p, last_panic_loc()), desc.clone()),
                }
            }
        }
    }
    // (4) the answers of the request path on an advancing channel: whatever number the holder's
    // counter has reached (and across a restart), a point or secret that is handed out for
    // commitment n is the one of the key material for n -- never a function of the counter
    let mut api_answers = 0u64;
    for (si, seed) in seeds.iter().enumerate() {
        for (style, sname) in styles.iter() {
            for restart_at in [None, Some(3u64)] {
                evaluations += 1;
                let desc = json!({"part": "request-path", "seed": si, "style": sname, "restart_at_counter": restart_at});
                let res = catch(|| {
                    let mut k = new_node(*seed, *style, Network::Regtest);
                    let (peer, oid) = peer_and_oid(1);
                    k.node.new_channel(oid, &peer, &k.node).map_err(|e| format!("new_channel: {:?}", e))?;
                    if !setup(&k, 1, false) {
                        return Err("setup_channel failed".to_string());
                    }
                    let id = chan_id(1);
                    let mut bad: Vec<(String, String)> = vec![];
                    let mut answers = 0u64;
                    for n in 0..6u64 {
                        if restart_at == Some(n) {
                            k = restart(k);
                        }
                        // raw key material
                        let (raw_points, raw_secrets, params) = {
                            let slot = k.node.get_channel(&id).map_err(|_| "channel missing".to_string())?;
                            let g = slot.lock().unwrap();
                            let c = match &*g {
                                ChannelSlot::Ready(c) => c,
                                ChannelSlot::Stub(_) => return Err("channel is a stub".into()),
                            };
                            let pts: Vec<PublicKey> = (0..10u64).map(|m| c.keys.get_per_commitment_point(INITIAL_COMMITMENT_NUMBER - m, &secp()).unwrap()).collect();
                            let secs: Vec<[u8; 32]> = (0..10u64).map(|m| c.keys.release_commitment_secret(INITIAL_COMMITMENT_NUMBER - m).unwrap()).collect();
                            (pts, secs, ChanParams { setup: c.setup.clone(), holder_pubkeys: c.keys.pubkeys().clone() })
                        };
                        // holder commitment n is counter-signed and accepted (n > 0: n-1 is revoked)
                        let cp = Cp::new(100);
                        let content = Content { to_holder: params.setup.channel_value_sat - 2_000, to_cp: 0, feerate: 1000, out: vec![], inc: vec![] };
                        let (sig, hs) = params.cp_sign_holder_commitment(&cp, n, &raw_points[n as usize], &content);
                        let r = k.node.with_channel(&id, |c| {
                            c.validate_holder_commitment_tx_phase2(n, content.feerate, content.to_holder, content.to_cp, content.out_info(), content.inc_info(), &sig, &hs)?;
                            if n == 0 {
                                c.activate_initial_commitment().map(|_| ())
                            } else {
                                c.revoke_previous_holder_commitment(n).map(|_| ())
                            }
                        });
                        if let Err(e) = r {
                            return Err(format!("advance to commitment {} refused: {:?}", n, e));
                        }
                        // every number the request path answers for
                        for m in 0..9u64 {
                            if let Ok(p) = k.node.with_channel_base(&id, |b| b.get_per_commitment_point(m)) {
                                answers += 1;
                                if p != raw_points[m as usize] {
                                    bad.push((format!("C18:request-path:point-depends-on-counter:{}", sname), format!("with holder commitment {} current, get_per_commitment_point({}) is not the point of commitment {}", n, m, m)));
                                }
                            }
                            if let Ok(sec) = k.node.with_channel_base(&id, |b| b.get_per_commitment_secret(m)) {
                                answers += 1;
                                if sec.secret_bytes() != raw_secrets[m as usize] {
                                    bad.push((format!("C18:request-path:secret-depends-on-counter:{}", sname), format!("with holder commitment {} current, get_per_commitment_secret({}) is not the secret of commitment {}", n, m, m)));
                                }
                            }
                            if let Ok(Some(sec)) = k.node.with_channel_base(&id, |b| Ok(b.get_per_commitment_secret_or_none(m))) {
                                answers += 1;
                                if sec.secret_bytes() != raw_secrets[m as usize] {
                                    bad.push((format!("C18:request-path:secret-depends-on-counter:{}", sname), format!("with holder commitment {} current, get_per_commitment_secret_or_none({}) is not the secret of commitment {}", n, m, m)));
                                }
                            }
                        }
                    }
                    Ok((bad, answers))
                });
                match res {
                    Ok(Ok((bad, answers))) => {
                        api_answers += answers;
                        for (k, w) in bad {
                            run.violation(&k, &w, desc.clone());
                        }
                    }
                    Ok(Err(e)) => run.violation("C18:machinery", &e, desc.clone()),
                    Err(p) => run.violation("C18:panic", &format!("panicked: {} at {}", p, last_panic_loc()), desc.clone()),
                }
            }
        }
    }
    if api_answers == 0 {
        run.vacuous("the request path answered no point / secret request on the advancing channel");
    }
    // (5) the same over every request history of the channel state machine (the C01 exploration,
    // protocol versions 4-6): each per-commitment point in a ValidateCommitmentTx[2],
    // RevokeCommitmentTx or GetPerCommitmentPoint[2] reply is the key material's point for the
    // number the reply is about, whatever was retried, refused or revoked before
    let fsm = crate::chanfsm::explore(tier, crate::chanfsm::Side::Holder, false, tier.pick(14.0, 150.0));
    let mut fsm_seen: BTreeSet<String> = BTreeSet::new();
    for f in fsm.found.iter().filter(|f| f.vio.prop == "C18") {
        if fsm_seen.insert(f.vio.key.clone()) {
            run.violation(&f.vio.key, &f.vio.what, f.replay.clone());
        }
    }
    evaluations += fsm.stats.transitions;
    // (2) pairwise distinct keys for different (seed, style, network, id)
    let fields = ["funding", "revocation", "payment", "delayed", "htlc"];
    let entries: Vec<_> = canon.iter().collect();
    for i in 0..entries.len() {
        for j in (i + 1)..entries.len() {
            let (ka, a) = entries[i];
            let (kb, b) = entries[j];
            // network does not have to change channel keys; compare within the same network only
            if ka.2 != kb.2 {
                continue;
            }
            for f in fields.iter() {
                if a[*f] == b[*f] {
                    run.violation(
                        &format!("C18:different-channels-share-key:{}", f),
                        &format!("{:?} and {:?} have the same {} key", ka, kb, f),
                        json!({"a": format!("{:?}", ka), "b": format!("{:?}", kb)}),
                    );
                }
            }
            if a["secrets"][0] == b["secrets"][0] {
                run.violation("C18:different-channels-share-secret", &format!("{:?} and {:?} share commitment secrets", ka, kb), json!({"a": format!("{:?}", ka), "b": format!("{:?}", kb)}));
            }
        }
    }
    run.assume("seeds {0x42.., 0x17..}; styles native and LDK (LND excluded as in the statement); channel ids 1-3 under one peer id; commitment numbers 0-15");
    run.assume("secrets are read from the channel key material (release_commitment_secret), never through the policy path");
    let cov = json!({
        "evaluations": evaluations,
        "states": evaluations,
        "transitions": evaluations,
        "traces_validated_against_impl": evaluations,
        "distinct_nontrivial": distinct.len(),
        "observations": observations,
        "rule": "every ordered arrangement of every non-empty subset of ids x restart position x setup mask (quick: reduced masks for 3 channels) x seed x style x network; non-trivial = distinct key-material observations (distinct channels/seeds/styles actually produced different keys)",
        "samples": samples,
        "exhaustive": true,
        "canonical_entries": canon.len(),
        "request_path_answers_compared": api_answers,
        "channel_state_machine_histories": fsm.models,
    });
    run.finish(cov)
}
