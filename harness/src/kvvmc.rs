//! C16: explicit-state search over the real KVV stores.
//!
//! Part A: MemoryKVVStore and RedbKVVStore in lock-step against a BTreeMap reference.
//!         State = the history reaching it (stores are rebuilt by replay); canonical key =
//!         (reference dump, memory dump, redb dump, redb version-cache answers).
//! Part B: CloudKVVStore<MemoryKVVStore>, protocol-legal sequences enter (op)* prepare commit.

use crate::ev::*;
use lightning_signer::persist::Error as PErr;
use serde_json::{json, Value};
use std::collections::{BTreeMap, HashSet};
use std::sync::atomic::{AtomicU64, Ordering};
use vls_persist::kvv::cloud::{CloudKVVStore, LAST_WRITER_KEY};
use vls_persist::kvv::memory::MemoryKVVStore;
use vls_persist::kvv::redb::RedbKVVStore;
use vls_persist::kvv::{KVVStore, KVV};

type Dump = BTreeMap<String, (u64, Vec<u8>)>;

#[derive(Clone, Debug, PartialEq, Eq, Hash, serde::Serialize, serde::Deserialize)]
pub enum Op {
    Put(String, Vec<u8>),
    PutV(String, u64, Vec<u8>),
    Delete(String),
    Batch(Vec<(String, u64, Vec<u8>)>),
    Reopen,
}

const KEYS: [&str; 2] = ["a", "ab"];
const PREFIXES: [&str; 5] = ["", "a", "ab", "abc", "b"];

fn values() -> Vec<Vec<u8>> {
    vec![b"x".to_vec(), b"y".to_vec(), vec![]]
}

fn alphabet(tier: Tier) -> Vec<Op> {
    let mut ops = vec![];
    for k in KEYS {
        for v in values() {
            ops.push(Op::Put(k.to_string(), v));
        }
    }
    for k in KEYS {
        ops.push(Op::Delete(k.to_string()));
    }
    let vers: Vec<u64> = (0..tier.pick(3, 4)).collect();
    let mut entries = vec![];
    for k in KEYS {
        for &ver in &vers {
            for v in values() {
                ops.push(Op::PutV(k.to_string(), ver, v.clone()));
                entries.push((k.to_string(), ver, v));
            }
        }
    }
    ops.push(Op::Batch(vec![]));
    for e in &entries {
        ops.push(Op::Batch(vec![e.clone()]));
    }
    // batch entries for pairs: quick tier restricts values to {x, y-or-empty} to keep it < 1 min
    let pair_entries: Vec<_> = match tier {
        Tier::Quick => entries.iter().filter(|e| e.2 != b"y".to_vec()).cloned().collect(),
        Tier::Thorough => entries.clone(),
    };
    for e1 in &pair_entries {
        for e2 in &pair_entries {
            ops.push(Op::Batch(vec![e1.clone(), e2.clone()]));
        }
    }
    if tier == Tier::Thorough {
        // a few triples around duplicate keys
        for e1 in entries.iter().filter(|e| e.0 == "a" && e.2 != b"y".to_vec()) {
            for e2 in entries.iter().filter(|e| e.0 == "ab" && e.1 <= 1 && e.2 == b"x".to_vec()) {
                for e3 in entries.iter().filter(|e| e.0 == "a" && e.2 != b"y".to_vec()) {
                    ops.push(Op::Batch(vec![e1.clone(), e2.clone(), e3.clone()]));
                }
            }
        }
    }
    ops.push(Op::Reopen);
    ops
}

// ---------------- reference model ----------------

fn ref_putv(m: &mut Dump, k: &str, ver: u64, v: &[u8]) -> bool {
    if let Some((ev, eval)) = m.get(k) {
        if ver < *ev {
            return false;
        }
        if ver == *ev {
            return eval.as_slice() == v;
        }
    }
    m.insert(k.to_string(), (ver, v.to_vec()));
    true
}

/// Reference for a batch: every entry is checked against the pre-state (version not lower, equal
/// version => equal content); if all pass the entries are applied in order.  For batches without
/// duplicate keys this is the only sensible meaning; for batches with duplicate keys see
/// `batch_has_dup` handling in the oracle.
fn ref_batch(m: &mut Dump, es: &[(String, u64, Vec<u8>)]) -> bool {
    for (k, ver, v) in es {
        if let Some((ev, eval)) = m.get(k) {
            if *ver < *ev || (*ver == *ev && eval != v) {
                return false;
            }
        }
    }
    for (k, ver, v) in es {
        m.insert(k.clone(), (*ver, v.clone()));
    }
    true
}

fn ref_apply(m: &mut Dump, op: &Op) -> bool {
    match op {
        Op::Put(k, v) => {
            let ver = m.get(k).map(|x| x.0 + 1).unwrap_or(0);
            ref_putv(m, k, ver, v)
        }
        Op::PutV(k, ver, v) => ref_putv(m, k, *ver, v),
        Op::Delete(k) => {
            let ver = m.get(k).map(|x| x.0 + 1).unwrap_or(0);
            ref_putv(m, k, ver, &[])
        }
        Op::Batch(es) => ref_batch(m, es),
        Op::Reopen => true,
    }
}

fn batch_has_dup(op: &Op) -> bool {
    if let Op::Batch(es) = op {
        let mut s = HashSet::new();
        es.iter().any(|e| !s.insert(e.0.clone()))
    } else {
        false
    }
}

// ---------------- real stores ----------------

static DIRCTR: AtomicU64 = AtomicU64::new(0);

struct TmpDir(String);
impl TmpDir {
    fn new() -> TmpDir {
        let n = DIRCTR.fetch_add(1, Ordering::Relaxed);
        let base = if std::path::Path::new("/dev/shm").is_dir() { "/dev/shm" } else { "/var/tmp" };
        let p = format!("{}/vmc-kvv-{}-{}", base, std::process::id(), n);
        let _ = std::fs::remove_dir_all(&p);
        std::fs::create_dir_all(&p).unwrap();
        TmpDir(p)
    }
}
impl Drop for TmpDir {
    fn drop(&mut self) {
        let _ = std::fs::remove_dir_all(&self.0);
    }
}

fn apply_store<S: KVVStore>(s: &S, op: &Op) -> Result<(), PErr> {
    match op {
        Op::Put(k, v) => s.put(k, v.clone()),
        Op::PutV(k, ver, v) => s.put_with_version(k, *ver, v.clone()),
        Op::Delete(k) => s.delete(k),
        Op::Batch(es) =>
            s.put_batch(es.iter().map(|(k, ver, v)| KVV(k.clone(), (*ver, v.clone()))).collect()),
        Op::Reopen => Ok(()),
    }
}

fn dump_store<S: KVVStore>(s: &S) -> Dump {
    s.get_prefix("").unwrap().map(|kvv| kvv.into_inner()).collect()
}

/// Everything a client can observe through the read API.
fn observe<S: KVVStore>(s: &S) -> Value {
    let mut o = serde_json::Map::new();
    for k in KEYS.iter().chain(["b", ""].iter()) {
        o.insert(format!("get:{}", k), json!(s.get(k).unwrap()));
        o.insert(format!("ver:{}", k), json!(s.get_version(k).unwrap()));
    }
    for p in PREFIXES {
        let v: Vec<_> = s.get_prefix(p).unwrap().map(|kvv| kvv.into_inner()).collect();
        o.insert(format!("prefix:{}", p), json!(v));
    }
    Value::Object(o)
}

fn observe_ref(m: &Dump) -> Value {
    let mut o = serde_json::Map::new();
    for k in KEYS.iter().chain(["b", ""].iter()) {
        o.insert(format!("get:{}", k), json!(m.get(*k)));
        o.insert(format!("ver:{}", k), json!(m.get(*k).map(|x| x.0)));
    }
    for p in PREFIXES {
        let v: Vec<_> =
            m.iter().filter(|(k, _)| k.starts_with(p)).map(|(k, v)| (k.clone(), v.clone())).collect();
        o.insert(format!("prefix:{}", p), json!(v));
    }
    Value::Object(o)
}

struct Trio {
    reference: Dump,
    mem: MemoryKVVStore,
    redb: Option<RedbKVVStore>,
    dir: TmpDir,
}

impl Trio {
    fn new() -> Trio {
        let dir = TmpDir::new();
        let redb = RedbKVVStore::new(&dir.0);
        Trio { reference: Dump::new(), mem: MemoryKVVStore::new([7u8; 16]), redb: Some(redb), dir }
    }
    fn redb(&self) -> &RedbKVVStore {
        self.redb.as_ref().unwrap()
    }
    /// apply op to all three; returns (ref_ok, mem_ok, redb_ok)
    fn apply(&mut self, op: &Op) -> (bool, Result<(), String>, Result<(), String>) {
        let r = ref_apply(&mut self.reference, op);
        if let Op::Reopen = op {
            self.redb = None; // drop closes the database
            self.redb = Some(RedbKVVStore::new(&self.dir.0));
            return (r, Ok(()), Ok(()));
        }
        let m = apply_store(&self.mem, op).map_err(|e| format!("{:?}", e));
        let d = apply_store(self.redb(), op).map_err(|e| format!("{:?}", e));
        (r, m, d)
    }
}

fn op_kind(op: &Op) -> &'static str {
    match op {
        Op::Put(..) => "put",
        Op::PutV(..) => "put_with_version",
        Op::Delete(..) => "delete",
        Op::Batch(es) => {
            if batch_has_dup(op) {
                "put_batch(duplicate-key)"
            } else if es.len() > 1 {
                "put_batch(multi)"
            } else {
                "put_batch"
            }
        }
        Op::Reopen => "reopen",
    }
}

pub struct KvvStats {
    pub states: u64,
    pub transitions: u64,
    pub refused: u64,
    pub closed: bool,
    pub max_depth: usize,
    pub samples: Vec<Value>,
    pub dup_batches: u64,
    pub pruned_after_violation: u64,
}

type Key = (Dump, Dump, Dump, Vec<Option<u64>>);

fn state_key(t: &Trio) -> Key {
    let cache: Vec<Option<u64>> = KEYS.iter().map(|k| t.redb().get_version(k).unwrap()).collect();
    (t.reference.clone(), dump_store(&t.mem), dump_store(t.redb()), cache)
}

struct StepOut {
    key: Option<Key>,
    vios: Vec<(String, String)>,
    refused: bool,
}

fn expand(hist: &[Op], op: &Op) -> StepOut {
    let mut t = Trio::new();
    for h in hist {
        let _ = t.apply(h);
    }
    expand_on(&mut t, op)
}

/// Expand several ops from the same state.  The stores are rebuilt by replay only after an op
/// that changed something observable; a refused op that left every dump and the version cache
/// unchanged lets the same instances be reused.  Any violation found on a reused instance is
/// re-checked on freshly replayed stores before it is reported.
fn expand_chunk(hist: &[Op], ops: &[Op], vmax: u64) -> Vec<Option<StepOut>> {
    let mut outs = vec![];
    let mut t = Trio::new();
    for h in hist {
        let _ = t.apply(h);
    }
    let mut fresh = true;
    let base_key = state_key(&t);
    for op in ops {

        // version cap: keeps the state space finite
        let over = match op {
            Op::Put(k, _) | Op::Delete(k) => t.reference.get(k).map(|x| x.0 + 1).unwrap_or(0) > vmax,
            _ => false,
        };
        if over {
            outs.push(None);
            continue;
        }
        let mut out = expand_on(&mut t, op);
        if !out.vios.is_empty() && !fresh {
            let again = expand(hist, op);
            if again.vios.is_empty() {
                out.vios = vec![(
                    "C16:hidden-state-after-refused-op".to_string(),
                    format!("violation only on reused stores after refused ops: {:?}", out.vios),
                )];
            } else {
                out = again;
            }
            t = Trio::new();
            for h in hist {
                let _ = t.apply(h);
            }
            fresh = true;
        } else if out.key.as_ref() == Some(&base_key) && out.vios.is_empty() {
            fresh = false;
        } else {
            t = Trio::new();
            for h in hist {
                let _ = t.apply(h);
            }
            fresh = true;
        }
        outs.push(Some(out));
    }
    outs
}

fn expand_on(t: &mut Trio, op: &Op) -> StepOut {
    let mut vios = vec![];
    let pre_ref = t.reference.clone();
    let pre_mem = dump_store(&t.mem);
    let pre_redb = dump_store(t.redb());
    let kind = op_kind(op);
    let dup = batch_has_dup(op);
    let res = catch(|| t.apply(op));
    let (r, m, d) = match res {
        Ok(x) => x,
        Err(p) => {
            vios.push((format!("C16:panic:{}", kind), format!("store panicked: {} at {}", p, last_panic_loc())));
            return StepOut { key: None, vios, refused: false };
        }
    };
    let post_mem = dump_store(&t.mem);
    let post_redb = dump_store(t.redb());
    // (1) backends agree with each other on the result and on every read
    if m.is_ok() != d.is_ok() {
        vios.push((
            format!("C16:backends-disagree:result:{}", kind),
            format!("memory returned {:?}, redb returned {:?}", m, d),
        ));
    }
    let om = observe(&t.mem);
    let od = observe(t.redb());
    if om != od {
        vios.push((
            format!("C16:backends-disagree:reads:{}", kind),
            format!("reads differ after op: memory={} redb={}", om, od),
        ));
    }
    // (2) per backend: monotone versions, refusal changes nothing, all-or-nothing
    for (name, pre, post, ok) in
        [("memory", &pre_mem, &post_mem, m.is_ok()), ("redb", &pre_redb, &post_redb, d.is_ok())]
    {
        for (k, (pv, pval)) in pre.iter() {
            match post.get(k) {
                None => vios.push((format!("C16:key-vanished:{}:{}", name, kind), format!("key {} vanished", k))),
                Some((nv, nval)) => {
                    if nv < pv {
                        vios.push((
                            format!("C16:version-decreased:{}:{}", name, kind),
                            format!("key {} version {} -> {}", k, pv, nv),
                        ));
                    }
                    if nv == pv && nval != pval {
                        vios.push((
                            format!("C16:same-version-content-changed:{}:{}", name, kind),
                            format!("key {} at version {} content changed", k, pv),
                        ));
                    }
                }
            }
        }
        if !ok && pre != post {
            vios.push((
                format!("C16:refused-but-changed:{}:{}", name, kind),
                format!("refused op changed the store: {:?} -> {:?}", pre, post),
            ));
        }
    }
    // (3) agreement with the reference (strict when the batch has no duplicate keys)
    if !dup {
        for (name, ok, post, obs) in
            [("memory", m.is_ok(), &post_mem, &om), ("redb", d.is_ok(), &post_redb, &od)]
        {
            if ok != r {
                vios.push((
                    format!("C16:reference-disagree:result:{}:{}", name, kind),
                    format!("reference accepted={} backend accepted={}", r, ok),
                ));
            } else if *post != t.reference {
                vios.push((
                    format!("C16:reference-disagree:contents:{}:{}", name, kind),
                    format!("reference={:?} backend={:?}", t.reference, post),
                ));
            } else if *obs != observe_ref(&t.reference) {
                vios.push((
                    format!("C16:reference-disagree:reads:{}:{}", name, kind),
                    format!("reads differ from reference: {} vs {}", obs, observe_ref(&t.reference)),
                ));
            }
        }
    } else {
        // duplicate-key batch: all-or-nothing relative to last-wins application
        for (name, ok, pre, post) in
            [("memory", m.is_ok(), &pre_mem, &post_mem), ("redb", d.is_ok(), &pre_redb, &post_redb)]
        {
            if ok {
                let mut full = pre.clone();
                if let Op::Batch(es) = op {
                    for (k, ver, v) in es {
                        full.insert(k.clone(), (*ver, v.clone()));
                    }
                }
                if *post != full {
                    vios.push((
                        format!("C16:batch-partial:{}:{}", name, kind),
                        format!("accepted batch not applied entirely: {:?} vs {:?}", post, full),
                    ));
                }
            }
        }
        // keep the reference aligned with memory so that exploration continues from real states
        t.reference = post_mem.clone();
    }
    let _ = pre_ref;
    // (4) reopen: redb returns the same contents and the same reads
    if let Op::Reopen = op {
        if post_redb != pre_redb {
            vios.push(("C16:reopen-changed-contents".into(), format!("{:?} -> {:?}", pre_redb, post_redb)));
        }
    }
    StepOut { key: Some(state_key(&t)), vios, refused: !r }
}

pub fn run_stores(run: &mut Run, stats: &mut KvvStats) {
    let ops = alphabet(run.tier);
    let threads = nthreads();
    let max_depth = run.tier.pick(12, 16);
    let mut seen: HashSet<Key> = HashSet::new();
    {
        let t = Trio::new();
        seen.insert(state_key(&t));
    }
    let mut frontier: Vec<Vec<Op>> = vec![vec![]];
    let mut depth = 0;
    while !frontier.is_empty() {
        if depth >= max_depth {
            stats.closed = false;
            break;
        }
        let chunk = 24usize;
        let mut work: Vec<(usize, usize)> = vec![];
        for i in 0..frontier.len() {
            let mut j = 0;
            while j < ops.len() {
                work.push((i, j));
                j += chunk;
            }
        }
        let vmax = run.tier.pick(2u64, 3);
        let outs = par_map(&work, threads, |&(i, j)| {
            expand_chunk(&frontier[i], &ops[j..(j + chunk).min(ops.len())], vmax)
        });
        let mut next = vec![];
        for (&(i, j0), outv) in work.iter().zip(outs.into_iter()) {
            for (dj, out) in outv.into_iter().enumerate() {
                let j = j0 + dj;
                let out = match out {
                    Some(o) => o,
                    None => continue,
                };
                stats.transitions += 1;
                if batch_has_dup(&ops[j]) {
                    stats.dup_batches += 1;
                }
                if out.refused {
                    stats.refused += 1;
                }
                let violated = !out.vios.is_empty();
                for (k, what) in out.vios {
                    let mut h = frontier[i].clone();
                    h.push(ops[j].clone());
                    run.violation(&k, &what, json!({"part": "stores", "ops": h}));
                }
                if violated {
                    // successors of a violating transition are not explored (the stores have
                    // diverged from the reference; everything after is a consequence)
                    stats.pruned_after_violation += 1;
                    continue;
                }
                if let Some(k) = out.key {
                    if seen.insert(k) {
                        let mut h = frontier[i].clone();
                        h.push(ops[j].clone());
                        if stats.samples.len() < 3 && h.len() == 2 {
                            stats.samples.push(json!({"part": "stores", "ops": h}));
                        }
                        next.push(h);
                    }
                }
            }
        }
        depth += 1;
        stats.max_depth = depth;
        if std::env::var("VERIF_VERBOSE").is_ok() {
            eprintln!("stores depth {} frontier {} seen {} transitions {} vios {}", depth, next.len(), seen.len(), stats.transitions, run.violation_count());

        }
        frontier = next;
    }
    stats.states += seen.len() as u64;
}

// ---------------- Part B: cloud store ----------------

#[derive(Clone, Debug, PartialEq, Eq, Hash, serde::Serialize, serde::Deserialize)]
pub enum COp {
    Enter,
    Put(String, Vec<u8>),
    PutV(String, u64, Vec<u8>),
    Delete(String),
    PrepareCommit,
    /// put_batch of (key, version, value) entries on distinct keys
    PutBatch(Vec<(String, u64, Vec<u8>)>),
}

fn cloud_alphabet(tier: Tier) -> Vec<COp> {
    let mut ops = vec![];
    let vals: Vec<Vec<u8>> = vec![b"x".to_vec(), b"y".to_vec(), vec![]];
    for k in KEYS {
        for v in &vals {
            ops.push(COp::Put(k.to_string(), v.clone()));
        }
        ops.push(COp::Delete(k.to_string()));
        for ver in 0..tier.pick(3u64, 4) {
            for v in &vals {
                ops.push(COp::PutV(k.to_string(), ver, v.clone()));
            }
        }
    }
    // batches over the two keys in both orders (the cloud store stages a batch entry by entry)
    for va in 0..3u64 {
        for vb in 0..3u64 {
            ops.push(COp::PutBatch(vec![(KEYS[0].to_string(), va, b"x".to_vec()), (KEYS[1].to_string(), vb, b"y".to_vec())]));
            ops.push(COp::PutBatch(vec![(KEYS[1].to_string(), vb, b"y".to_vec()), (KEYS[0].to_string(), va, b"x".to_vec())]));
        }
    }
    ops
}

struct CloudOut {
    key: Option<(Dump, bool, Dump)>,
    vios: Vec<(String, String)>,
    refused: bool,
}

/// A local store that stops accepting writes after a given number of write operations (a power
/// cut in the middle of a commit); reads keep working so that the result can be inspected.
struct Faulty {
    inner: MemoryKVVStore,
    /// write operations still allowed; negative = unlimited
    left: std::sync::Arc<std::sync::atomic::AtomicI64>,
}
impl Faulty {
    fn gate(&self) -> Result<(), PErr> {
        let l = self.left.load(Ordering::SeqCst);
        if l < 0 {
            return Ok(());
        }
        if l == 0 {
            return Err(PErr::Internal("power cut".into()));
        }
        self.left.store(l - 1, Ordering::SeqCst);
        Ok(())
    }
}
impl lightning_signer::SendSync for Faulty {}
impl KVVStore for Faulty {
    type Iter = <MemoryKVVStore as KVVStore>::Iter;
    fn put(&self, k: &str, v: Vec<u8>) -> Result<(), PErr> {
        self.gate()?;
        self.inner.put(k, v)
    }
    fn put_with_version(&self, k: &str, ver: u64, v: Vec<u8>) -> Result<(), PErr> {
        self.gate()?;
        self.inner.put_with_version(k, ver, v)
    }
    fn put_batch(&self, kvvs: Vec<KVV>) -> Result<(), PErr> {
        self.gate()?;
        self.inner.put_batch(kvvs)
    }
    fn get(&self, k: &str) -> Result<Option<(u64, Vec<u8>)>, PErr> {
        self.inner.get(k)
    }
    fn get_version(&self, k: &str) -> Result<Option<u64>, PErr> {
        self.inner.get_version(k)
    }
    fn get_prefix(&self, p: &str) -> Result<Self::Iter, PErr> {
        self.inner.get_prefix(p)
    }
    fn delete(&self, k: &str) -> Result<(), PErr> {
        self.gate()?;
        self.inner.delete(k)
    }
    fn clear_database(&self) -> Result<(), PErr> {
        self.inner.clear_database()
    }
    fn reset_versions(&self) -> Result<(), PErr> {
        self.inner.reset_versions()
    }
    fn put_batch_unlogged(&self, kvvs: Vec<KVV>) -> Result<(), PErr> {
        self.gate()?;
        self.inner.put_batch_unlogged(kvvs)
    }
    fn signer_id(&self) -> lightning_signer::persist::SignerId {
        self.inner.signer_id()
    }
}

/// The history replayed on a cloud store over a `Faulty` local store whose write budget is armed
/// right before the final commit: whatever the interruption point, the local store afterwards
/// holds either none or all of the mutations the transaction reported.
fn cloud_commit_crash_points(hist: &[COp]) -> (u64, Vec<(String, String)>) {
    let mut vios = vec![];
    let mut points = 0u64;
    for budget in 0..6i64 {
        let left = std::sync::Arc::new(std::sync::atomic::AtomicI64::new(-1));
        let cloud = CloudKVVStore::new(Faulty { inner: MemoryKVVStore::new([9u8; 16]), left: left.clone() });
        let dump_local = |c: &CloudKVVStore<Faulty>| -> Dump {
            let mut d = Dump::new();
            if let Ok(it) = c.get_prefix("") {
                for kvv in it {
                    d.insert(kvv.0, (kvv.1 .0, kvv.1 .1));
                }
            }
            d
        };
        for o in hist {
            match o {
                COp::Enter => {
                    let _ = cloud.enter();
                }
                COp::PrepareCommit => {
                    let _ = cloud.prepare();
                    let _ = cloud.commit();
                }
                COp::Put(k, v) => {
                    let _ = cloud.put(k, v.clone());
                }
                COp::PutV(k, ver, v) => {
                    let _ = cloud.put_with_version(k, *ver, v.clone());
                }
                COp::Delete(k) => {
                    let _ = cloud.delete(k);
                }
                COp::PutBatch(es) => {
                    let _ = cloud.put_batch(es.iter().map(|(k, ver, v)| KVV(k.clone(), (*ver, v.clone()))).collect());
                }
            }
        }
        let before = dump_local(&cloud);
        let muts = cloud.prepare();
        let mut expect = before.clone();
        for (k, (ver, v)) in muts.iter() {
            expect.insert(k.clone(), (*ver, v.clone()));
        }
        // arm the budget for the commit only
        left.store(budget, Ordering::SeqCst);
        let r = catch(|| cloud.commit());
        left.store(-1, Ordering::SeqCst);
        let after = dump_local(&cloud);
        points += 1;
        if after != before && after != expect {
            vios.push((
                "C16:cloud:interrupted-commit-applied-partly".into(),
                format!("local write budget {} during commit ({:?}): the local store holds {:?}, neither the state before {:?} nor before + the reported mutations {:?}", budget, r.map(|x| x.is_ok()), after, before, expect),
            ));
        }
        if after == expect {
            // the commit went through: larger budgets add nothing
            break;
        }
    }
    (points, vios)
}

fn cloud_replay(hist: &[COp], op: &COp) -> CloudOut {
    let mut vios = vec![];
    let cloud = CloudKVVStore::new(MemoryKVVStore::new([9u8; 16]));
    let mut in_tx = false;
    // ghost: accepted writes of the current transaction, by key
    let mut txw: Dump = Dump::new();
    let mut refused = false;
    let all: Vec<&COp> = hist.iter().chain(std::iter::once(op)).collect();
    let last = all.len() - 1;
    for (i, o) in all.iter().enumerate() {
        let check = i == last;
        let local_before: Dump = dump_store(&LocalView(&cloud));
        match o {
            COp::Enter => {
                cloud.enter().unwrap();
                in_tx = true;
                txw.clear();
            }
            COp::PrepareCommit => {
                if check {
                    // every interruption point of this commit, on a twin store
                    let (_pts, cv) = cloud_commit_crash_points(hist);
                    vios.extend(cv);
                }
                // what the transaction reads for every key right before it ends ...
                let reads: Vec<(String, Option<(u64, Vec<u8>)>)> = KEYS.iter().map(|k| (k.to_string(), cloud.get(k).unwrap())).collect();
                let muts = cloud.prepare();
                let local_mid: Dump = dump_store(&LocalView(&cloud));
                if check && local_mid != local_before {
                    vios.push(("C16:cloud:local-changed-before-commit".into(), "prepare changed the local store".into()));
                }
                let r = cloud.commit();
                let local_after: Dump = dump_store(&LocalView(&cloud));
                if check {
                    if let Err(e) = &r {
                        vios.push(("C16:cloud:commit-failed".into(), format!("commit of a legal transaction failed: {:?}", e)));
                    }
                    let mut expect = local_before.clone();
                    for (k, (ver, v)) in muts.iter() {
                        expect.insert(k.clone(), (*ver, v.clone()));
                    }
                    if r.is_ok() && local_after != expect {
                        vios.push((
                            "C16:cloud:commit-differs-from-reported-mutations".into(),
                            format!("local after commit {:?} != before+mutations {:?}", local_after, expect),
                        ));
                    }
                    for (k, (pv, pval)) in local_before.iter() {
                        if let Some((nv, nval)) = local_after.get(k) {
                            if nv < pv {
                                vios.push(("C16:cloud:version-decreased".into(), format!("key {} version {} -> {}", k, pv, nv)));
                            }
                            if nv == pv && nval != pval {
                                vios.push(("C16:cloud:same-version-content-changed".into(), format!("key {}", k)));
                            }
                        } else {
                            vios.push(("C16:cloud:key-vanished".into(), format!("key {}", k)));
                        }
                    }
                    // ... is what the local store holds once the transaction is committed
                    if r.is_ok() {
                        for (k, rd) in &reads {
                            if local_after.get(k) != rd.as_ref() {
                                vios.push((
                                    "C16:cloud:committed-differs-from-last-read-in-transaction".into(),
                                    format!("key {}: the transaction read {:?} before prepare, the local store holds {:?} after commit", k, rd, local_after.get(k)),
                                ));
                            }
                        }
                    }
                    // the mutations must carry every accepted write of the transaction
                    let mm: Dump = muts.iter().cloned().collect();
                    for (k, vv) in txw.iter() {
                        if mm.get(k) != Some(vv) {
                            vios.push((
                                "C16:cloud:mutation-list-misses-accepted-write".into(),
                                format!("key {} accepted as {:?}, reported {:?}", k, vv, mm.get(k)),
                            ));
                        }
                    }
                    for (k, (ver, _)) in muts.iter() {
                        if let Some((pv, _)) = local_before.get(k) {
                            if ver < pv {
                                vios.push(("C16:cloud:reported-version-below-committed".into(), format!("key {}", k)));
                            }
                        }
                    }
                }
                in_tx = false;
                txw.clear();
            }
            COp::Put(..) | COp::PutV(..) | COp::Delete(..) => {
                assert!(in_tx);
                let (k, r) = match o {
                    COp::Put(k, v) => (k, cloud.put(k, v.clone())),
                    COp::PutV(k, ver, v) => (k, cloud.put_with_version(k, *ver, v.clone())),
                    COp::Delete(k) => (k, cloud.delete(k)),
                    _ => unreachable!(),
                };
                let pre_read = txw.get(k).cloned().or_else(|| local_before.get(k).cloned());
                let got = cloud.get(k).unwrap();
                let gotv = cloud.get_version(k).unwrap();
                if r.is_ok() {
                    let written = match o {
                        COp::Put(_, v) => v.clone(),
                        COp::PutV(_, _, v) => v.clone(),
                        _ => vec![],
                    };
                    // an accepted write at exactly the committed version and content is a no-op
                    let noop = match o {
                        COp::PutV(_, ver, v) => local_before.get(k) == Some(&(*ver, v.clone())),
                        _ => false,
                    };
                    if !noop {
                        match &got {
                            Some((gv, gval)) if *gval == written => {
                                txw.insert(k.clone(), (*gv, gval.clone()));
                                if check {
                                    if let Some((lv, _)) = local_before.get(k) {
                                        if gv < lv {
                                            vios.push(("C16:cloud:staged-version-below-committed".into(), format!("key {} staged {} < committed {}", k, gv, lv)));
                                        }
                                    }
                                    if let COp::PutV(_, ver, _) = o {
                                        if gv != ver {
                                            vios.push(("C16:cloud:read-your-writes".into(), format!("wrote version {} read version {}", ver, gv)));
                                        }
                                    }
                                }
                            }
                            _ =>
                                if check {
                                    vios.push((
                                        "C16:cloud:read-your-writes".into(),
                                        format!("accepted write of {:?} to {} but get returns {:?}", written, k, got),
                                    ));
                                },
                        }
                    }
                    if check && gotv != got.as_ref().map(|x| x.0) {
                        vios.push(("C16:cloud:get-version-differs-from-get".into(), format!("{:?} vs {:?}", gotv, got)));
                    }
                } else if check {
                    refused = true;
                    if got != pre_read {
                        vios.push(("C16:cloud:refused-write-changed-reads".into(), format!("{:?} -> {:?}", pre_read, got)));
                    }
                }
                let local_now: Dump = dump_store(&LocalView(&cloud));
                if check && local_now != local_before {
                    vios.push(("C16:cloud:local-changed-before-commit".into(), format!("op {:?} changed the local store", o)));
                }
            }
            COp::PutBatch(es) => {
                assert!(in_tx);
                let r = cloud.put_batch(es.iter().map(|(k, ver, v)| KVV(k.clone(), (*ver, v.clone()))).collect());
                if r.is_ok() {
                    // every entry was accepted: each key reads back as written (or as committed, for
                    // an exact replay of the committed version and content)
                    for (k, ver, v) in es {
                        let got = cloud.get(k).unwrap();
                        // an exact replay of the committed version and content is accepted as a no-op
                        // (whatever the transaction staged for the key before stays)
                        if local_before.get(k) == Some(&(*ver, v.clone())) {
                            continue;
                        }
                        if got == Some((*ver, v.clone())) {
                            txw.insert(k.clone(), (*ver, v.clone()));
                            if check {
                                if let Some((lv, _)) = local_before.get(k) {
                                    if ver < lv {
                                        vios.push(("C16:cloud:staged-version-below-committed".into(), format!("key {} staged {} < committed {} (batch)", k, ver, lv)));
                                    }
                                }
                            }
                        } else if check {
                            vios.push(("C16:cloud:read-your-writes".into(), format!("batch entry ({}, {}, {:?}) accepted but get returns {:?}", k, ver, v, got)));
                        }
                        if check && cloud.get_version(k).unwrap() != got.as_ref().map(|x| x.0) {
                            vios.push(("C16:cloud:get-version-differs-from-get".into(), format!("key {} after batch", k)));
                        }
                    }
                } else if check {
                    // the statement does not make a cloud batch atomic (it is staged entry by entry);
                    // what it does demand - reads, reported mutations and the committed state agree -
                    // is checked when the transaction ends
                    refused = true;
                }
                let local_now: Dump = dump_store(&LocalView(&cloud));
                if check && local_now != local_before {
                    vios.push(("C16:cloud:local-changed-before-commit".into(), format!("op {:?} changed the local store", o)));
                }
            }
        }
    }
    let local: Dump = dump_store(&LocalView(&cloud));
    let mut keyd = txw.clone();
    if !in_tx {
        keyd.clear();
    }
    CloudOut { key: Some((local, in_tx, keyd)), vios, refused }
}

/// read-only view of the local store behind the cloud store (get_prefix delegates to local)
struct LocalView<'a>(&'a CloudKVVStore<MemoryKVVStore>);
impl<'a> lightning_signer::SendSync for LocalView<'a> {}
impl<'a> KVVStore for LocalView<'a> {
    type Iter = <MemoryKVVStore as KVVStore>::Iter;
    fn put(&self, _: &str, _: Vec<u8>) -> Result<(), PErr> {
        unimplemented!()
    }
    fn put_with_version(&self, _: &str, _: u64, _: Vec<u8>) -> Result<(), PErr> {
        unimplemented!()
    }
    fn put_batch(&self, _: Vec<KVV>) -> Result<(), PErr> {
        unimplemented!()
    }
    fn get(&self, k: &str) -> Result<Option<(u64, Vec<u8>)>, PErr> {
        self.0.get_local(k)
    }
    fn get_version(&self, k: &str) -> Result<Option<u64>, PErr> {
        Ok(self.0.get_local(k)?.map(|x| x.0))
    }
    fn get_prefix(&self, p: &str) -> Result<Self::Iter, PErr> {
        self.0.get_prefix(p)
    }
    fn delete(&self, _: &str) -> Result<(), PErr> {
        unimplemented!()
    }
    fn clear_database(&self) -> Result<(), PErr> {
        unimplemented!()
    }
    fn reset_versions(&self) -> Result<(), PErr> {
        unimplemented!()
    }
    fn signer_id(&self) -> lightning_signer::persist::SignerId {
        [0u8; 16]
    }
}

pub fn run_cloud(run: &mut Run, stats: &mut KvvStats) {
    let ops = cloud_alphabet(run.tier);
    let threads = nthreads();
    let max_tx_ops = run.tier.pick(2, 3);
    let max_txs = run.tier.pick(2, 3);
    let mut seen: HashSet<(Dump, bool, Dump, usize)> = HashSet::new();
    let mut frontier: Vec<Vec<COp>> = vec![vec![]];
    let mut depth = 0;
    let _ = LAST_WRITER_KEY;
    while !frontier.is_empty() {
        let mut work: Vec<(usize, COp)> = vec![];
        for (i, h) in frontier.iter().enumerate() {
            let in_tx = h.iter().rev().find(|o| matches!(o, COp::Enter | COp::PrepareCommit)).map(|o| *o == COp::Enter).unwrap_or(false);
            let txs = h.iter().filter(|o| **o == COp::Enter).count();
            if !in_tx {
                if txs < max_txs {
                    work.push((i, COp::Enter));
                }
            } else {
                let since = h.iter().rev().take_while(|o| **o != COp::Enter).count();
                if since < max_tx_ops {
                    for o in &ops {
                        work.push((i, o.clone()));
                    }
                }
                work.push((i, COp::PrepareCommit));
            }
        }
        let outs = par_map(&work, threads, |(i, o)| cloud_replay(&frontier[*i], o));
        let mut next = vec![];
        for ((i, o), out) in work.iter().zip(outs.into_iter()) {
            stats.transitions += 1;
            if out.refused {
                stats.refused += 1;
            }
            let mut h = frontier[*i].clone();
            h.push(o.clone());
            let violated = !out.vios.is_empty();
            for (k, what) in out.vios {
                run.violation(&k, &what, json!({"part": "cloud", "ops": h}));
            }
            if violated {
                stats.pruned_after_violation += 1;
                continue;
            }
            if let Some((l, t, w)) = out.key {
                let since = h.iter().rev().take_while(|o| **o != COp::Enter).count();
                let txs = h.iter().filter(|o| **o == COp::Enter).count();
                // ops-in-tx and tx count are part of the key because they bound the search
                if seen.insert((l, t, w, since * 16 + txs)) {
                    if stats.samples.len() < 5 && h.len() == 4 {
                        stats.samples.push(json!({"part": "cloud", "ops": h}));
                    }
                    next.push(h);
                }
            }
        }
        depth += 1;
        stats.max_depth = stats.max_depth.max(depth);
        frontier = next;
    }
    stats.states += seen.len() as u64;
}

pub fn replay(v: &Value) {
    let part = v["replay"]["part"].as_str().unwrap_or("");
    if part == "stores" {
        let ops: Vec<Op> = serde_json::from_value(v["replay"]["ops"].clone()).unwrap();
        let (h, last) = ops.split_at(ops.len() - 1);
        for round in 0..2 {
            let out = expand(h, &last[0]);
            println!("round {}: {} violation(s)", round, out.vios.len());
            for (k, w) in out.vios {
                println!("  {} :: {}", k, w);
            }
        }
    } else {
        let ops: Vec<COp> = serde_json::from_value(v["replay"]["ops"].clone()).unwrap();
        let (h, last) = ops.split_at(ops.len() - 1);
        for round in 0..2 {
            let out = cloud_replay(h, &last[0]);
            println!("round {}: {} violation(s)", round, out.vios.len());
            for (k, w) in out.vios {
                println!("  {} :: {}", k, w);
            }
        }
    }
}

pub fn main(tier: Tier) -> i32 {
    let mut run = Run::new("C16", tier, "model_checking", "kvvmc");
    let mut stats = KvvStats {
        states: 0,
        transitions: 0,
        refused: 0,
        closed: true,
        max_depth: 0,
        samples: vec![],
        dup_batches: 0,
        pruned_after_violation: 0,
    };
    run_stores(&mut run, &mut stats);
    let store_states = stats.states;
    let store_tr = stats.transitions;
    run_cloud(&mut run, &mut stats);
    run.assume("keys {a, ab}, versions 0..2 (quick) / 0..3 (thorough), values {x, y, empty}; batches of <= 2 entries (plus selected triples in thorough)");
    run.assume("cloud store: only protocol-legal sequences enter (op)* prepare commit; use outside a transaction panics by design and is excluded");
    run.assume("duplicate-key batches: compared between backends and against all-or-nothing / monotonicity only (their meaning is not fixed by the property)");
    let cov = json!({
        "states": stats.states,
        "transitions": stats.transitions,
        "traces_validated_against_impl": stats.transitions,
        "samples": stats.samples,
        "exhaustive": stats.closed,
        "closed": stats.closed,
        "max_depth": stats.max_depth,
        "store_states": store_states,
        "store_transitions": store_tr,
        "cloud_states": stats.states - store_states,
        "cloud_transitions": stats.transitions - store_tr,
        "refused_transitions": stats.refused,
        "duplicate_key_batches": stats.dup_batches,
        "pruned_after_violation": stats.pruned_after_violation,
        "rule": "explicit-state BFS; each transition is one call on the real MemoryKVVStore and RedbKVVStore (fresh stores rebuilt by replaying the history) checked against a BTreeMap reference; all reads compared after every step",
    });
    run.finish(cov)
}
