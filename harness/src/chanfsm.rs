//! Channel state machine exploration (C01, C02, C03; monitors C10, C11).
//!
//! Every transition is one request to the real handler / channel of a real signer.  Letters are
//! computed relative to the live counters.  Ghost variables implement the reference monitors.

use crate::ev::*;
use crate::monitors::*;
use crate::vmc::*;
use crate::world::*;
use lightning_signer::bitcoin::bip32::DerivationPath;
use lightning_signer::bitcoin::psbt::Psbt;
use lightning_signer::bitcoin::secp256k1::{PublicKey, SecretKey};
use lightning_signer::bitcoin::sighash::EcdsaSighashType;
use lightning_signer::bitcoin::ScriptBuf;
use lightning_signer::channel::{ChannelBase, ChannelSetup, CommitmentType};
use lightning_signer::util::test_utils::build_tx_scripts;
use serde::{Deserialize, Serialize};
use serde_json::{json, Value};
use std::collections::{BTreeMap, BTreeSet};
use vls_protocol::model::{self, DisclosedSecret, PubKey};
use vls_protocol::msgs::{self, Message};
use vls_protocol::psbt::PsbtWrapper;
use vls_protocol::serde_bolt::{Array, WithSize};

pub const DBID: u64 = 1;

#[derive(Clone, Copy, Debug, PartialEq, Eq, Serialize, Deserialize)]
pub enum Side {
    Holder,
    Cp,
}

#[derive(Clone, Debug, Serialize, Deserialize)]
pub struct ChanCfg {
    pub pv: u32,
    pub anchors: bool,
    pub outbound: bool,
    pub k: u64,
    pub side: Side,
    pub core_letters: bool,
    pub phase1: bool,
    /// run the C10/C11 monitors (and prune successors of state-corrupting violations)
    pub monitors: bool,
    /// over the transactional cloud store (lazy enter, prepare / commit after every request)
    #[serde(default)]
    pub cloud: bool,
    /// the validator vlsd installs: chain-aware wrapper around the simple validator; the funding
    /// transaction is confirmed right after the set-up
    #[serde(default)]
    pub onchain: bool,
    /// the signer writes through the composite BackupPersister; the backup store alone must be
    /// enough to restore it
    #[serde(default)]
    pub backup: bool,
    /// default policy with a filter that demotes the tag families no rule of C01-C03 reports under
    /// (sweep, htlc, routing, invoice, funding, chain) and carries decoy rules for the kept ones
    #[serde(default)]
    pub filtered: bool,
    /// a testnet signer whose store was initialised at an older built-in checkpoint (the tracker's
    /// stored height lies between genesis and the newest checkpoint)
    #[serde(default)]
    pub oldcp: bool,
}

#[derive(Clone, Copy, Debug, PartialEq, Eq, Hash, PartialOrd, Ord, Serialize, Deserialize)]
pub enum C {
    A,
    B,
    B2,
}

#[derive(Clone, Copy, Debug, PartialEq, Eq, Hash, Serialize, Deserialize)]
pub enum S {
    Valid,
    BadCommitSig,
    BadHtlcSig,
    OtherContent,
    /// fewer HTLC signatures than HTLCs (the last one is missing)
    MissingHtlcSig,
    /// the counterparty's genuine signatures for the *previous* number with the same content:
    /// byte for byte what the signer accepted last time if that content is the current one
    PreviousNumber,
}

#[derive(Clone, Copy, Debug, PartialEq, Eq, Hash, Serialize, Deserialize)]
pub enum X {
    Matching,
    TreeAlthoughRogue,
    Previous,
    FutureTree,
    Unrelated,
}

/// Letters.  Commitment numbers are absolute in the recorded op (so that a replay is exact);
/// they are *chosen* relative to the live counters by `ops()`.
#[derive(Clone, Debug, PartialEq, Eq, Hash, Serialize, Deserialize)]
pub enum Op {
    Setup,
    Restart,
    GetPoint(u64),
    GetPoint2(u64),
    Validate(u64, C, S),
    Validate1(u64, C),
    /// phase-1 validate with the signatures of the previous number replayed
    Validate1Replay(u64, C),
    Revoke(u64),
    SignLocal(u64),
    SignLocalRoot(u64),
    CoreSecret(u64),
    CoreSecretOrNone(u64),
    CoreRevoke(u64),
    Activate,
    SignRecovery,
    SignRedundant(u64, C),
    MutualClose,
    CheckFuture(u64),
    SignCp(u64, u8, C),
    SignCp1(u64, C),
    ValidateRev(u64, X),
}

impl Op {
    pub fn kind(&self) -> &'static str {
        match self {
            Op::Setup => "SetupChannel",
            Op::Restart => "Restart",
            Op::GetPoint(_) => "GetPerCommitmentPoint",
            Op::GetPoint2(_) => "GetPerCommitmentPoint2",
            Op::Validate(..) => "ValidateCommitmentTx2",
            Op::Validate1(..) | Op::Validate1Replay(..) => "ValidateCommitmentTx",
            Op::Revoke(_) => "RevokeCommitmentTx",
            Op::SignLocal(_) => "SignLocalCommitmentTx2",
            Op::SignLocalRoot(_) => "SignCommitmentTx",
            Op::CoreSecret(_) => "get_per_commitment_secret",
            Op::CoreSecretOrNone(_) => "get_per_commitment_secret_or_none",
            Op::CoreRevoke(_) => "revoke_previous_holder_commitment",
            Op::Activate => "activate_initial_commitment",
            Op::SignRecovery => "sign_holder_commitment_tx_for_recovery",
            Op::SignRedundant(..) => "sign_holder_commitment_tx_phase2_redundant",
            Op::MutualClose => "SignMutualCloseTx2",
            Op::CheckFuture(_) => "CheckFutureSecret",
            Op::SignCp(..) => "SignRemoteCommitmentTx2",
            Op::SignCp1(..) => "SignRemoteCommitmentTx",
            Op::ValidateRev(..) => "ValidateRevocation",
        }
    }
}

#[derive(Clone, Default, Debug, Serialize)]
pub struct Ghost {
    pub is_setup: bool,
    pub disclosed: BTreeSet<u64>,
    pub accepted: BTreeSet<u64>,
    /// holder commitment number -> entry point that first signed it
    pub signed: BTreeMap<u64, String>,
    /// cp commitment number -> (rogue point?, content)
    pub cp_signed: BTreeMap<u64, (u8, C)>,
    pub cp_revoked: BTreeSet<u64>,
    /// per cp commitment number: secrets accepted so far (for the naive reference store)
    pub cp_secrets: BTreeMap<u64, [u8; 32]>,
}

pub struct ChanState {
    pub w: Option<World>,
    pub cp: Cp,
    pub setup: ChannelSetup,
    pub params: Option<ChanParams>,
    pub ghost: Ghost,
    pub dead: bool,
    pub hsecrets: Vec<[u8; 32]>,
    /// the channel's per-commitment points from the key material, by commitment number
    pub hpoints: Vec<[u8; 33]>,
    /// on-chain configurations: the funding transaction and the harness's copy of the chain
    pub funding: Option<(lightning_signer::bitcoin::Transaction, crate::chain::SimChain)>,
}

pub struct ChanModel {
    pub cfg: ChanCfg,
}

/// index of the rogue point that point kind 2 uses for every commitment number
const FIXED_POINT: u64 = 200;

fn cp_point(cp: &Cp, kind: u8, n: u64) -> PublicKey {
    match kind {
        0 => cp.point(n),
        1 => cp.rogue_point(n),
        _ => cp.rogue_point(FIXED_POINT),
    }
}

pub fn content(c: C, n: u64) -> Content {
    // n is only used to keep first-commitment rules satisfiable: no HTLC variants at n = 0 are
    // still generated (and must be refused)
    let _ = n;
    match c {
        C::A => Content { to_holder: CHANNEL_VALUE - 2_000, to_cp: 0, feerate: 1000, out: vec![], inc: vec![] },
        C::B => Content {
            to_holder: CHANNEL_VALUE - 22_000,
            to_cp: 0,
            feerate: 1000,
            out: vec![],
            inc: vec![H { value_sat: 20_000, hash: 1, cltv: 50 }],
        },
        C::B2 => Content {
            to_holder: CHANNEL_VALUE - 22_000,
            to_cp: 0,
            feerate: 1001,
            out: vec![],
            inc: vec![H { value_sat: 20_000, hash: 1, cltv: 50 }],
        },
    }
}

fn secret_of(d: &DisclosedSecret) -> [u8; 32] {
    d.0
}

impl ChanState {
    fn w(&self) -> &World {
        self.w.as_ref().unwrap()
    }

    fn counters(&self) -> Option<(u64, u64, u64)> {
        self.w().peek_chan(DBID, |c| {
            (
                c.enforcement_state.next_holder_commit_num,
                c.enforcement_state.next_counterparty_commit_num,
                c.enforcement_state.next_counterparty_revoke_num,
            )
        })
    }

    fn identify_secret(&self, s: &[u8; 32]) -> Option<u64> {
        self.hsecrets.iter().position(|x| x == s).map(|i| i as u64)
    }
}

impl ChanModel {
    fn setup_for(&self, w: &World, cp: &Cp) -> ChannelSetup {
        let ct = if self.cfg.anchors { CommitmentType::AnchorsZeroFeeHtlc } else { CommitmentType::StaticRemoteKey };
        w.default_setup(cp, DBID, self.cfg.outbound, ct)
    }

    fn disclosed(&self, s: &mut ChanState, secret: &[u8; 32], op: &Op, vios: &mut Vec<Vio>) {
        let kind = op.kind();
        match s.identify_secret(secret) {
            None => vios.push(Vio {
                prop: "C01",
                key: format!("C01:unknown-secret-disclosed:{}", kind),
                what: format!("{:?} returned a secret that is not one of the channel's first {} per-commitment secrets", op, s.hsecrets.len()),
            }),
            Some(m) => {
                // C01
                if !s.ghost.is_setup {
                    vios.push(Vio {
                        prop: "C01",
                        key: format!("C01:stub-disclosed-secret:{}", kind),
                        what: format!("{:?} disclosed secret {} of a channel that is not set up", op, m),
                    });
                }
                if !s.ghost.accepted.contains(&(m + 1)) {
                    vios.push(Vio {
                        prop: "C01",
                        key: format!("C01:secret-without-accepted-successor:{}:pv{}", kind, self.cfg.pv),
                        what: format!(
                            "{:?} disclosed secret of holder commitment {} but commitment {} was never accepted with valid counterparty signatures (accepted={:?})",
                            op, m, m + 1, s.ghost.accepted
                        ),
                    });
                }
                // C02
                let newly = !s.ghost.disclosed.contains(&m);
                if !newly {
                    // re-disclosure of an already disclosed secret is allowed by C02
                } else if let Some(by) = s.ghost.signed.get(&m) {
                    vios.push(Vio {
                        prop: "C02",
                        key: format!("C02:signed-then-revoked:sign={}:disclose={}", by, kind),
                        what: format!("holder commitment {} was signed for broadcast by {} and its revocation secret is now disclosed by {:?}", m, by, op),
                    });
                } else if newly && !s.ghost.signed.is_empty() {
                    let (sn, by) = s.ghost.signed.iter().next().unwrap();
                    vios.push(Vio {
                        prop: "C02",
                        key: format!("C02:new-disclosure-after-sign:sign={}:disclose={}", by, kind),
                        what: format!("after releasing a signature on holder commitment {} (by {}), {:?} disclosed the not-yet-disclosed secret {}", sn, by, op, m),
                    });
                }
                s.ghost.disclosed.insert(m);
            }
        }
    }

    /// which holder commitment does this signature sign?  (verify against harness-built txs)
    fn identify_signed(&self, s: &ChanState, sig: &lightning_signer::bitcoin::secp256k1::ecdsa::Signature) -> Option<(u64, C)> {
        let p = s.params.as_ref()?;
        for n in 0..(self.cfg.k + 3) {
            let point = s.w().holder_point_raw(DBID, n)?;
            for c in [C::A, C::B, C::B2] {
                let (ctx, _) = p.holder_commitment(n, &point, &content(c, n));
                let tx = ctx.trust().built_transaction().transaction.clone();
                if verify_sig(&p.commitment_sighash(&tx), sig, &p.holder_pubkeys.funding_pubkey) {
                    return Some((n, c));
                }
            }
        }
        None
    }

    fn signed(&self, s: &mut ChanState, sig: &lightning_signer::bitcoin::secp256k1::ecdsa::Signature, op: &Op, vios: &mut Vec<Vio>) {
        let kind = op.kind();
        match self.identify_signed(s, sig) {
            None => vios.push(Vio {
                prop: "C02",
                key: format!("C02:signed-unrecognised-transaction:{}", kind),
                what: format!("{:?} returned a signature that verifies against none of the holder commitments (n<{}, contents A/B/B2) built by the harness", op, self.cfg.k + 3),
            }),
            Some((n, _c)) => {
                if s.ghost.disclosed.contains(&n) {
                    vios.push(Vio {
                        prop: "C02",
                        key: format!("C02:revoked-then-signed:sign={}", kind),
                        what: format!("{:?} signed holder commitment {} whose revocation secret was already disclosed", op, n),
                    });
                }
                s.ghost.signed.entry(n).or_insert_with(|| kind.to_string());
            }
        }
    }

    fn validate_msg(&self, s: &ChanState, n: u64, c: C, sv: S) -> Option<(Content, model::BitcoinSignature, Vec<model::BitcoinSignature>)> {
        let p = s.params.as_ref()?;
        let point = s.w().holder_point_raw(DBID, n)?;
        let cont = content(c, n);
        let sign_content = match sv {
            S::OtherContent => content(if c == C::A { C::B } else { C::A }, n),
            _ => cont.clone(),
        };
        let (mut sig, mut hsigs) = if sv == S::PreviousNumber {
            if n == 0 {
                return None;
            }
            let prev_point = s.w().holder_point_raw(DBID, n - 1)?;
            p.cp_sign_holder_commitment(&s.cp, n - 1, &prev_point, &content(c, n - 1))
        } else {
            p.cp_sign_holder_commitment(&s.cp, n, &point, &sign_content)
        };
        if sv == S::OtherContent {
            // the number of HTLC signatures must match the claimed content
            let want = cont.out.len() + cont.inc.len();
            while hsigs.len() < want {
                hsigs.push(sig);
            }
            hsigs.truncate(want);
        }
        if sv == S::BadCommitSig {
            // a valid signature by the wrong key
            let (s2, _) = p.cp_sign_holder_commitment(&Cp::new(90), n, &point, &cont);
            sig = s2;
        }
        if sv == S::BadHtlcSig {
            if hsigs.is_empty() {
                return None;
            }
            let (_, h2) = p.cp_sign_holder_commitment(&Cp::new(90), n, &point, &cont);
            hsigs[0] = h2[0];
        }
        if sv == S::MissingHtlcSig {
            if hsigs.is_empty() {
                return None;
            }
            hsigs.pop();
        }
        let hst = if p.setup.is_anchors() { EcdsaSighashType::SinglePlusAnyoneCanPay } else { EcdsaSighashType::All };
        Some((
            cont,
            sig_to_wire(&sig, EcdsaSighashType::All),
            hsigs.iter().map(|h| sig_to_wire(h, hst)).collect(),
        ))
    }

    /// C18 on the request path: a per-commitment point that a reply hands out for commitment
    /// `number` is the key material's point for that number, whatever the counters are
    fn point_handed_out(&self, s: &ChanState, number: u64, p: &vls_protocol::model::PubKey, op: &Op, vios: &mut Vec<Vio>) {
        if let Some(want) = s.hpoints.get(number as usize) {
            if p.0 != *want {
                let is = s.hpoints.iter().position(|x| *x == p.0);
                vios.push(Vio {
                    prop: "C18",
                    key: format!("C18:request-path:reply-point-differs-from-key-material:{}", op.kind()),
                    what: format!("{:?} answered with a per-commitment point for commitment {} that is {}", op, number, match is { Some(i) => format!("the point of commitment {}", i), None => "none of the channel's points".to_string() }),
                });
            }
        }
    }

    fn handle_validate_reply(&self, s: &mut ChanState, n: u64, sv: S, r: &Outcome<Message>, op: &Op, vios: &mut Vec<Vio>) {
        if let Outcome::Ok(m) = r {
            if sv == S::Valid {
                s.ghost.accepted.insert(n);
            } else {
                vios.push(Vio {
                    prop: "C01",
                    key: format!("C01:accepted-invalid-signature:{}:{:?}", op.kind(), sv),
                    what: format!("{:?} was accepted although the counterparty signatures are invalid ({:?})", op, sv),
                });
            }
            if let Message::ValidateCommitmentTxReply(rep) = m {
                if let Some(sec) = &rep.old_commitment_secret {
                    let b = secret_of(sec);
                    self.disclosed(s, &b, op, vios);
                }
                // the point that follows the validated commitment
                self.point_handed_out(s, n + 1, &rep.next_per_commitment_point, op, vios);
            }
        }
    }
}

fn psbt_with_witscripts(tx: &lightning_signer::bitcoin::Transaction, scripts: &[ScriptBuf]) -> Psbt {
    let mut psbt = Psbt::from_unsigned_tx(tx.clone()).unwrap();
    for (i, sc) in scripts.iter().enumerate() {
        if !sc.is_empty() {
            psbt.outputs[i].witness_script = Some(sc.clone());
        }
    }
    psbt
}

impl Model for ChanModel {
    type Op = Op;
    type State = ChanState;

    fn cfg_json(&self) -> Value {
        serde_json::to_value(&self.cfg).unwrap()
    }

    fn name(&self) -> String {
        format!(
            "chanfsm(pv={},{},{},k={},{:?}{})",
            self.cfg.pv,
            if self.cfg.anchors { "anchors" } else { "static" },
            if self.cfg.outbound { "outbound" } else { "inbound" },
            self.cfg.k,
            self.cfg.side,
            if self.cfg.cloud { ",cloud-store" } else { "" }
        ) + if self.cfg.onchain { ",on-chain validator" } else { "" } + if self.cfg.backup { ",backup persister" } else { "" } + if self.cfg.filtered { ",policy filter on unrelated tags" } else { "" } + if self.cfg.oldcp { ",testnet store from an older checkpoint" } else { "" }
    }

    fn init(&self) -> ChanState {
        let mut cfg = WorldCfg::default();
        cfg.pv = self.cfg.pv;
        cfg.cloud = self.cfg.cloud;
        cfg.onchain = self.cfg.onchain;
        cfg.backup = self.cfg.backup;
        if self.cfg.oldcp {
            cfg.network = lightning_signer::bitcoin::Network::Testnet;
            cfg.old_checkpoint = true;
        }
        if self.cfg.filtered {
            cfg.policy = Some(crate::txbase::policy_with(|p| {
                p.filter = crate::txbase::unrelated_filter(&["policy-commitment", "policy-revoke", "policy-channel", "policy-mutual", "policy-onchain"]);
            }));
        }
        if self.cfg.onchain {
            cfg.oracle_pubkeys = vec![crate::chain::oracle_pub(0)];
        }
        let w = World::new(cfg);
        let cp = Cp::new(100);
        let r = w.new_channel(DBID);
        assert!(r.is_ok(), "new_channel: {:?}", r.tag());
        let mut setup = self.setup_for(&w, &cp);
        let mut funding = None;
        if self.cfg.onchain {
            // a first block, so that proofs are checked from then on, and a funding transaction
            // that can really be put on chain
            let mut chain = w.new_sim_chain();
            let b = crate::chain::make_block(&chain.tip().0, chain.height() + 1, 0, vec![]);
            assert!(w.connect(&mut chain, b, crate::chain::Delivery::Compact).is_ok());
            let hp = w.holder_basepoints(DBID).unwrap();
            let script = ChanParams { setup: setup.clone(), holder_pubkeys: hp }.funding_redeemscript().to_p2wsh();
            let ftx = crate::chain::simple_tx(
                vec![lightning_signer::bitcoin::OutPoint { txid: lightning_signer::bitcoin::Txid::from_raw_hash(lightning_signer::bitcoin::hashes::Hash::from_byte_array([0x71; 32])), vout: 0 }],
                vec![(setup.channel_value_sat, script)],
                0,
            );
            setup.funding_outpoint = lightning_signer::bitcoin::OutPoint { txid: ftx.compute_txid(), vout: 0 };
            funding = Some((ftx, chain));
        }
        w.end_request();
        let hsecrets = (0..self.cfg.k + 6)
            .map(|n| w.holder_secret_raw(DBID, n).unwrap().secret_bytes())
            .collect();
        let hpoints = (0..self.cfg.k + 6).map(|n| w.holder_point_raw(DBID, n).unwrap().serialize()).collect();
        ChanState { w: Some(w), cp, setup, params: None, ghost: Ghost::default(), dead: false, hsecrets, hpoints, funding }
    }

    fn alive(&self, s: &ChanState) -> bool {
        !s.dead
    }

    fn prune_after(&self, v: &Vio) -> bool {
        self.cfg.monitors && (v.prop == "C10" || v.prop == "C11")
    }

    fn ops(&self, s: &ChanState) -> Vec<Op> {
        let mut v = vec![];
        let k = self.cfg.k;
        if !s.ghost.is_setup {
            v.push(Op::Setup);
            v.push(Op::Restart);
            // stub states: everything that could disclose something
            for n in [0u64, 1, 2] {
                if self.cfg.pv < 6 {
                    v.push(Op::GetPoint(n));
                }
                v.push(Op::GetPoint2(n));
            }
            if self.cfg.core_letters {
                for n in [0u64, 1] {
                    v.push(Op::CoreSecret(n));
                    v.push(Op::CoreSecretOrNone(n));
                }
            }
            return v;
        }
        let (nh, nc, nr) = s.counters().unwrap_or((0, 0, 0));
        // Counter cap: a state whose counters exceed k is terminal.  The transition *into* it is
        // executed and checked like any other, it just has no successors.
        if nh > k || nc > k {
            return v;
        }
        v.push(Op::Restart);
        match self.cfg.side {
            Side::Holder => {
                let rel = |d: i64| -> Option<u64> {
                    let x = nh as i64 + d;
                    if x >= 0 { Some(x as u64) } else { None }
                };
                for d in [-1i64, 0, 1, 2] {
                    if let Some(n) = rel(d) {
                        if self.cfg.pv < 6 {
                            v.push(Op::GetPoint(n));
                        }
                        v.push(Op::GetPoint2(n));
                    }
                }
                let can_advance = true;
                for d in [-2i64, -1, 0, 1] {
                    if let Some(n) = rel(d) {
                        if d >= 0 && !can_advance {
                            continue;
                        }
                        for c in [C::A, C::B] {
                            for sv in [S::Valid, S::BadCommitSig, S::BadHtlcSig, S::OtherContent, S::MissingHtlcSig, S::PreviousNumber] {
                                if d == -2 && sv != S::Valid {
                                    continue;
                                }
                                if sv == S::PreviousNumber && (d != 0 || n == 0) {
                                    continue;
                                }
                                if (sv == S::BadHtlcSig || sv == S::MissingHtlcSig) && c == C::A {
                                    continue;
                                }
                                v.push(Op::Validate(n, c, sv));
                            }
                        }
                    }
                }
                if self.cfg.phase1 && can_advance {
                    for c in [C::A, C::B] {
                        v.push(Op::Validate1(nh, c));
                        if nh >= 1 {
                            v.push(Op::Validate1Replay(nh, c));
                        }
                    }
                }
                if self.cfg.pv >= 5 {
                    for d in [-2i64, -1, 0] {
                        if let Some(n) = rel(d) {
                            if d == -1 && !can_advance {
                                // Revoke(nh-1) advances the counter to nh+1
                                continue;
                            }
                            v.push(Op::Revoke(n));
                        }
                    }
                }
                for d in [-2i64, -1, 0] {
                    if let Some(n) = rel(d) {
                        v.push(Op::SignLocal(n));
                    }
                }
                if let Some(n) = rel(-1) {
                    v.push(Op::SignLocalRoot(n));
                }
                v.push(Op::MutualClose);
                if self.cfg.core_letters {
                    for d in [-2i64, -1, 0] {
                        if let Some(n) = rel(d) {
                            v.push(Op::CoreSecret(n));
                            v.push(Op::CoreSecretOrNone(n));
                        }
                    }
                    for d in [-1i64, 0, 1] {
                        if let Some(n) = rel(d) {
                            if d == 0 && !can_advance {
                                continue;
                            }
                            v.push(Op::CoreRevoke(n));
                        }
                    }
                    v.push(Op::Activate);
                    v.push(Op::SignRecovery);
                    for d in [-2i64, -1, 0, 1] {
                        if let Some(n) = rel(d) {
                            for c in [C::A, C::B] {
                                v.push(Op::SignRedundant(n, c));
                            }
                        }
                    }
                    if let Some(n) = rel(0) {
                        v.push(Op::CheckFuture(n));
                    }
                }
            }
            Side::Cp => {
                let can_advance = true;
                for d in [-1i64, 0, 1] {
                    let x = nc as i64 + d;
                    if x < 0 {
                        continue;
                    }
                    let n = x as u64;
                    if d >= 0 && !can_advance {
                        continue;
                    }
                    // point kinds: 0 = from the BOLT-3 tree, 1 = outside the tree (one per number),
                    // 2 = outside the tree and the same for every number
                    for rogue in [0u8, 1, 2] {
                        for c in [C::A, C::B, C::B2] {
                            v.push(Op::SignCp(n, rogue, c));
                        }
                    }
                }
                if self.cfg.phase1 && can_advance {
                    for c in [C::A, C::B] {
                        v.push(Op::SignCp1(nc, c));
                    }
                }
                for d in [-1i64, 0, 1] {
                    let x = nr as i64 + d;
                    if x < 0 {
                        continue;
                    }
                    for xx in [X::Matching, X::TreeAlthoughRogue, X::Previous, X::FutureTree, X::Unrelated] {
                        v.push(Op::ValidateRev(x as u64, xx));
                    }
                }
            }
        }
        v
    }

    fn key(&self, s: &ChanState) -> String {
        let snap = s.w().snapshot();
        format!("{}|{}", fp(&snap), serde_json::to_string(&s.ghost).unwrap())
    }

    fn apply(&self, s: &mut ChanState, op: &Op, check: bool, vios: &mut Vec<Vio>) {
        if s.dead {
            return;
        }
        let check = check && self.cfg.monitors;
        let before = if check { Some(s.w().snapshot()) } else { None };
        let mut outcome_tag = String::new();
        let kind = op.kind();
        match op {
            Op::Restart => {
                let w = s.w.take().unwrap();
                match catch(move || w.restart()) {
                    Ok(w2) => s.w = Some(w2),
                    Err(p) => {
                        vios.push(Vio { prop: "C11", key: "C11:restart-panics".into(), what: format!("restart panicked: {} at {}", p, last_panic_loc()) });
                        s.dead = true;
                        return;
                    }
                }
                outcome_tag = "ok".into();
            }
            Op::Setup => {
                // protocol version 5 configurations set the channel up by the SetupChannel message
                let r = if self.cfg.pv == 5 && !self.cfg.cloud { s.w().setup_channel_wire(DBID, &s.setup) } else { s.w().setup_channel(DBID, &s.setup) };
                outcome_tag = r.tag();
                if r.is_ok() {
                    let first = !s.ghost.is_setup;
                    s.ghost.is_setup = true;
                    let hp = s.w().holder_basepoints(DBID).unwrap();
                    s.params = Some(ChanParams { setup: s.setup.clone(), holder_pubkeys: hp });
                    if first {
                        // on-chain configurations: the funding transaction confirms right away
                        if let Some((ftx, chain)) = s.funding.as_mut() {
                            let b = crate::chain::make_block(&chain.tip().0, chain.height() + 1, 1, vec![ftx.clone()]);
                            let w = s.w.as_ref().unwrap();
                            let rb = w.connect(chain, b, crate::chain::Delivery::Compact);
                            if !rb.is_ok() {
                                s.dead = true;
                            }
                        }
                    }
                }
            }
            Op::GetPoint(n) => {
                let r = s.w().chan_msg(DBID, Message::GetPerCommitmentPoint(msgs::GetPerCommitmentPoint { commitment_number: *n }));
                outcome_tag = r.tag();
                if let Outcome::Ok(Message::GetPerCommitmentPointReply(rep)) = &r {
                    if let Some(sec) = &rep.secret {
                        let b = secret_of(sec);
                        self.disclosed(s, &b, op, vios);
                    }
                    self.point_handed_out(s, *n, &rep.point, op, vios);
                }
            }
            Op::GetPoint2(n) => {
                let r = s.w().chan_msg(DBID, Message::GetPerCommitmentPoint2(msgs::GetPerCommitmentPoint2 { commitment_number: *n }));
                outcome_tag = r.tag();
                if let Outcome::Ok(Message::GetPerCommitmentPoint2Reply(rep)) = &r {
                    self.point_handed_out(s, *n, &rep.point, op, vios);
                }
            }
            Op::Validate(n, c, sv) => {
                if let Some((cont, sig, hsigs)) = self.validate_msg(s, *n, *c, *sv) {
                    let m = msgs::ValidateCommitmentTx2 {
                        commitment_number: *n,
                        feerate: cont.feerate,
                        to_local_value_sat: cont.to_holder,
                        to_remote_value_sat: cont.to_cp,
                        htlcs: Array(cont.wire_htlcs()),
                        signature: sig,
                        htlc_signatures: Array(hsigs),
                    };
                    let r = s.w().chan_msg(DBID, Message::ValidateCommitmentTx2(m));
                    outcome_tag = r.tag();
                    self.handle_validate_reply(s, *n, *sv, &r, op, vios);
                } else {
                    outcome_tag = "skipped".into();
                }
            }
            Op::Validate1(n, c) | Op::Validate1Replay(n, c) => {
                let sv1 = if matches!(op, Op::Validate1Replay(..)) { S::PreviousNumber } else { S::Valid };
                if let Some((cont, sig, hsigs)) = self.validate_msg(s, *n, *c, sv1) {
                    let p = s.params.as_ref().unwrap();
                    let point = s.w().holder_point_raw(DBID, *n).unwrap();
                    let (ctx, keys) = p.holder_commitment(*n, &point, &cont);
                    let tx = ctx.trust().built_transaction().transaction.clone();
                    let txp = p.tx_params();
                    let scripts = build_tx_scripts(
                        &keys,
                        cont.to_holder,
                        cont.to_cp,
                        ctx.htlcs(),
                        &txp.as_holder_broadcastable(),
                        &p.holder_pubkeys.funding_pubkey,
                        &p.setup.counterparty_points.funding_pubkey,
                    )
                    .unwrap();
                    let psbt = psbt_with_witscripts(&tx, &scripts);
                    let m = msgs::ValidateCommitmentTx {
                        tx: WithSize(tx),
                        psbt: WithSize(PsbtWrapper { inner: psbt }),
                        htlcs: Array(cont.wire_htlcs()),
                        commitment_number: *n,
                        feerate: cont.feerate,
                        signature: sig,
                        htlc_signatures: Array(hsigs),
                    };
                    let r = s.w().chan_msg(DBID, Message::ValidateCommitmentTx(m));
                    outcome_tag = r.tag();
                    self.handle_validate_reply(s, *n, sv1, &r, op, vios);
                } else {
                    outcome_tag = "skipped".into();
                }
            }
            Op::Revoke(n) => {
                let r = s.w().chan_msg(DBID, Message::RevokeCommitmentTx(msgs::RevokeCommitmentTx { commitment_number: *n }));
                outcome_tag = r.tag();
                if let Outcome::Ok(Message::RevokeCommitmentTxReply(rep)) = &r {
                    let b = secret_of(&rep.old_commitment_secret);
                    self.disclosed(s, &b, op, vios);
                    // revoking n makes n + 1 current; the reply carries the point after that
                    self.point_handed_out(s, *n + 2, &rep.next_per_commitment_point, op, vios);
                }
            }
            Op::SignLocal(n) => {
                let r = s.w().chan_msg(DBID, Message::SignLocalCommitmentTx2(msgs::SignLocalCommitmentTx2 { commitment_number: *n }));
                outcome_tag = r.tag();
                if let Outcome::Ok(Message::SignCommitmentTxReply(rep)) = &r {
                    if let Some(sig) = sig_from_wire(&rep.signature) {
                        self.signed(s, &sig, op, vios);
                    }
                }
            }
            Op::SignLocalRoot(n) => {
                // root-level SignCommitmentTx: everything but the number is ignored by the signer;
                // the transaction carries a non-zero locktime so that it is not taken for a close
                let mut tx = lightning_signer::bitcoin::Transaction {
                    version: lightning_signer::bitcoin::transaction::Version::TWO,
                    lock_time: lightning_signer::bitcoin::absolute::LockTime::from_consensus(0x20000001),
                    input: vec![],
                    output: vec![],
                };
                tx.input.push(lightning_signer::bitcoin::TxIn::default());
                let psbt = Psbt::from_unsigned_tx(tx.clone()).unwrap();
                let m = msgs::SignCommitmentTx {
                    peer_id: PubKey(s.w().peer_id()),
                    dbid: DBID,
                    tx: WithSize(tx),
                    psbt: WithSize(PsbtWrapper { inner: psbt }),
                    remote_funding_key: PubKey(s.cp.pubkeys().funding_pubkey.serialize()),
                    commitment_number: *n,
                };
                let r = s.w().root_msg(Message::SignCommitmentTx(m));
                outcome_tag = r.tag();
                if let Outcome::Ok(Message::SignCommitmentTxReply(rep)) = &r {
                    if let Some(sig) = sig_from_wire(&rep.signature) {
                        self.signed(s, &sig, op, vios);
                    }
                }
            }
            Op::CoreSecret(n) => {
                let n = *n;
                let r = s.w().with_base(DBID, |b| b.get_per_commitment_secret(n));
                outcome_tag = r.tag();
                if let Outcome::Ok(sec) = &r {
                    let b = sec.secret_bytes();
                    self.disclosed(s, &b, op, vios);
                }
            }
            Op::CoreSecretOrNone(n) => {
                let n = *n;
                let r = s.w().with_base(DBID, |b| Ok(b.get_per_commitment_secret_or_none(n)));
                outcome_tag = r.tag();
                if let Outcome::Ok(Some(sec)) = &r {
                    let b = sec.secret_bytes();
                    self.disclosed(s, &b, op, vios);
                }
            }
            Op::CoreRevoke(n) => {
                let n = *n;
                let r = s.w().with_chan(DBID, |c| c.revoke_previous_holder_commitment(n));
                outcome_tag = r.tag();
                if let Outcome::Ok((_, Some(sec))) = &r {
                    let b = sec.secret_bytes();
                    self.disclosed(s, &b, op, vios);
                }
            }
            Op::Activate => {
                let r = s.w().with_chan(DBID, |c| c.activate_initial_commitment());
                outcome_tag = r.tag();
            }
            Op::SignRecovery => {
                let r = s.w().with_chan(DBID, |c| c.sign_holder_commitment_tx_for_recovery(1000, &[]));
                outcome_tag = r.tag();
                if let Outcome::Ok((tx, _, _, _, _)) = &r {
                    // witness: [empty, sig_a, sig_b, redeemscript]; find the holder's signature
                    let p = s.params.clone().unwrap();
                    let mut found = false;
                    for el in tx.input[0].witness.iter() {
                        if el.len() > 60 && el.len() < 75 {
                            if let Ok(sig) = lightning_signer::bitcoin::secp256k1::ecdsa::Signature::from_der(&el[..el.len() - 1]) {
                                let mut t2 = tx.clone();
                                t2.input[0].witness.clear();
                                if verify_sig(&p.commitment_sighash(&t2), &sig, &p.holder_pubkeys.funding_pubkey) {
                                    found = true;
                                    self.signed(s, &sig, op, vios);
                                }
                            }
                        }
                    }
                    if !found {
                        vios.push(Vio { prop: "C02", key: "C02:recovery-tx-without-holder-signature".into(), what: "recovery transaction carries no signature by the holder funding key over itself".into() });
                    }
                }
            }
            Op::SignRedundant(n, c) => {
                let (n, cont) = (*n, content(*c, *n));
                let r = s.w().with_chan(DBID, |ch| {
                    ch.sign_holder_commitment_tx_phase2_redundant(n, cont.feerate, cont.to_holder, cont.to_cp, cont.out_info(), cont.inc_info())
                });
                outcome_tag = r.tag();
                if let Outcome::Ok(sig) = &r {
                    let sig = *sig;
                    self.signed(s, &sig, op, vios);
                }
            }
            Op::MutualClose => {
                // pay the holder its current balance to a wallet address (path [0])
                let to_holder = s.w().peek_chan(DBID, |c| c.enforcement_state.current_holder_commit_info.as_ref().map(|i| i.to_broadcaster_value_sat)).flatten();
                if let Some(v) = to_holder {
                    use lightning_signer::wallet::Wallet;
                    let path: DerivationPath = vec![lightning_signer::bitcoin::bip32::ChildNumber::from_normal_idx(0).unwrap()].into();
                    let addr = s.w().node.get_native_address(&path).unwrap();
                    let m = msgs::SignMutualCloseTx2 {
                        to_local_value_sat: v - 500,
                        to_remote_value_sat: 0,
                        local_script: addr.script_pubkey().to_bytes().into(),
                        remote_script: vec![].into(),
                        local_wallet_path_hint: vec![0u32].into(),
                    };
                    let r = s.w().chan_msg(DBID, Message::SignMutualCloseTx2(m));
                    outcome_tag = r.tag();
                } else {
                    outcome_tag = "skipped".into();
                }
            }
            Op::CheckFuture(n) => {
                let n = *n;
                let sec = SecretKey::from_slice(&s.hsecrets[n as usize]).unwrap();
                let r = s.w().chan_msg(DBID, Message::CheckFutureSecret(msgs::CheckFutureSecret { commitment_number: n, secret: model::DisclosedSecret(sec.secret_bytes()) }));
                outcome_tag = r.tag();
            }
            Op::SignCp(n, rogue, c) => {
                let point = cp_point(&s.cp, *rogue, *n);
                let cont = content(*c, *n);
                let m = msgs::SignRemoteCommitmentTx2 {
                    remote_per_commitment_point: PubKey(point.serialize()),
                    commitment_number: *n,
                    feerate: cont.feerate,
                    to_local_value_sat: cont.to_holder,
                    to_remote_value_sat: cont.to_cp,
                    htlcs: Array(cont.wire_htlcs()),
                };
                let r = s.w().chan_msg(DBID, Message::SignRemoteCommitmentTx2(m));
                outcome_tag = r.tag();
                if let Outcome::Ok(Message::SignCommitmentTxWithHtlcsReply(rep)) = &r {
                    self.cp_signed(s, *n, *rogue, *c, &point, sig_from_wire(&rep.signature), op, vios);
                }
            }
            Op::SignCp1(n, c) => {
                let point = s.cp.point(*n);
                let cont = content(*c, *n);
                let p = s.params.as_ref().unwrap();
                let (ctx, keys) = p.counterparty_commitment(*n, &point, &cont);
                let tx = ctx.trust().built_transaction().transaction.clone();
                let txp = p.tx_params();
                let scripts = build_tx_scripts(
                    &keys,
                    cont.to_cp,
                    cont.to_holder,
                    ctx.htlcs(),
                    &txp.as_counterparty_broadcastable(),
                    &p.setup.counterparty_points.funding_pubkey,
                    &p.holder_pubkeys.funding_pubkey,
                )
                .unwrap();
                let psbt = psbt_with_witscripts(&tx, &scripts);
                let m = msgs::SignRemoteCommitmentTx {
                    tx: WithSize(tx),
                    psbt: WithSize(PsbtWrapper { inner: psbt }),
                    remote_funding_key: PubKey(p.setup.counterparty_points.funding_pubkey.serialize()),
                    remote_per_commitment_point: PubKey(point.serialize()),
                    option_static_remotekey: true,
                    commitment_number: *n,
                    htlcs: Array(cont.wire_htlcs()),
                    feerate: cont.feerate,
                };
                let r = s.w().chan_msg(DBID, Message::SignRemoteCommitmentTx(m));
                outcome_tag = r.tag();
                if let Outcome::Ok(Message::SignTxReply(rep)) = &r {
                    self.cp_signed(s, *n, 0, *c, &point, sig_from_wire(&rep.signature), op, vios);
                }
            }
            Op::ValidateRev(n, x) => {
                let n = *n;
                let signed = s.ghost.cp_signed.get(&n).cloned();
                let secret = match x {
                    X::Matching => match signed {
                        Some((1, _)) => s.cp.rogue_secret(n),
                        Some((2, _)) => s.cp.rogue_secret(FIXED_POINT),
                        _ => s.cp.secret(n),
                    },
                    X::TreeAlthoughRogue => s.cp.secret(n),
                    X::Previous => if n > 0 { s.cp.secret(n - 1) } else { s.cp.secret(5) },
                    X::FutureTree => s.cp.secret(n + 1),
                    X::Unrelated => sk(250),
                };
                let m = msgs::ValidateRevocation { commitment_number: n, commitment_secret: DisclosedSecret(secret.secret_bytes()) };
                let r = s.w().chan_msg(DBID, Message::ValidateRevocation(m));
                outcome_tag = r.tag();
                if r.is_ok() {
                    self.cp_revocation_accepted(s, n, &secret, op, vios);
                }
            }
        }
        if outcome_tag == "panic" {
            // mutexes may be poisoned; the world is discarded (DESIGN 2.5)
            s.dead = true;
            return;
        }
        if !matches!(op, Op::Restart) {
            end_cloud_request(s.w(), kind, &outcome_tag, check, vios);
        }
        if check && outcome_tag != "skipped" {
            if outcome_tag.starts_with("err:") {
                let after = s.w().snapshot();
                refusal_monitor(before.as_ref().unwrap(), &after, kind, &outcome_tag[4..], vios);
            }
            if !matches!(op, Op::Restart) {
                durability_monitor(s.w(), kind, &outcome_tag, vios);
            }
        }
    }
}

impl ChanModel {
    fn cp_signed(
        &self,
        s: &mut ChanState,
        n: u64,
        rogue: u8,
        c: C,
        point: &PublicKey,
        sig: Option<lightning_signer::bitcoin::secp256k1::ecdsa::Signature>,
        op: &Op,
        vios: &mut Vec<Vio>,
    ) {
        let kind = op.kind();
        // the signature must be over the harness-built transaction (light C04 cross-check)
        if let (Some(sig), Some(p)) = (sig, s.params.as_ref()) {
            let (ctx, _) = p.counterparty_commitment(n, point, &content(c, n));
            let tx = ctx.trust().built_transaction().transaction.clone();
            if !verify_sig(&p.commitment_sighash(&tx), &sig, &p.holder_pubkeys.funding_pubkey) {
                vios.push(Vio {
                    prop: "C03",
                    key: format!("C03:signature-not-over-requested-commitment:{}", kind),
                    what: format!("{:?}: returned signature does not verify against the counterparty commitment the harness built for the request", op),
                });
            }
        }
        match s.ghost.cp_signed.get(&n) {
            Some((r0, c0)) => {
                if *r0 != rogue || *c0 != c {
                    vios.push(Vio {
                        prop: "C03",
                        key: format!("C03:resigned-with-different-point-or-content:{}:{}", kind, if *r0 != rogue { "point" } else { "content" }),
                        what: format!("{:?}: commitment {} was already signed with (rogue={}, {:?}) and is now signed again with (rogue={}, {:?})", op, n, r0, c0, rogue, c),
                    });
                }
            }
            None => {
                // new signature: every commitment below n-1 must be revoked
                for m in 0..n.saturating_sub(1) {
                    if !s.ghost.cp_revoked.contains(&m) {
                        vios.push(Vio {
                            prop: "C03",
                            key: format!("C03:signed-over-unrevoked-predecessor:{}", kind),
                            what: format!("{:?}: signed new counterparty commitment {} while commitment {} is not revoked (revoked={:?})", op, n, m, s.ghost.cp_revoked),
                        });
                        break;
                    }
                }
                s.ghost.cp_signed.insert(n, (rogue, c));
                let unrevoked = s.ghost.cp_signed.keys().filter(|k| !s.ghost.cp_revoked.contains(k)).count();
                if unrevoked > 2 {
                    vios.push(Vio {
                        prop: "C03",
                        key: format!("C03:more-than-two-unrevoked-signed:{}", kind),
                        what: format!("{:?}: {} unrevoked counterparty commitments carry the signer's signature", op, unrevoked),
                    });
                }
            }
        }
    }

    fn cp_revocation_accepted(&self, s: &mut ChanState, n: u64, secret: &SecretKey, op: &Op, vios: &mut Vec<Vio>) {
        let kind = op.kind();
        let supplied = PublicKey::from_secret_key(&secp(), secret);
        let expected = match s.ghost.cp_signed.get(&n) {
            Some((k, _)) => Some(cp_point(&s.cp, *k, n)),
            None => None,
        };
        match expected {
            None => vios.push(Vio {
                prop: "C03",
                key: format!("C03:revocation-accepted-for-unsigned-commitment:{}", kind),
                what: format!("{:?}: accepted a revocation for commitment {} that was never signed", op, n),
            }),
            Some(p) if p != supplied => vios.push(Vio {
                prop: "C03",
                key: format!("C03:revocation-accepted-with-wrong-point:{}", kind),
                what: format!("{:?}: accepted a secret whose point differs from the point signed for commitment {}", op, n),
            }),
            _ => {}
        }
        // BOLT-3 consistency with all earlier accepted secrets (naive reference: keep everything)
        let mut all = s.ghost.cp_secrets.clone();
        all.insert(n, secret.secret_bytes());
        if !crate::secretstore::naive_consistent(&all) {
            vios.push(Vio {
                prop: "C03",
                key: format!("C03:revocation-accepted-inconsistent-with-tree:{}", kind),
                what: format!("{:?}: accepted secret for commitment {} is not consistent with earlier accepted secrets under the BOLT-3 tree", op, n),
            });
        }
        s.ghost.cp_secrets.insert(n, secret.secret_bytes());
        s.ghost.cp_revoked.insert(n);
    }
}

// ------------------------------------------------------------------------------------------
// drivers
// ------------------------------------------------------------------------------------------

pub struct ChanRun {
    pub stats: BfsStats,
    pub found: Vec<Found>,
    pub models: Vec<String>,
}

pub fn configs(tier: Tier, side: Side, monitors: bool) -> Vec<ChanCfg> {
    let mut v = vec![];
    match (tier, side) {
        (Tier::Quick, Side::Holder) => {
            v.push(ChanCfg { pv: 6, anchors: false, outbound: true, k: 2, side, core_letters: true, phase1: false, monitors, cloud: false, onchain: false, backup: false, filtered: false, oldcp: false });
            v.push(ChanCfg { pv: 5, anchors: true, outbound: true, k: 2, side, core_letters: false, phase1: true, monitors, cloud: false, onchain: false, backup: false, filtered: false, oldcp: false });
            v.push(ChanCfg { pv: 4, anchors: false, outbound: true, k: 2, side, core_letters: false, phase1: false, monitors, cloud: false, onchain: false, backup: false, filtered: false, oldcp: false });
            if !monitors {
                v.push(ChanCfg { pv: 6, anchors: false, outbound: true, k: 2, side, core_letters: true, phase1: false, monitors, cloud: false, onchain: true, backup: false, filtered: false, oldcp: false });
                v.push(ChanCfg { pv: 6, anchors: false, outbound: true, k: 2, side, core_letters: true, phase1: true, monitors, cloud: false, onchain: false, backup: false, filtered: true, oldcp: false });
            }
        }
        (Tier::Thorough, Side::Holder) => {
            for pv in [4u32, 5, 6] {
                for anchors in [false, true] {
                    v.push(ChanCfg { pv, anchors, outbound: true, k: 3, side, core_letters: true, phase1: true, monitors, cloud: false, onchain: false, backup: false, filtered: false, oldcp: false });
                }
            }
            v.push(ChanCfg { pv: 6, anchors: false, outbound: false, k: 3, side, core_letters: true, phase1: true, monitors, cloud: false, onchain: false, backup: false, filtered: false, oldcp: false });
            v.push(ChanCfg { pv: 6, anchors: false, outbound: true, k: 3, side, core_letters: true, phase1: true, monitors, cloud: false, onchain: true, backup: false, filtered: false, oldcp: false });
            v.push(ChanCfg { pv: 5, anchors: true, outbound: true, k: 3, side, core_letters: true, phase1: true, monitors, cloud: false, onchain: true, backup: false, filtered: false, oldcp: false });
        }
        (Tier::Quick, Side::Cp) => {
            v.push(ChanCfg { pv: 6, anchors: false, outbound: true, k: 3, side, core_letters: false, phase1: false, monitors, cloud: false, onchain: false, backup: false, filtered: false, oldcp: false });
            if !monitors {
                v.push(ChanCfg { pv: 6, anchors: false, outbound: true, k: 2, side, core_letters: false, phase1: true, monitors, cloud: false, onchain: false, backup: false, filtered: true, oldcp: false });
            }
        }
        (Tier::Thorough, Side::Cp) => {
            v.push(ChanCfg { pv: 6, anchors: false, outbound: true, k: 4, side, core_letters: false, phase1: true, monitors, cloud: false, onchain: false, backup: false, filtered: false, oldcp: false });
            v.push(ChanCfg { pv: 6, anchors: true, outbound: true, k: 3, side, core_letters: false, phase1: true, monitors, cloud: false, onchain: false, backup: false, filtered: false, oldcp: false });
        }
    }
    if monitors {
        // the same histories over the transactional store (C10 / C11 clauses about it)
        let k = if side == Side::Cp { 3 } else { 2 };
        v.push(ChanCfg { pv: 6, anchors: false, outbound: true, k, side, core_letters: side == Side::Holder, phase1: tier == Tier::Thorough, monitors, cloud: true, onchain: false, backup: false, filtered: false, oldcp: false });
        // ... on a testnet signer whose store dates from an older built-in checkpoint
        v.push(ChanCfg { pv: 6, anchors: false, outbound: true, k: 2, side, core_letters: false, phase1: false, monitors, cloud: false, onchain: false, backup: false, filtered: false, oldcp: true });
        // ... and through the composite main + backup persister
        v.push(ChanCfg { pv: 6, anchors: false, outbound: true, k, side, core_letters: false, phase1: false, monitors, cloud: false, onchain: false, backup: true, filtered: false, oldcp: false });
    }
    v
}

pub fn explore(tier: Tier, side: Side, monitors: bool, wall_s: f64) -> ChanRun {
    let cfgs = configs(tier, side, monitors);
    let mut stats = BfsStats { closed: true, ..Default::default() };
    let mut found = vec![];
    let mut models = vec![];
    // what a configuration that closes early does not use is available to the later ones
    let t0 = std::time::Instant::now();
    let n = cfgs.len();
    let mut cfgs = cfgs;
    // small ones (old protocol versions) first
    cfgs.sort_by_key(|c| (c.pv >= 6, c.onchain));
    for (i, cfg) in cfgs.into_iter().enumerate() {
        let per = (wall_s - t0.elapsed().as_secs_f64()).max(1.0) / (n - i) as f64;
        let m = ChanModel { cfg };
        let lim = Limits { max_depth: 40, max_states: 2_000_000, wall_s: per };
        let st = bfs(&m, &lim, &mut found);
        models.push(format!("{}: states={} transitions={} closed={} depth={}", m.name(), st.states, st.transitions, st.closed, st.max_depth));
        merge_stats(&mut stats, &st);
    }
    ChanRun { stats, found, models }
}

pub fn replay_ops(v: &Value) -> Vec<Vio> {
    // model string: chanfsm(pv=6,static,outbound,k=2,Holder)
    if let Ok(cfg) = serde_json::from_value::<ChanCfg>(v["cfg"].clone()) {
        let ops: Vec<Op> = serde_json::from_value(v["ops"].clone()).unwrap();
        return crate::vmc::replay(&ChanModel { cfg }, &ops);
    }
    let name = v["model"].as_str().unwrap_or("");
    let inner = name.trim_start_matches("chanfsm(").trim_end_matches(')');
    let parts: Vec<&str> = inner.split(',').collect();
    let cfg = ChanCfg {
        pv: parts[0].trim_start_matches("pv=").parse().unwrap_or(6),
        anchors: parts.get(1) == Some(&"anchors"),
        outbound: parts.get(2) != Some(&"inbound"),
        k: parts.get(3).map(|s| s.trim_start_matches("k=").parse().unwrap_or(3)).unwrap_or(3),
        side: if parts.get(4) == Some(&"Cp") { Side::Cp } else { Side::Holder },
        core_letters: true,
        phase1: true,
        monitors: true,
        cloud: false,
        onchain: false,
        backup: false,
        filtered: false,
        oldcp: false,
    };
    let ops: Vec<Op> = serde_json::from_value(v["ops"].clone()).unwrap();
    let m = ChanModel { cfg };
    crate::vmc::replay(&m, &ops)
}

pub fn describe(found: &Found) -> Value {
    json!({"key": found.vio.key, "what": found.vio.what, "replay": found.replay})
}
