pub mod ev;
pub mod kvvmc;
pub mod velocity;
