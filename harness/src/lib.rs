pub mod lsync {
    pub use lightning_signer::prelude::{Arc, Mutex};
}
pub mod approvers;
pub mod c04;
pub mod c05;
pub mod c07;
pub mod c08;
pub mod c09;
pub mod chain;
pub mod chain13;
pub mod chainmc;
pub mod chanfsm;
#[cfg(vls_verif)]
pub mod concur;
pub mod ev;
pub mod keysrel;
pub mod kvvmc;
pub mod macenum;
pub mod monitors;
pub mod nodemc;
pub mod nodevel;
pub mod payflow;
pub mod props;
pub mod scenario;
pub mod secretstore;
pub mod txbase;
pub mod velocity;
pub mod vmc;
pub mod wire_gen;
pub mod wirert;
pub mod world;
