//! C12 (system part): velocity limits across requests, time and restarts on a real node.
//!
//! Letters: approve a keysend / an invoice / an on-chain transaction with a given amount, advance
//! the manual clock, restart.  Oracle: a sliding window over the log of approvals -- the sum of
//! amounts approved within (N-1) buckets never exceeds the limit, across restarts.

use crate::ev::*;
use crate::monitors::*;
use crate::scenario::wallet_path;
use crate::vmc::*;
use crate::world::*;
use lightning_signer::bitcoin::bip32::DerivationPath;
use lightning_signer::bitcoin::hashes::sha256::Hash as Sha256Hash;
use lightning_signer::bitcoin::hashes::Hash;
use lightning_signer::bitcoin::secp256k1::{PublicKey, SecretKey};
use lightning_signer::bitcoin::{Amount, OutPoint, TxOut, Txid};
use lightning_signer::invoice::Invoice;
use lightning_signer::lightning::types::payment::PaymentSecret;
use lightning_signer::lightning_invoice::{Currency, InvoiceBuilder};
use lightning_signer::policy::simple_validator::make_default_simple_policy;
use lightning_signer::util::velocity::{VelocityControlIntervalType, VelocityControlSpec};
use lightning_signer::wallet::Wallet;
use serde::{Deserialize, Serialize};
use std::time::Duration;

pub const PAY_LIMIT: u64 = 1_000_000; // msat per hour
pub const FEE_LIMIT: u64 = 50_000_000; // msat per hour
pub const BUCKET: u64 = 300;
pub const WINDOW: u64 = 11 * BUCKET;

#[derive(Clone, Debug, PartialEq, Eq, Hash, Serialize, Deserialize)]
pub enum Op {
    Keysend(u8, u64),
    Invoice(u8, u64),
    Onchain(u64),
    Advance(u64),
    Restart,
    /// the most recent invoice / keysend presented again, unchanged
    Retry,
    /// Node::update_velocity_controls with the policy unchanged (runtime policy reload hook)
    Reload,
    /// SignInvoice for one of three invoices to be issued: 0 and 1 share a payment hash and
    /// differ in amount and description (the second one presented is refused), 2 is unrelated
    Issue(u8),
    /// a *different* invoice (other amount) for the payment hash of the most recent invoice, which
    /// was approved and is registered: refused, and a refusal must not touch the velocity window
    Conflict,
}

#[derive(Clone, Default, Debug, Serialize)]
pub struct Ghost {
    /// (time, msat) of approved payments / fees
    pub pay: Vec<(u64, u64)>,
    pub fee: Vec<(u64, u64)>,
    pub next_hash: u8,
    /// the most recent payment request: (invoice?, hash index, msat, creation time, approved?)
    pub last: Option<(bool, u8, u64, u64, bool)>,
}

pub type VApprover = vls_protocol_signer::approver::VelocityApprover<vls_protocol_signer::approver::NegativeApprover>;

pub struct VState {
    /// approver mode: the integrator's velocity approver in front of the node (its delegate
    /// declines everything, so whatever is approved was approved by the velocity control)
    pub approver: Option<VApprover>,
    pub w: Option<World>,
    pub ghost: Ghost,
    pub dead: bool,
    pub nops: usize,
}

#[derive(Clone, Debug, Serialize, Deserialize)]
pub struct VelModel {
    pub max_ops: usize,
    pub monitors: bool,
    /// the node takes its limits from the chain-aware validator factory (as vlsd builds it)
    #[serde(default)]
    pub onchain: bool,
    /// payment requests go through `VelocityApprover<NegativeApprover>::handle_proposed_invoice /
    /// handle_proposed_keysend` with the limit PAY_LIMIT; the node's own limit is four times that,
    /// so the approver's control is the binding one.  On restart the approver's control is carried
    /// over the way its documentation describes (get_state / load_from_state).
    #[serde(default)]
    pub approver: bool,
    /// over the transactional cloud store (prepare / commit after every request)
    #[serde(default)]
    pub cloud: bool,
}

fn approver_spec() -> VelocityControlSpec {
    VelocityControlSpec { limit_msat: PAY_LIMIT, interval_type: VelocityControlIntervalType::Hourly }
}

fn make_approver(w: &World, state: Option<(u64, Vec<u64>)>) -> VApprover {
    use lightning_signer::util::velocity::VelocityControl;
    let control = match state {
        None => VelocityControl::new(approver_spec()),
        Some(st) => VelocityControl::load_from_state(approver_spec(), st),
    };
    let clock: std::sync::Arc<dyn lightning_signer::util::clock::Clock> = w.clock.clone();
    vls_protocol_signer::approver::VelocityApprover::new(clock, control, vls_protocol_signer::approver::NegativeApprover())
}

impl VState {
    fn w(&self) -> &World {
        self.w.as_ref().unwrap()
    }
}

fn cfg() -> WorldCfg {
    let mut c = WorldCfg::default();
    let mut p = make_default_simple_policy(c.network);
    p.global_velocity_control = VelocityControlSpec { limit_msat: PAY_LIMIT, interval_type: VelocityControlIntervalType::Hourly };
    p.fee_velocity_control = VelocityControlSpec { limit_msat: FEE_LIMIT, interval_type: VelocityControlIntervalType::Hourly };
    c.policy = Some(p);
    c
}

pub fn make_invoice(x: u8, amt_msat: u64, now: u64) -> Invoice {
    let payment_hash = Sha256Hash::hash(&[x; 32]);
    let private_key = SecretKey::from_slice(&[42; 32]).unwrap();
    Invoice::Bolt11(
        InvoiceBuilder::new(Currency::Regtest)
            .description("vmc".into())
            .payment_hash(payment_hash)
            .payment_secret(PaymentSecret([x; 32]))
            .duration_since_epoch(Duration::from_secs(now))
            .expiry_time(Duration::from_secs(86_400))
            .min_final_cltv_expiry_delta(144)
            .amount_milli_satoshis(amt_msat)
            .build_signed(|hash| secp().sign_ecdsa_recoverable(hash, &private_key))
            .unwrap(),
    )
}

fn raw_invoice_to_issue(k: u8) -> lightning_signer::lightning_invoice::RawBolt11Invoice {
    let (x, amt, desc) = match k {
        0 => (70u8, 100_000u64, "first"),
        1 => (70, 1_000, "second"),
        _ => (71, 5_000, "other"),
    };
    InvoiceBuilder::new(Currency::Regtest)
        .description(desc.into())
        .payment_hash(Sha256Hash::hash(&[x; 32]))
        .payment_secret(PaymentSecret([x; 32]))
        .duration_since_epoch(Duration::from_secs(START_TIME))
        .expiry_time(Duration::from_secs(86_400))
        .min_final_cltv_expiry_delta(144)
        .amount_milli_satoshis(amt)
        .build_raw()
        .unwrap()
}

fn window_sum(log: &[(u64, u64)], now: u64) -> u128 {
    log.iter().filter(|(t, _)| now - *t <= WINDOW).map(|(_, a)| *a as u128).sum()
}

impl Model for VelModel {
    type Op = Op;
    type State = VState;

    fn cfg_json(&self) -> serde_json::Value {
        serde_json::to_value(self).unwrap()
    }

    fn name(&self) -> String {
        format!("nodevel(ops<={}{}{}{})", self.max_ops, if self.monitors { ",monitors" } else { "" }, if self.onchain { ",on-chain validator factory" } else { "" }, if self.approver { ",velocity approver in front" } else { "" }) + if self.cloud { ",cloud-store" } else { "" }
    }

    fn init(&self) -> VState {
        let mut c = cfg();
        c.onchain = self.onchain;
        c.cloud = self.cloud;
        if self.approver {
            c.policy.as_mut().unwrap().global_velocity_control.limit_msat = 4 * PAY_LIMIT;
        }
        let w = World::new(c);
        let approver = if self.approver { Some(make_approver(&w, None)) } else { None };
        VState { approver, w: Some(w), ghost: Ghost { next_hash: 10, ..Default::default() }, dead: false, nops: 0 }
    }

    fn alive(&self, s: &VState) -> bool {
        !s.dead
    }

    fn prune_after(&self, v: &Vio) -> bool {
        v.prop == "C12" || (self.monitors && (v.prop == "C10" || v.prop == "C11"))
    }

    fn ops(&self, s: &VState) -> Vec<Op> {
        if s.nops >= self.max_ops {
            return vec![];
        }
        let h = s.ghost.next_hash;
        vec![
            Op::Keysend(h, PAY_LIMIT / 2),
            Op::Keysend(h, PAY_LIMIT),
            Op::Keysend(h, PAY_LIMIT / 2 + 1),
            Op::Invoice(h, PAY_LIMIT / 2),
            Op::Invoice(h, PAY_LIMIT),
            Op::Onchain(FEE_LIMIT / 2000),
            Op::Onchain(FEE_LIMIT / 1000),
            Op::Advance(BUCKET),
            Op::Advance(WINDOW),
            Op::Advance(WINDOW + BUCKET),
            Op::Restart,
            Op::Reload,
        ]
        .into_iter()
        .chain(if s.ghost.last.is_some() { Some(Op::Retry) } else { None })
        .chain(if matches!(s.ghost.last, Some((true, _, _, _, true))) { Some(Op::Conflict) } else { None })
        .chain(if self.monitors { vec![Op::Issue(0), Op::Issue(1), Op::Issue(2)] } else { vec![] })
        .collect()
    }

    fn key(&self, s: &VState) -> String {
        let now = s.w().now();
        let rel = |l: &Vec<(u64, u64)>| l.iter().filter(|(t, _)| now - *t <= WINDOW).map(|(t, a)| (now - *t, *a)).collect::<Vec<_>>();
        let last = s.ghost.last.map(|(i, _, a, t, ok)| (i, a, now - t, ok));
        let appr = s.approver.as_ref().map(|a| a.control().get_state());
        format!("{}|{}|{:?}|{:?}|{}|{:?}|{:?}", fp(&s.w().snapshot()), now % BUCKET, rel(&s.ghost.pay), rel(&s.ghost.fee), fp(&serde_json::json!(s.w().raw_velocity())), last, appr)
    }

    fn apply(&self, s: &mut VState, op: &Op, check: bool, vios: &mut Vec<Vio>) {
        if s.dead {
            return;
        }
        s.nops += 1;
        let mon = check && self.monitors;
        let before = if mon { Some(s.w().snapshot()) } else { None };
        let now = s.w().now();
        let mut tag = "ok".to_string();
        let kind = match op {
            Op::Keysend(..) => "add_keysend",
            Op::Invoice(..) | Op::Conflict => "add_invoice",
            Op::Retry => match s.ghost.last {
                Some((true, ..)) => "add_invoice",
                _ => "add_keysend",
            },
            Op::Onchain(..) => "check_onchain_tx",
            Op::Advance(..) => "advance",
            Op::Reload => "update_velocity_controls",
            Op::Issue(_) => "sign_bolt11_invoice",
            Op::Restart => "restart",
        };
        match op {
            Op::Restart => {
                let w = s.w.take().unwrap();
                let carried = s.approver.take().map(|a| a.control().get_state());
                match catch(move || w.restart()) {
                    Ok(w2) => {
                        if let Some(st) = carried {
                            s.approver = Some(make_approver(&w2, Some(st)));
                        }
                        s.w = Some(w2)
                    }
                    Err(p) => {
                        vios.push(Vio { prop: "C11", key: "C11:restart-panics:velocity".into(), what: format!("restart panicked: {}", p) });
                        s.dead = true;
                        return;
                    }
                }
            }
            Op::Advance(dt) => {
                s.w().clock.set(Duration::from_secs(now + dt));
            }
            Op::Issue(k) => {
                let node = s.w().node.clone();
                let k = *k;
                let r = call(move || node.sign_bolt11_invoice(raw_invoice_to_issue(k)).map(|_| ()).map_err(|e| status_kind(&e)));
                tag = r.tag();
            }
            Op::Reload => {
                let node = s.w().node.clone();
                let r = call(move || {
                    node.update_velocity_controls();
                    Ok::<(), String>(())
                });
                tag = r.tag();
            }
            Op::Keysend(..) | Op::Invoice(..) | Op::Retry | Op::Conflict => {
                let node = s.w().node.clone();
                let conflict = matches!(op, Op::Conflict);
                let saved_last = s.ghost.last;
                // (invoice?, hash, amount, creation time, approved before?)
                let (is_inv, h, amt, created, was_approved) = match op {
                    Op::Keysend(h, amt) => (false, *h, *amt, now, false),
                    Op::Invoice(h, amt) => (true, *h, *amt, now, false),
                    Op::Conflict => (true, s.ghost.last.unwrap().1, PAY_LIMIT / 4, now, false),
                    _ => s.ghost.last.unwrap(),
                };
                let retry = matches!(op, Op::Retry) || conflict;
                let appr = s.approver.take();
                let (r, appr) = {
                    use vls_protocol_signer::approver::Approve;
                    let mut back = None;
                    let r = call(|| {
                        let payee = PublicKey::from_secret_key(&secp(), &sk(201));
                        let r = match &appr {
                            Some(a) if is_inv => a.handle_proposed_invoice(&node, make_invoice(h, amt, created)),
                            Some(a) => a.handle_proposed_keysend(&node, payee, pay_hash(h), amt),
                            None if is_inv => node.add_invoice(make_invoice(h, amt, created)),
                            None => node.add_keysend(payee, pay_hash(h), amt),
                        };
                        r.map_err(|e| status_kind(&e))
                    });
                    if !r.is_panic() {
                        back = appr;
                    }
                    (r, back)
                };
                s.approver = appr;
                tag = r.tag();
                if !retry {
                    s.ghost.next_hash = s.ghost.next_hash.wrapping_add(1);
                }
                let approved_now = matches!(r, Outcome::Ok(true));
                s.ghost.last = Some((is_inv, h, amt, created, was_approved || approved_now));
                if conflict && !approved_now {
                    // the registered invoice stays the most recent request
                    s.ghost.last = saved_last;
                }
                match r {
                    // the same approved payment presented again is not a second approval
                    Outcome::Ok(true) if retry && was_approved => {}
                    Outcome::Ok(true) => {
                        let sum = window_sum(&s.ghost.pay, now) + amt as u128;
                        if sum > PAY_LIMIT as u128 {
                            vios.push(Vio {
                                prop: "C12",
                                key: format!("C12:node:payment-window-exceeded:{}:{}", kind, if s.ghost.pay.iter().any(|_| true) && s.nops > 0 { "after-history" } else { "first" }),
                                what: format!("{:?} approved at t={} although {} msat were already approved within the last {} s (limit {}); approvals so far {:?}", op, now, sum - amt as u128, WINDOW, PAY_LIMIT, s.ghost.pay),
                            });
                        }
                        s.ghost.pay.push((now, amt));
                    }
                    Outcome::Panic(_) => {
                        s.dead = true;
                        return;
                    }
                    _ => {}
                }
            }
            Op::Onchain(fee_sat) => {
                let node = s.w().node.clone();
                let fee = *fee_sat;
                let inval = 1_000_000u64;
                let n = s.nops as u8;
                let tx = crate::chain::simple_tx(
                    vec![OutPoint { txid: Txid::from_slice(&[0x60 + n; 32]).unwrap(), vout: 0 }],
                    vec![(inval - fee, s.w().node.get_native_address(&wallet_path(1)).unwrap().script_pubkey())],
                    0,
                );
                let prev = TxOut { value: Amount::from_sat(inval), script_pubkey: s.w().node.get_native_address(&wallet_path(2)).unwrap().script_pubkey() };
                let r = call(move || node.check_onchain_tx(&tx, &[true], &[prev.clone()], &[None], &[wallet_path(1)]).map_err(|e| format!("{:?}", e).chars().take(60).collect::<String>()));
                tag = r.tag();
                match r {
                    Outcome::Ok(()) => {
                        let amt = fee * 1000;
                        let sum = window_sum(&s.ghost.fee, now) + amt as u128;
                        if sum > FEE_LIMIT as u128 {
                            vios.push(Vio {
                                prop: "C12",
                                key: "C12:node:fee-window-exceeded:check_onchain_tx".into(),
                                what: format!("{:?} accepted at t={} although {} msat of fees were already approved within the last {} s (limit {}); approvals so far {:?}", op, now, sum - amt as u128, WINDOW, FEE_LIMIT, s.ghost.fee),
                            });
                        }
                        s.ghost.fee.push((now, amt));
                    }
                    Outcome::Panic(_) => {
                        s.dead = true;
                        return;
                    }
                    _ => {}
                }
            }
        }
        if !matches!(op, Op::Restart | Op::Advance(_)) {
            end_cloud_request(s.w(), kind, &tag, mon, vios);
        }
        if mon && !matches!(op, Op::Restart | Op::Advance(_)) {
            if tag.starts_with("err:") {
                let after = s.w().snapshot();
                refusal_monitor(before.as_ref().unwrap(), &after, kind, &tag[4..], vios);
            }
            durability_monitor(s.w(), kind, &tag, vios);
        }
        let _ = DerivationPath::master();
    }
}

pub struct VelRun {
    pub stats: BfsStats,
    pub found: Vec<Found>,
    pub models: Vec<String>,
}

pub fn explore(tier: Tier, monitors: bool, wall_s: f64) -> VelRun {
    // a shallower search under the chain-aware factory first, then the main one with what is left
    let t0 = std::time::Instant::now();
    let mut found = vec![];
    let mut models = vec![];
    let mut total = BfsStats { closed: true, bounded_complete: true, ..Default::default() };
    let main_depth = if monitors { tier.pick(3, 5) } else { tier.pick(5, 7) };
    let mut cfgs = vec![];
    if !monitors {
        cfgs.push(VelModel { max_ops: tier.pick(3, 5), monitors, onchain: true, approver: false, cloud: false });
        cfgs.push(VelModel { max_ops: tier.pick(4, 6), monitors, onchain: false, approver: true, cloud: false });
    }
    if monitors {
        cfgs.push(VelModel { max_ops: tier.pick(3, 4), monitors, onchain: false, approver: false, cloud: true });
    }
    cfgs.push(VelModel { max_ops: main_depth, monitors, onchain: false, approver: false, cloud: false });
    let n = cfgs.len();
    for (i, m) in cfgs.into_iter().enumerate() {
        let per = (wall_s - t0.elapsed().as_secs_f64()).max(1.0) / (n - i) as f64 * if i + 1 < n { 0.6 } else { 1.0 };
        let lim = Limits { max_depth: m.max_ops, max_states: 3_000_000, wall_s: per };
        let st = bfs(&m, &lim, &mut found);
        models.push(format!("{}: states={} transitions={} closed={} bounded_complete={} depth={} t={:.1}s", m.name(), st.states, st.transitions, st.closed, st.bounded_complete, st.max_depth, st.wall_s));
        let bc = total.bounded_complete && st.bounded_complete;
        merge_stats(&mut total, &st);
        total.bounded_complete = bc;
    }
    VelRun { stats: total, found, models }
}

pub fn replay_ops(v: &serde_json::Value) -> Vec<Vio> {
    let m: VelModel = serde_json::from_value(v["cfg"].clone()).expect("nodevel cfg");
    let ops: Vec<Op> = serde_json::from_value(v["ops"].clone()).expect("nodevel ops");
    crate::vmc::replay(&m, &ops)
}
