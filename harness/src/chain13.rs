//! C13: the chain tracker follows only validated blocks and rejects atomically.
//!
//! BFS over add/remove requests to the real tracker of a real node (with a funded channel, so
//! that there are watched txids and outpoints), each letter either a valid request or a request
//! with exactly one defect.  Oracle: an independent prediction of accept/reject from the rules in
//! the property; on reject the complete state must be unchanged and the correct request must
//! still succeed.

use crate::chain::*;
use crate::ev::*;
use crate::monitors::{path_class, refusal_monitor};
use crate::scenario::*;
use crate::vmc::*;
use crate::world::*;
use lightning_signer::bitcoin::block::Header as BlockHeader;
use lightning_signer::bitcoin::hash_types::FilterHeader;
use lightning_signer::bitcoin::hashes::Hash;
use lightning_signer::bitcoin::secp256k1::SecretKey;
use lightning_signer::bitcoin::{Block, CompactTarget, Target};
use lightning_signer::chain::tracker::Headers;
use lightning_signer::txoo::filter::BlockSpendFilter;
use lightning_signer::txoo::proof::{ProofType, TxoProof};
use lightning_signer::txoo::spv::SpvProof;
use serde::{Deserialize, Serialize};
use serde_json::json;

#[derive(Clone, Copy, Debug, PartialEq, Eq, Hash, Serialize, Deserialize)]
pub enum Body {
    Empty,
    Funding,
    DoubleSpend,
}

#[derive(Clone, Copy, Debug, PartialEq, Eq, Hash, Serialize, Deserialize)]
pub enum AddDefect {
    WrongPrev,
    BadPow,
    ChangedBits,
    ProofForOtherBlock,
    WrongFilterHeader,
    WrongHeight,
    UntrustedKey,
    TooFewOracles,
    DuplicateOracle,
    BadAttestationSig,
    OmittedSpend,
    FullBlockProof,
}

#[derive(Clone, Copy, Debug, PartialEq, Eq, Hash, Serialize, Deserialize)]
pub enum RemDefect {
    WrongPrevHeader,
    WrongPrevFilterHeader,
    /// the previous filter header claimed to be all zeros (which would switch proof checking off)
    /// together with a proof attested by an untrusted key only
    ZeroPrevFilterHeader,
    UntrustedKey,
    TooFewOracles,
    ProofForOtherBlock,
    BadAttestationSig,
}

/// the claimed target of an otherwise valid block, relative to the tip's target
#[derive(Clone, Copy, Debug, PartialEq, Eq, Hash, Serialize, Deserialize)]
pub enum BitsK {
    /// target / 2^k (more work)
    Harder(u8),
    /// target * 2^k (less work)
    Easier(u8),
    /// the network's maximum target
    ChainMax,
    /// the tip's target in the other compact encoding (mantissa shifted by a byte), where one exists
    Alias,
}

/// the second compact encoding of the same target, if there is one
pub fn alias_bits(bits: CompactTarget) -> Option<CompactTarget> {
    let c = bits.to_consensus();
    let (exp, mant) = (c >> 24, c & 0x007f_ffff);
    if c & 0x0080_0000 != 0 || mant == 0 {
        return None;
    }
    if mant & 0xff == 0 && exp < 0x22 {
        return Some(CompactTarget::from_consensus(((exp + 1) << 24) | (mant >> 8)));
    }
    if mant <= 0x7fff && exp > 3 {
        return Some(CompactTarget::from_consensus(((exp - 1) << 24) | (mant << 8)));
    }
    None
}

#[derive(Clone, Debug, PartialEq, Eq, Hash, Serialize, Deserialize)]
pub enum Op {
    /// an empty block, correctly mined for the target it claims and with a valid proof
    AddBits(BitsK),
    Add(Body, Delivery),
    AddBad(Body, AddDefect),
    Remove(Delivery),
    RemoveBad(RemDefect),
    Restart,
}

#[derive(Clone, Debug, Serialize, Deserialize)]
pub struct C13Cfg {
    pub oracles: usize,
    pub max_chain: usize,
    pub streamed: bool,
    pub restart: bool,
    /// empty blocks connected before the exploration starts (101 fills the window of
    /// remembered headers, MAX_REORG_SIZE = 100, so that the reorg-depth limit is in reach)
    #[serde(default)]
    pub prefill: usize,
    /// retarget configuration: the tracker starts from a checkpoint (as a signer configured with a
    /// checkpoint does) `r` blocks before a retarget boundary, on a tip whose target is the
    /// network maximum / 2^s: (r, s)
    #[serde(default)]
    pub retarget: Option<(u32, u32)>,
    /// the tracker is told to allow reorganisations deeper than its memory (the testnet default);
    /// while previous headers *are* remembered the supplied ones must still equal them
    #[serde(default)]
    pub deep_reorgs: bool,
    /// checkpoint configurations only: the tip's target is 2^252, whose compact form 0x20100000 has a
    /// second encoding (0x21001000; 2^252 rather than 2^254 because the library's factor-four bound wraps around above 2^254, which no real network reaches); letter `AddBits(Alias)` claims the same target in the other form
    #[serde(default)]
    pub round_tip: bool,
}

/// shift a target whose significant bits sit in the upper half (all targets used here do)
pub fn shift_target(t: Target, left: bool, k: u8) -> Target {
    let mut x = t.to_be_bytes();
    let hi = u128::from_be_bytes(x[0..16].try_into().unwrap());
    let hi = if left { hi << k } else { hi >> k };
    x[0..16].copy_from_slice(&hi.to_be_bytes());
    // what a header can carry
    Target::from_compact(Target::from_be_bytes(x).to_compact_lossy())
}

const RETARGET: u32 = 2016;

pub struct C13State {
    pub w: Option<World>,
    pub f: Funded,
    pub chain: SimChain,
    pub bodies: Vec<Body>,
    pub dead: bool,
}

pub struct C13Model {
    pub cfg: C13Cfg,
}

impl C13State {
    fn w(&self) -> &World {
        self.w.as_ref().unwrap()
    }
}

fn body_txs(b: Body, f: &Funded) -> Vec<lightning_signer::bitcoin::Transaction> {
    match b {
        Body::Empty => vec![],
        Body::Funding => vec![f.funding_tx.clone()],
        Body::DoubleSpend => vec![simple_tx(vec![f.wallet_in], vec![(CHANNEL_VALUE, unrelated_script(1))], 7)],
    }
}

impl C13Model {
    fn trusted(&self) -> Vec<SecretKey> {
        (0..self.cfg.oracles as u8).map(oracle_key).collect()
    }

    fn majority(&self) -> usize {
        (self.cfg.oracles + 1) / 2
    }

    /// is the wallet input still unspent / funding not yet confirmed on the sim chain?
    fn body_valid(&self, s: &C13State, b: Body) -> bool {
        match b {
            Body::Empty => true,
            _ => !s.bodies.iter().any(|x| *x != Body::Empty),
        }
    }

    fn block_for(&self, s: &C13State, b: Body, salt: u32) -> Block {
        make_block(&s.chain.tip().0, s.chain.height() + 1, salt, body_txs(b, &s.f))
    }

    fn valid_add_proof(&self, s: &C13State, block: &Block, attestors: &[SecretKey]) -> TxoProof {
        let (txids, ops) = s.w().node.get_tracker().get_all_forward_watches();
        make_proof(block, s.chain.height() + 1, &s.chain.tip().1, attestors, &ops, &txids)
    }

    fn valid_remove_proof(&self, s: &C13State, attestors: &[SecretKey]) -> Option<(TxoProof, Headers)> {
        let (block, _) = s.chain.blocks.last()?.clone();
        let prev = s.chain.prev_of_tip();
        let (txids, ops) = s.w().node.get_tracker().get_all_reverse_watches();
        Some((make_proof(&block, s.chain.height(), &prev.1, attestors, &ops, &txids), prev))
    }

    /// does the tracker check proofs on top of this tip? (documented upgrade path: not on top of a
    /// tip recorded without a filter header)
    fn proofs_checked_on(prev_filter_header: &FilterHeader) -> bool {
        !prev_filter_header.to_byte_array().iter().all(|x| *x == 0)
    }

    fn do_add(&self, s: &C13State, block: &Block, proof: TxoProof, delivery: Delivery) -> Outcome<()> {
        let mut proof = proof;
        if delivery == Delivery::Streamed || matches!(proof.proof, ProofType::Block(_)) {
            if !matches!(proof.proof, ProofType::ExternalBlock()) {
                proof = TxoProof { attestations: proof.attestations, proof: ProofType::ExternalBlock() };
            }
            for (off, c) in stream_chunks(block) {
                let r = s.w().tracker_chunk(block.block_hash(), off, &c);
                if !r.is_ok() {
                    return r;
                }
            }
        }
        s.w().tracker_add(block.header, proof)
    }
}

impl Model for C13Model {
    type Op = Op;
    type State = C13State;

    fn cfg_json(&self) -> serde_json::Value {
        serde_json::to_value(&self.cfg).unwrap()
    }

    fn name(&self) -> String {
        format!("chain13(oracles={},L={}{}{}{})", self.cfg.oracles, self.cfg.max_chain, if self.cfg.streamed { ",streamed" } else { "" }, if self.cfg.restart { ",restart" } else { "" }, if self.cfg.prefill > 0 { format!(",prefill={}", self.cfg.prefill) } else { String::new() }) + &match self.cfg.retarget { Some((r, sh)) => format!(",checkpoint {} before a retarget, tip target max/2^{}", r, sh), None => String::new() } + if self.cfg.deep_reorgs { ",deep reorgs allowed" } else { "" } + if self.cfg.round_tip { ",tip target 2^252" } else { "" }
    }

    fn init(&self) -> C13State {
        let mut c = WorldCfg::default();
        c.oracle_pubkeys = (0..self.cfg.oracles as u8).map(oracle_pub).collect();
        let w = World::new(c);
        if let Some((r, sh)) = self.cfg.retarget {
            // start from a checkpoint: height, tip header (mined for its hard target) and a filter
            // header, nothing remembered below it
            let maxt = lightning_signer::chain::tracker::max_target(lightning_signer::bitcoin::Network::Regtest);
            let bits = if self.cfg.round_tip { CompactTarget::from_consensus(0x2010_0000) } else { shift_target(maxt, false, sh as u8).to_compact_lossy() };
            let header = mine(
                lightning_signer::bitcoin::BlockHash::from_byte_array([0x42; 32]),
                lightning_signer::bitcoin::TxMerkleNode::from_byte_array([0x24; 32]),
                bits,
                0,
            );
            let node = w.node.clone();
            let mut t = node.get_tracker();
            t.height = 3 * RETARGET - 1 - r;
            t.tip = Headers(header, FilterHeader::from_byte_array([7; 32]));
            t.headers.clear();
            node.get_persister().update_tracker(&node.get_id(), &t).expect("store the checkpoint tracker");
            drop(t);
            w.end_request();
        }
        if self.cfg.deep_reorgs {
            w.node.get_tracker().set_allow_deep_reorgs(true);
        }
        let f = fund_channel(&w, 1, false, false);
        let mut chain = w.new_sim_chain();
        let mut bodies = vec![];
        for i in 0..self.cfg.prefill {
            let b = make_block(&chain.tip().0, chain.height() + 1, 1000 + i as u32, vec![]);
            let r = w.connect(&mut chain, b, Delivery::Compact);
            assert!(r.is_ok(), "prefill block {}: {}", i, r.tag());
            bodies.push(Body::Empty);
        }
        C13State { w: Some(w), f, chain, bodies, dead: false }
    }

    fn alive(&self, s: &C13State) -> bool {
        !s.dead
    }

    fn ops(&self, s: &C13State) -> Vec<Op> {
        let mut v = vec![];
        if self.cfg.restart {
            v.push(Op::Restart);
        }
        if self.cfg.retarget.is_some() {
            // header rules only: claimed targets on and off the boundary, valid blocks, removal
            if s.chain.blocks.len() < self.cfg.max_chain {
                v.push(Op::Add(Body::Empty, Delivery::Compact));
                for k in [1u8, 2, 3] {
                    v.push(Op::AddBits(BitsK::Harder(k)));
                    // (a shift out of the 256 bits leaves no target to mine for)
                    if shift_target(s.chain.tip().0.target(), true, k) != Target::ZERO {
                        v.push(Op::AddBits(BitsK::Easier(k)));
                    }
                }
                v.push(Op::AddBits(BitsK::ChainMax));
                if alias_bits(s.chain.tip().0.bits).is_some() {
                    v.push(Op::AddBits(BitsK::Alias));
                }
            }
            v.push(Op::Remove(Delivery::Compact));
            return v;
        }
        let bodies: Vec<Body> = [Body::Empty, Body::Funding, Body::DoubleSpend].into_iter().filter(|b| self.body_valid(s, *b)).collect();
        if s.chain.blocks.len() < self.cfg.prefill + self.cfg.max_chain {
            for &b in &bodies {
                v.push(Op::Add(b, Delivery::Compact));
                if self.cfg.streamed {
                    v.push(Op::Add(b, Delivery::Streamed));
                }
            }
        }
        // defective adds are tried in every state (they must never be accepted)
        // On top of a tip recorded without a filter header proofs are not checked (the documented
        // upgrade path, exempted by the property): only header defects are meaningful there.
        let add_checked = Self::proofs_checked_on(&s.chain.tip().1);
        let rem_checked = Self::proofs_checked_on(&s.chain.prev_of_tip().1);
        for &b in &bodies {
            for d in [
                AddDefect::WrongPrev,
                AddDefect::BadPow,
                AddDefect::ChangedBits,
                AddDefect::ProofForOtherBlock,
                AddDefect::WrongFilterHeader,
                AddDefect::WrongHeight,
                AddDefect::UntrustedKey,
                AddDefect::TooFewOracles,
                AddDefect::DuplicateOracle,
                AddDefect::BadAttestationSig,
                AddDefect::OmittedSpend,
                AddDefect::FullBlockProof,
            ] {
                if d == AddDefect::OmittedSpend && b == Body::Empty {
                    continue;
                }
                if self.cfg.streamed && d == AddDefect::OmittedSpend {
                    continue; // a streamed block hides nothing
                }
                if self.cfg.streamed && d == AddDefect::WrongFilterHeader {
                    // with a streamed block the signer cannot recompute the filter; a filter header
                    // attested by the *trusted* oracles is then taken on trust (outside the property)
                    continue;
                }
                if !add_checked && !matches!(d, AddDefect::WrongPrev | AddDefect::BadPow | AddDefect::ChangedBits | AddDefect::FullBlockProof) {
                    continue;
                }
                if matches!(d, AddDefect::TooFewOracles | AddDefect::DuplicateOracle) && self.majority() < 2 {
                    continue;
                }
                if b != Body::Empty && !matches!(d, AddDefect::OmittedSpend | AddDefect::UntrustedKey | AddDefect::WrongPrev) {
                    continue; // keep the alphabet small: most defects are independent of the body
                }
                v.push(Op::AddBad(b, d));
            }
        }
        v.push(Op::Remove(Delivery::Compact));
        if self.cfg.streamed {
            v.push(Op::Remove(Delivery::Streamed));
        }
        for d in [
            RemDefect::WrongPrevHeader,
            RemDefect::WrongPrevFilterHeader,
            RemDefect::ZeroPrevFilterHeader,
            RemDefect::UntrustedKey,
            RemDefect::TooFewOracles,
            RemDefect::ProofForOtherBlock,
            RemDefect::BadAttestationSig,
        ] {
            if d == RemDefect::TooFewOracles && self.majority() < 2 {
                continue;
            }
            if !rem_checked && !matches!(d, RemDefect::WrongPrevHeader | RemDefect::WrongPrevFilterHeader) {
                continue;
            }
            if d == RemDefect::ZeroPrevFilterHeader && !rem_checked {
                // the remembered previous filter header is itself all zeros: not a defect
                continue;
            }
            v.push(Op::RemoveBad(d));
        }
        v
    }

    fn key(&self, s: &C13State) -> String {
        format!("{}|{:?}", fp(&s.w().snapshot()), s.bodies)
    }

    fn prune_after(&self, v: &Vio) -> bool {
        v.prop == "C13" || v.prop == "C10"
    }

    fn apply(&self, s: &mut C13State, op: &Op, check: bool, vios: &mut Vec<Vio>) {
        if s.dead {
            return;
        }
        let trusted = self.trusted();
        let attestors: Vec<SecretKey> = if trusted.is_empty() { vec![oracle_key(0)] } else { trusted.clone() };
        let before = if check { Some(strip_saw_block(s.w().snapshot())) } else { None };
        let kind = format!("{:?}", op).split('(').next().unwrap_or("").to_string();
        // (outcome, expected_accept, description of the corresponding correct request)
        let (r, expect_accept): (Outcome<()>, bool) = match op {
            Op::Restart => {
                let w = s.w.take().unwrap();
                match catch(move || w.restart()) {
                    Ok(w2) => {
                        s.w = Some(w2);
                        return;
                    }
                    Err(p) => {
                        vios.push(Vio { prop: "C11", key: "C11:restart-panics:tracker".into(), what: format!("restart panicked: {} at {}", p, last_panic_loc()) });
                        s.dead = true;
                        return;
                    }
                }
            }
            Op::AddBits(k) => {
                let tip = s.chain.tip();
                let height = s.chain.height() + 1;
                let prev_t = tip.0.target();
                let maxt = lightning_signer::chain::tracker::max_target(lightning_signer::bitcoin::Network::Regtest);
                let sh = self.cfg.retarget.map(|x| x.1).unwrap_or(0) as i64;
                // how many doublings away from the tip's target the claim nominally is
                let (t, nominal): (Target, i64) = match k {
                    BitsK::Harder(k) => (shift_target(prev_t, false, *k), -(*k as i64)),
                    BitsK::Easier(k) => (shift_target(prev_t, true, *k), *k as i64),
                    BitsK::Alias => (prev_t, 0),
                    BitsK::ChainMax => (maxt, {
                        // the tip may itself have moved away from the checkpoint's target
                        let mut d = 0i64;
                        let mut x = prev_t;
                        while x < maxt && d < 64 {
                            x = shift_target(x, true, 1);
                            d += 1;
                        }
                        let _ = sh;
                        d
                    }),
                };
                let bits = if *k == BitsK::Alias { alias_bits(tip.0.bits).expect("alias letter only where an alias exists") } else { t.to_compact_lossy() };
                assert!(bits.to_consensus() != 0, "AddBits({:?}) on tip bits {:#x}: no target", k, tip.0.bits.to_consensus());
                let mut block = self.block_for(s, Body::Empty, 5);
                let txs = block.txdata.clone();
                block.header = mine(tip.0.block_hash(), merkle_root(&txs), bits, 0);
                let proof = self.valid_add_proof(s, &block, &attestors);
                let fh = filter_header_of(&block, &tip.1);
                // the rule: off a boundary the target does not change; on a boundary it moves by
                // at most a factor of four and never above the network maximum
                let same = bits == tip.0.bits;
                let expect_accept = if height % RETARGET == 0 { t <= maxt && (-2..=2).contains(&nominal) } else { same };
                let r = self.do_add(s, &block, proof, Delivery::Compact);
                if r.is_ok() {
                    s.chain.blocks.push((block, fh));
                    s.bodies.push(Body::Empty);
                }
                (r, expect_accept)
            }
            Op::Add(b, delivery) => {
                let block = self.block_for(s, *b, 1);
                let proof = self.valid_add_proof(s, &block, &attestors);
                let fh = filter_header_of(&block, &s.chain.tip().1);
                let r = self.do_add(s, &block, proof, *delivery);
                if r.is_ok() {
                    s.chain.blocks.push((block, fh));
                    s.bodies.push(*b);
                }
                (r, true)
            }
            Op::AddBad(b, d) => {
                let tip = s.chain.tip();
                let height = s.chain.height() + 1;
                let checked = Self::proofs_checked_on(&tip.1);
                let mut block = self.block_for(s, *b, 2);
                let mut expect_accept = false;
                let proof = match d {
                    AddDefect::WrongPrev => {
                        // builds on the previous block instead of the tip (or on an unknown hash)
                        let prev = s.chain.prev_of_tip();
                        let parent = if s.chain.blocks.is_empty() { BlockHeader { nonce: 12345, ..tip.0 } } else { prev.0 };
                        block = make_block(&parent, height, 3, body_txs(*b, &s.f));
                        let (txids, ops) = s.w().node.get_tracker().get_all_forward_watches();
                        make_proof(&block, height, &tip.1, &attestors, &ops, &txids)
                    }
                    AddDefect::BadPow => {
                        let txs = block.txdata.clone();
                        block.header = mine_bad_pow(tip.0.block_hash(), merkle_root(&txs), CompactTarget::from_consensus(0x1d00ffff));
                        // keep the claimed bits equal to the tip's when possible: a header that misses
                        // the regtest target is practically unminable, so claim a hard target instead;
                        // either way the header is invalid (insufficient work or changed bits)
                        self.valid_add_proof(s, &block, &attestors)
                    }
                    AddDefect::ChangedBits => {
                        // half the target, off a retarget boundary
                        let t = Target::from_be_bytes({
                            let mut x = tip.0.target().to_be_bytes();
                            let hi = u128::from_be_bytes(x[0..16].try_into().unwrap()) >> 1;
                            x[0..16].copy_from_slice(&hi.to_be_bytes());
                            x
                        });
                        let txs = block.txdata.clone();
                        block.header = mine(tip.0.block_hash(), merkle_root(&txs), t.to_compact_lossy(), 0);
                        self.valid_add_proof(s, &block, &attestors)
                    }
                    AddDefect::ProofForOtherBlock => {
                        expect_accept = !checked;
                        let other = self.block_for(s, *b, 9);
                        self.valid_add_proof(s, &other, &attestors)
                    }
                    AddDefect::WrongFilterHeader => {
                        let good = self.valid_add_proof(s, &block, &attestors);
                        let wrong = FilterHeader::from_byte_array([0x5a; 32]);
                        let atts = attestors.iter().map(|k| attest(block.block_hash(), height, wrong, k)).collect();
                        expect_accept = !checked;
                        TxoProof { attestations: atts, proof: good.proof }
                    }
                    AddDefect::WrongHeight => {
                        let good = self.valid_add_proof(s, &block, &attestors);
                        let fh = filter_header_of(&block, &tip.1);
                        let atts = attestors.iter().map(|k| attest(block.block_hash(), height + 1, fh, k)).collect();
                        expect_accept = !checked;
                        TxoProof { attestations: atts, proof: good.proof }
                    }
                    AddDefect::UntrustedKey => {
                        expect_accept = !checked || trusted.is_empty();
                        self.valid_add_proof(s, &block, &[oracle_key(9)])
                    }
                    AddDefect::TooFewOracles => {
                        expect_accept = !checked;
                        self.valid_add_proof(s, &block, &trusted[..self.majority() - 1])
                    }
                    AddDefect::DuplicateOracle => {
                        expect_accept = !checked;
                        let ks: Vec<SecretKey> = (0..self.majority()).map(|_| trusted[0]).collect();
                        self.valid_add_proof(s, &block, &ks)
                    }
                    AddDefect::BadAttestationSig => {
                        let mut p = self.valid_add_proof(s, &block, &attestors);
                        // the signature of another key under the trusted key's name
                        let forged = attest(block.block_hash(), height, filter_header_of(&block, &tip.1), &oracle_key(9)).1;
                        p.attestations[0].1 = forged;
                        expect_accept = !checked;
                        p
                    }
                    AddDefect::OmittedSpend => {
                        // the block spends a watched outpoint / confirms a watched txid, the proof hides it
                        let fh = filter_header_of(&block, &tip.1);
                        let atts: Vec<_> = attestors.iter().map(|k| attest(block.block_hash(), height, fh, k)).collect();
                        let (spv, _, _) = SpvProof::build(&block, &[], &[]);
                        let filter = BlockSpendFilter::from_block(&block);
                        // only a hidden *spend of a watched outpoint* is detectable by the filter
                        let (_, ops) = s.w().node.get_tracker().get_all_forward_watches();
                        let spends_watched = block.txdata.iter().any(|t| t.input.iter().any(|i| ops.contains(&i.previous_output)));
                        expect_accept = !checked || !spends_watched;
                        TxoProof { attestations: atts, proof: ProofType::Filter(filter.content, spv) }
                    }
                    AddDefect::FullBlockProof => {
                        let good = self.valid_add_proof(s, &block, &attestors);
                        TxoProof { attestations: good.attestations, proof: ProofType::Block(block.clone()) }
                    }
                };
                let bad_delivery = if self.cfg.streamed { Delivery::Streamed } else { Delivery::Compact };
                let r = if matches!(proof.proof, ProofType::Block(_)) { s.w().tracker_add(block.header, proof) } else { self.do_add(s, &block, proof, bad_delivery) };
                if r.is_ok() {
                    // accepted (legitimately or not): follow the implementation so that later
                    // letters are built on its real tip
                    let fh = s.w().tracker_tip().0 .1;
                    s.chain.blocks.push((block, fh));
                    s.bodies.push(*b);
                }
                (r, expect_accept)
            }
            Op::Remove(delivery) => {
                match self.valid_remove_proof(s, &attestors) {
                    None if self.cfg.deep_reorgs => {
                        // with deep reorganisations allowed the tracker takes the caller's word
                        // for what lies below its memory: outside what is checked here
                        return;
                    }
                    None => {
                        // nothing above the base: the tracker has no previous header; ask anyway
                        // with made-up previous headers -- must be refused (reorg too deep)
                        let prev = Headers(BlockHeader { nonce: 1, ..s.chain.base.0 }, s.chain.base.1);
                        let blk = make_block(&prev.0, 1, 0, vec![]);
                        let proof = make_proof(&blk, s.chain.height().max(1), &prev.1, &attestors, &[], &[]);
                        (s.w().tracker_remove(proof, prev), false)
                    }
                    Some((proof, prev)) => {
                        let (block, _) = s.chain.blocks.last().unwrap().clone();
                        let mut proof = proof;
                        let mut pre: Outcome<()> = Outcome::Ok(());
                        if *delivery == Delivery::Streamed || matches!(proof.proof, ProofType::Block(_)) {
                            proof = TxoProof { attestations: proof.attestations, proof: ProofType::ExternalBlock() };
                            for (off, c) in stream_chunks(&block) {
                                let r = s.w().tracker_chunk(block.block_hash(), off, &c);
                                if !r.is_ok() {
                                    pre = r;
                                    break;
                                }
                            }
                        }
                        let r = if pre.is_ok() { s.w().tracker_remove(proof, prev) } else { pre };
                        if r.is_ok() {
                            s.chain.blocks.pop();
                            s.bodies.pop();
                        }
                        (r, true)
                    }
                }
            }
            Op::RemoveBad(d) => {
                let (good, prev) = match self.valid_remove_proof(s, &attestors) {
                    Some(x) => x,
                    None => return,
                };
                let (block, _) = s.chain.blocks.last().unwrap().clone();
                let height = s.chain.height();
                let checked = Self::proofs_checked_on(&prev.1);
                let mut expect_accept = false;
                let (proof, prev2) = match d {
                    RemDefect::WrongPrevHeader => (good, Headers(BlockHeader { nonce: prev.0.nonce.wrapping_add(1), ..prev.0 }, prev.1)),
                    RemDefect::WrongPrevFilterHeader => (good, Headers(prev.0, FilterHeader::from_byte_array([0x33; 32]))),
                    RemDefect::ZeroPrevFilterHeader => {
                        let zero = FilterHeader::from_byte_array([0; 32]);
                        let (txids, ops) = s.w().node.get_tracker().get_all_reverse_watches();
                        (make_proof(&block, height, &zero, &[oracle_key(9)], &ops, &txids), Headers(prev.0, zero))
                    }
                    RemDefect::UntrustedKey => {
                        expect_accept = !checked || trusted.is_empty();
                        let (txids, ops) = s.w().node.get_tracker().get_all_reverse_watches();
                        (make_proof(&block, height, &prev.1, &[oracle_key(9)], &ops, &txids), prev)
                    }
                    RemDefect::TooFewOracles => {
                        expect_accept = !checked;
                        let (txids, ops) = s.w().node.get_tracker().get_all_reverse_watches();
                        (make_proof(&block, height, &prev.1, &trusted[..self.majority() - 1], &ops, &txids), prev)
                    }
                    RemDefect::ProofForOtherBlock => {
                        expect_accept = !checked;
                        let other = make_block(&prev.0, height, 77, vec![]);
                        (make_proof(&other, height, &prev.1, &attestors, &[], &[]), prev)
                    }
                    RemDefect::BadAttestationSig => {
                        let mut p = good;
                        let forged = attest(block.block_hash(), height, filter_header_of(&block, &prev.1), &oracle_key(9)).1;
                        p.attestations[0].1 = forged;
                        expect_accept = !checked;
                        (p, prev)
                    }
                };
                let r = if matches!(proof.proof, ProofType::Block(_)) {
                    Outcome::Err("skipped-false-positive".into())
                } else if self.cfg.streamed {
                    let mut pre: Outcome<()> = Outcome::Ok(());
                    // the frontend streams the block that is being removed
                    for (off, c) in stream_chunks(&block) {
                        let r = s.w().tracker_chunk(block.block_hash(), off, &c);
                        if !r.is_ok() {
                            pre = r;
                            break;
                        }
                    }
                    if pre.is_ok() {
                        s.w().tracker_remove(TxoProof { attestations: proof.attestations, proof: ProofType::ExternalBlock() }, prev2)
                    } else {
                        pre
                    }
                } else {
                    s.w().tracker_remove(proof, prev2)
                };
                if let Outcome::Err(e) = &r {
                    if e == "skipped-false-positive" {
                        return;
                    }
                }
                if r.is_ok() {
                    s.chain.blocks.pop();
                    s.bodies.pop();
                }
                (r, expect_accept)
            }
        };
        match &r {
            Outcome::Panic(p) => {
                // a request the tracker API is specified to refuse must not abort either
                vios.push(Vio { prop: "C13", key: format!("C13:panic:{:?}", op), what: format!("{:?} panicked: {}", op, p) });
                s.dead = true;
                return;
            }
            Outcome::Ok(_) => {
                if !expect_accept {
                    vios.push(Vio {
                        prop: "C13",
                        key: format!("C13:accepted-invalid:{:?}", op).replace("Compact", "").replace("Streamed", ""),
                        what: format!("{:?} was accepted at height {} with {} trusted oracle(s) although it violates the block rules", op, s.chain.height(), self.cfg.oracles),
                    });
                }
            }
            Outcome::Err(e) => {
                if expect_accept && matches!(op, Op::Add(..) | Op::Remove(..)) {
                    vios.push(Vio { prop: "C13", key: format!("C13:valid-request-refused:{}:{}", kind, e), what: format!("valid {:?} refused with {}", op, e) });
                }
                if check {
                    let after = strip_saw_block(s.w().snapshot());
                    let mut tmp = vec![];
                    refusal_monitor(before.as_ref().unwrap(), &after, &kind, &format!("{}/", e), &mut tmp);
                    for t in tmp {
                        // the same observation is a C13 violation (atomic rejection) and a C10 one
                        let d = t.what.clone();
                        vios.push(Vio { prop: "C13", key: format!("C13:rejected-but-changed:{:?}:{}", op, path_class(d.split("state changed: ").nth(1).unwrap_or(""), 4)), what: d });
                        vios.push(t);
                    }
                    // "a later correct request still succeeds": probe on this world, then stop here
                    // (a rejected request leaves the state where it was, which is already explored)
                    let probe_add = matches!(op, Op::Add(..) | Op::AddBad(..) | Op::AddBits(..));
                    let pr = if probe_add {
                        let block = self.block_for(s, Body::Empty, 4);
                        let proof = self.valid_add_proof(s, &block, &attestors);
                        Some(self.do_add(s, &block, proof, if self.cfg.streamed { Delivery::Streamed } else { Delivery::Compact }))
                    } else {
                        self.valid_remove_proof(s, &attestors).map(|(p, prev)| {
                            if matches!(p.proof, ProofType::Block(_)) {
                                Outcome::Ok(())
                            } else if self.cfg.streamed {
                                let (blk, _) = s.chain.blocks.last().unwrap().clone();
                                let mut pre: Outcome<()> = Outcome::Ok(());
                                for (off, c) in stream_chunks(&blk) {
                                    let r = s.w().tracker_chunk(blk.block_hash(), off, &c);
                                    if !r.is_ok() {
                                        pre = r;
                                        break;
                                    }
                                }
                                if pre.is_ok() {
                                    s.w().tracker_remove(TxoProof { attestations: p.attestations, proof: ProofType::ExternalBlock() }, prev)
                                } else {
                                    pre
                                }
                            } else {
                                s.w().tracker_remove(p, prev)
                            }
                        })
                    };
                    if let Some(pr) = pr {
                        if !pr.is_ok() {
                            vios.push(Vio {
                                prop: "C13",
                                key: format!("C13:correct-request-fails-after-rejection:{:?}", op),
                                what: format!("after the rejected {:?} the correct {} request fails: {}", op, if probe_add { "add" } else { "remove" }, pr.tag()),
                            });
                        }
                    }
                    s.dead = true;
                }
            }
        }
        let _ = json!(null);
    }
}

/// `saw_block` records that a block start was seen on the wire; a rejected streamed block
/// legitimately sets it (DESIGN 6.1), so it is not part of the compared state.
pub fn strip_saw_block(mut v: serde_json::Value) -> serde_json::Value {
    fn rec(v: &mut serde_json::Value) {
        match v {
            serde_json::Value::Object(o) => {
                o.remove("saw_block");
                for (_, x) in o.iter_mut() {
                    rec(x);
                }
            }
            serde_json::Value::Array(a) => {
                for x in a.iter_mut() {
                    rec(x);
                }
            }
            _ => {}
        }
    }
    rec(&mut v);
    v
}

pub fn configs(tier: Tier) -> Vec<C13Cfg> {
    match tier {
        Tier::Quick => vec![
            C13Cfg { oracles: 3, max_chain: 3, streamed: false, restart: false, prefill: 0, retarget: None, deep_reorgs: false, round_tip: false },
            C13Cfg { oracles: 1, max_chain: 2, streamed: true, restart: true, prefill: 0, retarget: None, deep_reorgs: false, round_tip: false },
            C13Cfg { oracles: 1, max_chain: 1, streamed: false, restart: false, prefill: 101, retarget: None, deep_reorgs: false, round_tip: false },
            C13Cfg { oracles: 1, max_chain: 2, streamed: false, restart: false, prefill: 0, retarget: Some((1, 6)), deep_reorgs: false, round_tip: false },
            C13Cfg { oracles: 1, max_chain: 1, streamed: false, restart: false, prefill: 0, retarget: Some((0, 1)), deep_reorgs: false, round_tip: false },
            C13Cfg { oracles: 1, max_chain: 2, streamed: false, restart: false, prefill: 0, retarget: None, deep_reorgs: true, round_tip: false },
            C13Cfg { oracles: 1, max_chain: 2, streamed: false, restart: false, prefill: 0, retarget: Some((1, 1)), deep_reorgs: false, round_tip: true },
        ],
        Tier::Thorough => vec![
            C13Cfg { oracles: 0, max_chain: 3, streamed: true, restart: false, prefill: 0, retarget: None, deep_reorgs: false, round_tip: false },
            C13Cfg { oracles: 1, max_chain: 4, streamed: true, restart: true, prefill: 0, retarget: None, deep_reorgs: false, round_tip: false },
            C13Cfg { oracles: 2, max_chain: 3, streamed: false, restart: false, prefill: 0, retarget: None, deep_reorgs: false, round_tip: false },
            C13Cfg { oracles: 3, max_chain: 4, streamed: true, restart: true, prefill: 0, retarget: None, deep_reorgs: false, round_tip: false },
            C13Cfg { oracles: 4, max_chain: 3, streamed: false, restart: false, prefill: 0, retarget: None, deep_reorgs: false, round_tip: false },
            C13Cfg { oracles: 2, max_chain: 2, streamed: true, restart: true, prefill: 101, retarget: None, deep_reorgs: false, round_tip: false },
            C13Cfg { oracles: 1, max_chain: 3, streamed: false, restart: true, prefill: 0, retarget: Some((0, 6)), deep_reorgs: false, round_tip: false },
            C13Cfg { oracles: 1, max_chain: 3, streamed: false, restart: true, prefill: 0, retarget: Some((1, 6)), deep_reorgs: false, round_tip: false },
            C13Cfg { oracles: 1, max_chain: 3, streamed: false, restart: true, prefill: 0, retarget: Some((2, 6)), deep_reorgs: false, round_tip: false },
            C13Cfg { oracles: 1, max_chain: 2, streamed: false, restart: false, prefill: 0, retarget: Some((0, 0)), deep_reorgs: false, round_tip: false },
            C13Cfg { oracles: 1, max_chain: 2, streamed: false, restart: false, prefill: 0, retarget: Some((0, 1)), deep_reorgs: false, round_tip: false },
            C13Cfg { oracles: 1, max_chain: 2, streamed: false, restart: false, prefill: 0, retarget: Some((1, 2)), deep_reorgs: false, round_tip: false },
            C13Cfg { oracles: 1, max_chain: 2, streamed: false, restart: false, prefill: 0, retarget: Some((0, 3)), deep_reorgs: false, round_tip: false },
            C13Cfg { oracles: 1, max_chain: 3, streamed: false, restart: true, prefill: 0, retarget: Some((2, 1)), deep_reorgs: false, round_tip: true },
            C13Cfg { oracles: 1, max_chain: 2, streamed: false, restart: false, prefill: 0, retarget: Some((0, 1)), deep_reorgs: false, round_tip: true },
            C13Cfg { oracles: 2, max_chain: 3, streamed: false, restart: false, prefill: 0, retarget: None, deep_reorgs: true, round_tip: false },
            C13Cfg { oracles: 1, max_chain: 2, streamed: true, restart: false, prefill: 0, retarget: None, deep_reorgs: true, round_tip: false },
        ],
    }
}

pub struct Run13 {
    pub stats: BfsStats,
    pub found: Vec<Found>,
    pub models: Vec<String>,
}

pub fn explore(tier: Tier, wall_s: f64) -> Run13 {
    let cfgs = configs(tier);
    let mut stats = BfsStats { closed: true, ..Default::default() };
    let mut found = vec![];
    let mut models = vec![];
    let per = wall_s / cfgs.len() as f64;
    for cfg in cfgs {
        let m = C13Model { cfg };
        let lim = Limits { max_depth: 14, max_states: 2_000_000, wall_s: per };
        let st = bfs(&m, &lim, &mut found);
        models.push(format!("{}: states={} transitions={} closed={} depth={}", m.name(), st.states, st.transitions, st.closed, st.max_depth));
        merge_stats(&mut stats, &st);
    }
    Run13 { stats, found, models }
}

pub fn replay_ops(v: &serde_json::Value) -> Vec<Vio> {
    let cfg: C13Cfg = serde_json::from_value(v["cfg"].clone()).expect("chain13 cfg");
    let ops: Vec<Op> = serde_json::from_value(v["ops"].clone()).expect("chain13 ops");
    crate::vmc::replay(&C13Model { cfg }, &ops)
}
