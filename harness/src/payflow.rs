//! C06: approved invoices are never overpaid in flight; unbacked payments are refused.
//!
//! One real node, two funded channels, histories of commitment updates (holder validate /
//! revoke, counterparty sign / revoke) with HTLC sets over an approved hash H1 and an unapproved
//! hash H2, invoice approval, preimage disclosure and restarts.  Ghost ledger = the contents the
//! harness sent and the signer accepted as current holder / current counterparty commitment.

use crate::ev::*;
use crate::monitors::*;
use crate::scenario::*;
use crate::vmc::*;
use crate::world::*;
use lightning_signer::bitcoin::secp256k1::PublicKey;
use lightning_signer::lightning::types::payment::PaymentPreimage;
use lightning_signer::util::test_utils::build_tx_scripts;
use serde::{Deserialize, Serialize};
use std::collections::{BTreeMap, BTreeSet};

pub const A_SAT: u64 = 100_000;
pub const ALLOWANCE_MSAT: u64 = 222_000; // regtest default max_routing_fee_msat

#[derive(Clone, Copy, Debug, PartialEq, Eq, Hash, PartialOrd, Ord, Serialize, Deserialize)]
pub enum PC {
    E,
    Oh,
    O1,
    Ox,
    O2,
    I1,
    I2O2,
    O1x2,
}

#[derive(Clone, Debug, PartialEq, Eq, Hash, Serialize, Deserialize)]
pub enum Op {
    Approve,
    SignCp(u64, PC),
    Validate(u64, PC),
    Revoke(u64),
    CpRevoke(u64),
    Fulfil(u64, u8),
    Restart,
    /// force close: the current holder commitment of the channel is signed for broadcast (its
    /// HTLCs stay in flight until they are resolved on chain)
    ForceClose(u64),
    /// the clock moves beyond expiry + prune time of every approval made so far, then a heartbeat
    /// (which prunes completed, expired payments)
    PruneBeat,
}

#[derive(Clone, Default, Debug, Serialize)]
pub struct ChanLedger {
    pub cur_holder: Option<PC>,
    pub pending_holder: Option<PC>,
    pub cur_cp: Option<PC>,
}

#[derive(Clone, Default, Debug, Serialize)]
pub struct Ghost {
    pub approved_msat: BTreeMap<u8, u64>,
    pub chans: BTreeMap<u64, ChanLedger>,
    pub seen: BTreeSet<u8>,
    /// the approval request was presented a second time (the approved amount stays what it was)
    #[serde(default)]
    pub reapproved: bool,
    /// channel 1 was force-closed (offered once per history)
    #[serde(default)]
    pub force_closed: bool,
    /// number of PruneBeat letters so far
    #[serde(default)]
    pub beats: u8,
    /// at the most recent PruneBeat nothing was in flight towards the approved hash in any current
    /// commitment of the ledger, so the approval may have been dropped for good and a following
    /// approval request is a new approval (of the same amount) rather than a repetition
    #[serde(default)]
    pub may_be_pruned: bool,
    /// a preimage was disclosed to the signer
    #[serde(default)]
    pub fulfilled: bool,
}

pub struct PState {
    pub w: Option<World>,
    pub f: BTreeMap<u64, Funded>,
    pub ghost: Ghost,
    pub dead: bool,
    pub nops: usize,
}

#[derive(Clone, Debug, Serialize, Deserialize)]
pub struct PayModel {
    pub max_ops: usize,
    pub contents: Vec<PC>,
    pub k: u64,
    pub monitors: bool,
    pub strict: bool,
    /// false = only counterparty-side updates, approval and preimages (a narrower, deeper search)
    pub holder_letters: bool,
    /// start from a state in which the keysend is approved and a first part (half the amount) is
    /// locked into both current commitments of channel 1
    #[serde(default)]
    pub locked_prefix: bool,
    /// the node-wide payment velocity limit is one msat below the keysend amount: the approval is
    /// declined, and a declined hash must stay as unbacked as one that was never proposed
    #[serde(default)]
    pub declined: bool,
    /// start from a state in which the keysend is approved and an incoming HTLC of the full
    /// amount for the same hash is locked into both current commitments of channel 1 (the node
    /// forwards and pays at once)
    #[serde(default)]
    pub incoming_prefix: bool,
    /// the payment is approved by a BOLT-11 invoice (add_invoice) instead of a keysend
    #[serde(default)]
    pub invoice: bool,
    /// commitment updates go through the raw-transaction entry points (sign_counterparty_commitment_tx,
    /// validate_holder_commitment_tx) with the canonical transaction and its witness scripts
    #[serde(default)]
    pub phase1: bool,
    /// letter PruneBeat (time passes, heartbeat prunes); approval may be asked for again afterwards
    #[serde(default)]
    pub prune: bool,
    /// over the transactional cloud store (prepare / commit after every request)
    #[serde(default)]
    pub cloud: bool,
    /// the node has *issued* invoices (it is the payee) for both hashes: H1 for the full amount, H2
    /// for less than a satoshi; an issued invoice is no approval to pay, and incoming HTLCs that
    /// fulfil it (also one that arrives together with an outgoing HTLC of the same value) must not
    /// make outgoing value pass
    #[serde(default)]
    pub issued: bool,
}

pub fn pc_content(pc: PC) -> Content {
    let base = CHANNEL_VALUE - 2_000;
    let h = |value_sat: u64, hash: u8, cltv: u32| H { value_sat, hash, cltv };
    let (out, inc): (Vec<H>, Vec<H>) = match pc {
        PC::E => (vec![], vec![]),
        PC::Oh => (vec![h(A_SAT / 2, 1, 60)], vec![]),
        PC::O1 => (vec![h(A_SAT, 1, 60)], vec![]),
        PC::Ox => (vec![h(A_SAT + 223, 1, 60)], vec![]),
        PC::O2 => (vec![h(A_SAT, 2, 60)], vec![]),
        PC::I1 => (vec![], vec![h(A_SAT, 1, 100)]),
        PC::I2O2 => (vec![h(A_SAT, 2, 60)], vec![h(A_SAT, 2, 100)]),
        PC::O1x2 => (vec![h(A_SAT / 2, 1, 60), h(A_SAT / 2 + 223, 1, 61)], vec![]),
    };
    let sum: u64 = out.iter().chain(inc.iter()).map(|x| x.value_sat).sum();
    Content { to_holder: base - sum, to_cp: 0, feerate: 1000, out, inc }
}

/// a BOLT-11 invoice of the payee (key 201) for `pay_hash(x)`, one day of expiry
fn bolt11(x: u8, amt_msat: u64, created: u64) -> lightning_signer::invoice::Invoice {
    use lightning_signer::bitcoin::hashes::sha256::Hash as Sha256Hash;
    use lightning_signer::bitcoin::hashes::Hash;
    use lightning_signer::lightning::types::payment::PaymentSecret;
    use lightning_signer::lightning_invoice::{Currency, InvoiceBuilder};
    let key = sk(201);
    lightning_signer::invoice::Invoice::Bolt11(
        InvoiceBuilder::new(Currency::Regtest)
            .description("payflow".into())
            .payment_hash(Sha256Hash::from_byte_array(pay_hash(x).0))
            .payment_secret(PaymentSecret([x; 32]))
            .duration_since_epoch(std::time::Duration::from_secs(created))
            .expiry_time(std::time::Duration::from_secs(86_400))
            .min_final_cltv_expiry_delta(144)
            .amount_milli_satoshis(amt_msat)
            .build_signed(|hash| secp().sign_ecdsa_recoverable(hash, &key))
            .unwrap(),
    )
}

fn out_of(pc: Option<PC>, hash: u8) -> u128 {
    pc.map(|p| pc_content(p).out.iter().filter(|h| h.hash == hash).map(|h| h.value_sat as u128 * 1000).sum()).unwrap_or(0)
}

fn inc_of(pc: Option<PC>, hash: u8) -> u128 {
    pc.map(|p| pc_content(p).inc.iter().filter(|h| h.hash == hash).map(|h| h.value_sat as u128 * 1000).sum()).unwrap_or(0)
}

impl PState {
    fn w(&self) -> &World {
        self.w.as_ref().unwrap()
    }
    fn counters(&self, d: u64) -> (u64, u64, u64) {
        self.w()
            .peek_chan(d, |c| (c.enforcement_state.next_holder_commit_num, c.enforcement_state.next_counterparty_commit_num, c.enforcement_state.next_counterparty_revoke_num))
            .unwrap_or((0, 0, 0))
    }
}

impl PayModel {
    /// the C06 inequality on the ghost ledger, for every approved hash
    /// The update that was just accepted is blamed only if it made the excess larger: an
    /// imbalance that existed before the hash was approved (the tolerated, uninvoiced routed
    /// payment of issue 331 followed by an approval for the same hash) is not caused by a later
    /// update that leaves that hash alone.
    fn check_ledger(&self, s: &PState, before: &BTreeMap<u64, ChanLedger>, op: &Op, vios: &mut Vec<Vio>) {
        let kind = self.kind(op);
        let sums = |chans: &BTreeMap<u64, ChanLedger>, hash: u8| -> (u128, u128) {
            let mut out: u128 = 0;
            let mut inc: u128 = 0;
            for (_, l) in chans.iter() {
                out += out_of(l.cur_holder, hash).max(out_of(l.cur_cp, hash));
                inc += inc_of(l.cur_holder, hash).min(inc_of(l.cur_cp, hash));
            }
            (out, inc)
        };
        for (hash, approved) in s.ghost.approved_msat.iter() {
            let (out, inc) = sums(&s.ghost.chans, *hash);
            let (out0, inc0) = sums(before, *hash);
            let bound = inc + *approved as u128 + ALLOWANCE_MSAT as u128;
            let bound0 = inc0 + *approved as u128 + ALLOWANCE_MSAT as u128;
            let excess = out as i128 - bound as i128;
            let excess0 = (out0 as i128 - bound0 as i128).max(0);
            if excess > excess0 {
                vios.push(Vio {
                    prop: "C06",
                    key: format!("C06:overpaid-in-flight:{}", kind),
                    what: format!(
                        "after {:?} the node has {} msat in flight towards approved hash {} but incoming {} + approved {} + allowance {} = {}; ledger {:?}",
                        op, out, hash, inc, approved, ALLOWANCE_MSAT, bound, s.ghost.chans
                    ),
                });
            }
        }
    }

    /// second clause: an accepted update that introduces an outgoing HTLC for a hash without an
    /// approval, never seen before, not covered by incoming value for that hash in the same update
    fn check_unbacked(&self, s: &PState, op: &Op, pc: PC, vios: &mut Vec<Vio>) {
        let c = pc_content(pc);
        let mut hashes: BTreeSet<u8> = BTreeSet::new();
        for h in &c.out {
            hashes.insert(h.hash);
        }
        for hash in hashes {
            if s.ghost.approved_msat.contains_key(&hash) || s.ghost.seen.contains(&hash) {
                continue;
            }
            let out: u64 = c.out.iter().filter(|h| h.hash == hash).map(|h| h.value_sat).sum();
            let inc: u64 = c.inc.iter().filter(|h| h.hash == hash).map(|h| h.value_sat).sum();
            if inc < out {
                vios.push(Vio {
                    prop: "C06",
                    key: format!("C06:unbacked-outgoing-htlc-accepted:{}", self.kind(op)),
                    what: format!("{:?} accepted an outgoing HTLC of {} sat for hash {} that has no approved invoice, was never seen before and is covered by only {} sat of incoming value in the same update", op, out, hash, inc),
                });
            }
        }
    }

    /// the entry point a letter goes through in this configuration
    fn kind(&self, op: &Op) -> &'static str {
        match op {
            Op::Approve if self.invoice => "add_invoice",
            Op::SignCp(..) if self.phase1 => "sign_counterparty_commitment_tx",
            Op::Validate(..) if self.phase1 => "validate_holder_commitment_tx",
            _ => op_kind(op),
        }
    }

    fn note_seen(&self, s: &mut PState, pc: PC) {
        let c = pc_content(pc);
        for h in c.out.iter().chain(c.inc.iter()) {
            s.ghost.seen.insert(h.hash);
        }
    }
}

fn op_kind(op: &Op) -> &'static str {
    match op {
        Op::Approve => "add_keysend",
        Op::SignCp(..) => "sign_counterparty_commitment_tx_phase2",
        Op::Validate(..) => "validate_holder_commitment_tx_phase2",
        Op::Revoke(_) => "revoke_previous_holder_commitment",
        Op::CpRevoke(_) => "validate_counterparty_revocation",
        Op::Fulfil(..) => "htlcs_fulfilled",
        Op::ForceClose(_) => "sign_holder_commitment_tx_phase2",
        Op::Restart => "restart",
        Op::PruneBeat => "get_heartbeat",
    }
}

impl Model for PayModel {
    type Op = Op;
    type State = PState;

    fn cfg_json(&self) -> serde_json::Value {
        serde_json::to_value(self).unwrap()
    }

    fn name(&self) -> String {
        format!("payflow(ops<={},contents={:?},k={}{}{}{}{})", self.max_ops, self.contents, self.k, if self.strict { ",enforce_balance" } else { "" }, if self.monitors { ",monitors" } else { "" }, if self.holder_letters { "" } else { ",cp-side-only" }, if self.locked_prefix { ",first-part-locked-in" } else { "" }) + if self.declined { ",approval-declined-by-velocity" } else { "" } + if self.incoming_prefix { ",incoming-locked-in" } else { "" } + if self.invoice { ",bolt11-invoice" } else { "" } + if self.phase1 { ",raw-tx-entry-points" } else { "" } + if self.prune { ",prune-beat" } else { "" } + if self.cloud { ",cloud-store" } else { "" } + if self.issued { ",invoices-issued-for-both-hashes" } else { "" }
    }

    fn init(&self) -> PState {
        let mut cfg = WorldCfg::default();
        cfg.cloud = self.cloud;
        if self.strict {
            cfg.policy = Some(strict_policy(cfg.network));
        }
        if self.declined {
            use lightning_signer::util::velocity::{VelocityControlIntervalType, VelocityControlSpec};
            let mut p = cfg.policy.take().unwrap_or_else(|| lightning_signer::policy::simple_validator::make_default_simple_policy(cfg.network));
            p.global_velocity_control = VelocityControlSpec { limit_msat: A_SAT * 1000 - 1, interval_type: VelocityControlIntervalType::Hourly };
            cfg.policy = Some(p);
        }
        let w = World::new(cfg);
        let mut f = BTreeMap::new();
        let mut ghost = Ghost::default();
        for d in [1u64, 2] {
            let fu = fund_channel(&w, d, false, false);
            // counterparty commitment 0 as well
            let c0 = fu.c0.clone();
            let p = fu.cp.point(0);
            let r = w.with_chan(d, |ch| ch.sign_counterparty_commitment_tx_phase2(&p, 0, c0.feerate, c0.to_holder, c0.to_cp, c0.inc_info(), c0.out_info()));
            assert!(r.is_ok(), "sign cp 0: {}", r.tag());
            ghost.chans.insert(d, ChanLedger { cur_holder: Some(PC::E), pending_holder: None, cur_cp: Some(PC::E) });
            f.insert(d, fu);
        }
        if self.issued {
            use lightning_signer::bitcoin::hashes::sha256::Hash as Sha256Hash;
            use lightning_signer::bitcoin::hashes::Hash;
            use lightning_signer::lightning::types::payment::PaymentSecret;
            use lightning_signer::lightning_invoice::{Currency, InvoiceBuilder};
            for (x, amt) in [(1u8, A_SAT * 1000), (2, 500)] {
                let raw = InvoiceBuilder::new(Currency::Regtest)
                    .description("issued".into())
                    .payment_hash(Sha256Hash::from_byte_array(pay_hash(x).0))
                    .payment_secret(PaymentSecret([x + 100; 32]))
                    .duration_since_epoch(std::time::Duration::from_secs(START_TIME))
                    .expiry_time(std::time::Duration::from_secs(86_400))
                    .min_final_cltv_expiry_delta(144)
                    .amount_milli_satoshis(amt)
                    .build_raw()
                    .unwrap();
                let node = w.node.clone();
                let r = call(move || node.sign_bolt11_invoice(raw.clone()).map(|_| ()).map_err(|e| status_kind(&e)));
                assert!(r.is_ok(), "issue invoice for hash {}: {}", x, r.tag());
            }
        }
        let mut s = PState { w: Some(w), f, ghost, dead: false, nops: 0 };
        if self.locked_prefix {
            let mut sink = vec![];
            for op in [Op::Approve, Op::SignCp(1, PC::Oh), Op::Validate(1, PC::Oh), Op::Revoke(1), Op::CpRevoke(1)] {
                self.apply(&mut s, &op, false, &mut sink);
                assert!(!s.dead, "prefix step {:?} failed", op);
            }
            assert!(s.ghost.chans[&1].cur_holder == Some(PC::Oh) && s.ghost.chans[&1].cur_cp == Some(PC::Oh), "prefix did not lock the first part in: {:?}", s.ghost.chans[&1]);
            s.nops = 0;
        }
        if self.incoming_prefix {
            let mut sink = vec![];
            for op in [Op::Approve, Op::Validate(1, PC::I1), Op::Revoke(1), Op::SignCp(1, PC::I1), Op::CpRevoke(1)] {
                self.apply(&mut s, &op, false, &mut sink);
                assert!(!s.dead, "prefix step {:?} failed", op);
            }
            assert!(s.ghost.chans[&1].cur_holder == Some(PC::I1) && s.ghost.chans[&1].cur_cp == Some(PC::I1), "prefix did not lock the incoming HTLC in: {:?}", s.ghost.chans[&1]);
            s.nops = 0;
        }
        // over the transactional store: what the set-up wrote is committed before the search starts
        let _ = s.w().end_request();
        s
    }

    fn alive(&self, s: &PState) -> bool {
        !s.dead
    }

    fn prune_after(&self, v: &Vio) -> bool {
        v.prop == "C06" || (self.monitors && (v.prop == "C10" || v.prop == "C11"))
    }

    fn ops(&self, s: &PState) -> Vec<Op> {
        if s.nops >= self.max_ops {
            return vec![];
        }
        let mut v = vec![];
        if s.ghost.approved_msat.is_empty() || !s.ghost.reapproved || (self.prune && s.ghost.beats > 0) {
            v.push(Op::Approve);
        }
        if self.prune && s.ghost.beats < 2 {
            v.push(Op::PruneBeat);
        }
        if self.holder_letters {
            v.push(Op::Restart);
            if !s.ghost.force_closed {
                v.push(Op::ForceClose(1));
            }
        }
        for d in [1u64, 2] {
            let (nh, nc, nr) = s.counters(d);
            if nh > self.k + 1 || nc > self.k + 1 {
                continue;
            }
            for &pc in &self.contents {
                if self.holder_letters {
                    v.push(Op::Validate(d, pc));
                }
                // a new counterparty commitment can only be signed over a revoked predecessor
                v.push(Op::SignCp(d, pc));
            }
            if self.holder_letters {
                v.push(Op::Revoke(d));
            }
            if nr < nc {
                v.push(Op::CpRevoke(d));
            }
        }
        if !s.ghost.seen.is_empty() {
            v.push(Op::Fulfil(1, 1));
        }
        v
    }

    fn key(&self, s: &PState) -> String {
        format!("{}|{}", fp(&s.w().snapshot()), serde_json::to_string(&s.ghost).unwrap())
    }

    fn apply(&self, s: &mut PState, op: &Op, check: bool, vios: &mut Vec<Vio>) {
        if s.dead {
            return;
        }
        s.nops += 1;
        let mon = check && self.monitors;
        let before = if mon { Some(s.w().snapshot()) } else { None };
        let kind = self.kind(op);
        let mut tag = "ok".to_string();
        match op {
            Op::Restart => {
                let w = s.w.take().unwrap();
                match catch(move || w.restart()) {
                    Ok(w2) => s.w = Some(w2),
                    Err(p) => {
                        vios.push(Vio { prop: "C11", key: "C11:restart-panics:payflow".into(), what: format!("restart panicked: {} at {}", p, last_panic_loc()) });
                        s.dead = true;
                        return;
                    }
                }
            }
            Op::Approve => {
                let node = s.w().node.clone();
                let payee = PublicKey::from_secret_key(&secp(), &sk(201));
                let r = if self.invoice {
                    // the invoice is created "now" (a re-approval after time has passed presents a
                    // fresh invoice for the same hash and amount, as a payee would issue it)
                    let now = s.w().now();
                    let created = if s.ghost.beats == 0 { START_TIME } else { now };
                    call(move || node.add_invoice(bolt11(1, A_SAT * 1000, created)).map_err(|e| status_kind(&e)))
                } else {
                    call(move || node.add_keysend(payee, pay_hash(1), A_SAT * 1000).map_err(|e| status_kind(&e)))
                };
                tag = r.tag();
                if !s.ghost.approved_msat.is_empty() && !s.ghost.may_be_pruned {
                    // the same payment again: whatever the answer, one payment was approved once
                    s.ghost.reapproved = true;
                } else if let Outcome::Ok(true) = r {
                    // first approval, or an approval after the earlier one may have been pruned with
                    // nothing in flight: the amount approved for what is in flight now is A either way
                    s.ghost.approved_msat.insert(1, A_SAT * 1000);
                    s.ghost.may_be_pruned = false;
                }
            }
            Op::PruneBeat => {
                s.ghost.beats += 1;
                // beyond creation + expiry (one day for the invoice, keysends less) + prune time (one day)
                let t = s.w().now() + 3 * 86_400;
                s.w().clock.set(std::time::Duration::from_secs(t));
                let node = s.w().node.clone();
                let r = call(move || Ok::<_, String>(node.get_heartbeat().heartbeat.chain_height));
                tag = r.tag();
                if r.is_panic() {
                    s.dead = true;
                    return;
                }
                let in_flight: u128 = s.ghost.chans.values().map(|l| out_of(l.cur_holder, 1).max(out_of(l.cur_cp, 1)).max(out_of(l.pending_holder, 1))).sum();
                // a payment whose preimage was disclosed is complete as well, whatever is still in the commitments
                s.ghost.may_be_pruned = in_flight == 0 || s.ghost.fulfilled;
            }
            Op::Validate(d, pc) => {
                let (nh, _, _) = s.counters(*d);
                let c = pc_content(*pc);
                let f = &s.f[d];
                let point = s.w().holder_point_raw(*d, nh).unwrap();
                let (sig, hs) = f.params.cp_sign_holder_commitment(&f.cp, nh, &point, &c);
                let r = if self.phase1 {
                    let (ctx, keys) = f.params.holder_commitment(nh, &point, &c);
                    let tx = ctx.trust().built_transaction().transaction.clone();
                    let txp = f.params.tx_params();
                    let ws: Vec<Vec<u8>> = build_tx_scripts(&keys, c.to_holder, c.to_cp, ctx.htlcs(), &txp.as_holder_broadcastable(), &f.params.holder_pubkeys.funding_pubkey, &f.params.setup.counterparty_points.funding_pubkey)
                        .unwrap_or_default()
                        .iter()
                        .map(|x| x.to_bytes())
                        .collect();
                    s.w().with_chan(*d, |ch| ch.validate_holder_commitment_tx(&tx, &ws, nh, c.feerate, c.out_info(), c.inc_info(), &sig, &hs))
                } else {
                    s.w().with_chan(*d, |ch| ch.validate_holder_commitment_tx_phase2(nh, c.feerate, c.to_holder, c.to_cp, c.out_info(), c.inc_info(), &sig, &hs))
                };
                tag = r.tag();
                if r.is_ok() {
                    self.check_unbacked(s, op, *pc, vios);
                    s.ghost.chans.get_mut(d).unwrap().pending_holder = Some(*pc);
                    self.note_seen(s, *pc);
                }
                if r.is_panic() {
                    s.dead = true;
                    return;
                }
            }
            Op::Revoke(d) => {
                let (nh, _, _) = s.counters(*d);
                let r = s.w().with_chan(*d, |ch| ch.revoke_previous_holder_commitment(nh));
                tag = r.tag();
                if r.is_ok() {
                    let (nh2, _, _) = s.counters(*d);
                    let before = s.ghost.chans.clone();
                    let l = s.ghost.chans.get_mut(d).unwrap();
                    if nh2 > nh {
                        if let Some(p) = l.pending_holder.take() {
                            l.cur_holder = Some(p);
                        }
                    }
                    self.check_ledger(s, &before, op, vios);
                }
                if r.is_panic() {
                    s.dead = true;
                    return;
                }
            }
            Op::SignCp(d, pc) => {
                let (_, nc, _) = s.counters(*d);
                let c = pc_content(*pc);
                let p = s.f[d].cp.point(nc);
                let r = if self.phase1 {
                    let f = &s.f[d];
                    let (ctx, keys) = f.params.counterparty_commitment(nc, &p, &c);
                    let tx = ctx.trust().built_transaction().transaction.clone();
                    let txp = f.params.tx_params();
                    let ws: Vec<Vec<u8>> = build_tx_scripts(&keys, c.to_cp, c.to_holder, ctx.htlcs(), &txp.as_counterparty_broadcastable(), &f.params.setup.counterparty_points.funding_pubkey, &f.params.holder_pubkeys.funding_pubkey)
                        .unwrap_or_default()
                        .iter()
                        .map(|x| x.to_bytes())
                        .collect();
                    s.w().with_chan(*d, |ch| ch.sign_counterparty_commitment_tx(&tx, &ws, &p, nc, c.feerate, c.inc_info(), c.out_info()).map(|_| ()))
                } else {
                    s.w().with_chan(*d, |ch| ch.sign_counterparty_commitment_tx_phase2(&p, nc, c.feerate, c.to_holder, c.to_cp, c.inc_info(), c.out_info()).map(|_| ()))
                };
                tag = r.tag();
                if r.is_ok() {
                    self.check_unbacked(s, op, *pc, vios);
                    let before = s.ghost.chans.clone();
                    s.ghost.chans.get_mut(d).unwrap().cur_cp = Some(*pc);
                    self.note_seen(s, *pc);
                    self.check_ledger(s, &before, op, vios);
                }
                if r.is_panic() {
                    s.dead = true;
                    return;
                }
            }
            Op::CpRevoke(d) => {
                let (_, _, nr) = s.counters(*d);
                let sec = s.f[d].cp.secret(nr);
                let r = s.w().with_chan(*d, |ch| ch.validate_counterparty_revocation(nr, &sec));
                tag = r.tag();
                if r.is_panic() {
                    s.dead = true;
                    return;
                }
            }
            Op::ForceClose(d) => {
                let (nh, _, _) = s.counters(*d);
                let n = nh.saturating_sub(1);
                let r = s.w().with_chan(*d, |ch| ch.sign_holder_commitment_tx_phase2(n).map(|_| ()));
                tag = r.tag();
                if r.is_ok() {
                    s.ghost.force_closed = true;
                }
                if r.is_panic() {
                    s.dead = true;
                    return;
                }
            }
            Op::Fulfil(d, h) => {
                let pre = preimage(*h);
                let r = s.w().with_chan(*d, |ch| {
                    ch.htlcs_fulfilled(vec![PaymentPreimage(pre)]);
                    Ok(())
                });
                tag = r.tag();
                s.ghost.fulfilled = true;
                if r.is_panic() {
                    s.dead = true;
                    return;
                }
            }
        }
        if !matches!(op, Op::Restart) {
            end_cloud_request(s.w(), kind, &tag, mon, vios);
        }
        if mon && !matches!(op, Op::Restart) {
            if tag.starts_with("err:") {
                let after = s.w().snapshot();
                refusal_monitor(before.as_ref().unwrap(), &after, kind, &tag[4..], vios);
            }
            durability_monitor(s.w(), kind, &tag, vios);
        }
    }
}

pub struct PayRun {
    pub stats: BfsStats,
    pub found: Vec<Found>,
    pub models: Vec<String>,
}

pub fn explore(tier: Tier, monitors: bool, wall_s: f64) -> PayRun {
    let models_cfg: Vec<PayModel> = match (tier, monitors) {
        (Tier::Quick, false) => vec![
            PayModel { max_ops: 4, contents: vec![PC::E, PC::Oh, PC::O1, PC::O2, PC::I1], k: 2, monitors, strict: false, holder_letters: true, locked_prefix: false, declined: false, incoming_prefix: false, invoice: false, phase1: false, prune: false, cloud: false, issued: false },
            PayModel { max_ops: 6, contents: vec![PC::Oh, PC::O1], k: 3, monitors, strict: false, holder_letters: false, locked_prefix: false, declined: false, incoming_prefix: false, invoice: false, phase1: false, prune: false, cloud: false, issued: false },
            PayModel { max_ops: 3, contents: vec![PC::E, PC::Oh, PC::O1, PC::O1x2], k: 3, monitors, strict: false, holder_letters: true, locked_prefix: true, declined: false, incoming_prefix: false, invoice: false, phase1: false, prune: false, cloud: false, issued: false },
            PayModel { max_ops: 3, contents: vec![PC::E, PC::Oh, PC::O1, PC::O2], k: 2, monitors, strict: false, holder_letters: true, locked_prefix: false, declined: true, incoming_prefix: false, invoice: false, phase1: false, prune: false, cloud: false, issued: false },
            PayModel { max_ops: 3, contents: vec![PC::E, PC::O1, PC::Ox, PC::I1], k: 3, monitors, strict: false, holder_letters: true, locked_prefix: false, declined: false, incoming_prefix: true, invoice: false, phase1: false, prune: false, cloud: false, issued: false },
            // approval by a BOLT-11 invoice, updates through the raw-transaction entry points
            PayModel { max_ops: 4, contents: vec![PC::O1, PC::Ox, PC::O2], k: 2, monitors, strict: false, holder_letters: true, locked_prefix: false, declined: false, incoming_prefix: false, invoice: true, phase1: true, prune: false, cloud: false, issued: false },
            PayModel { max_ops: 6, contents: vec![PC::Oh, PC::O1], k: 3, monitors, strict: false, holder_letters: false, locked_prefix: false, declined: false, incoming_prefix: false, invoice: true, phase1: true, prune: false, cloud: false, issued: false },
            // time passes, heartbeats prune expired approvals, the approval is asked for again
            PayModel { max_ops: 5, contents: vec![PC::E, PC::O1], k: 3, monitors, strict: false, holder_letters: false, locked_prefix: false, declined: false, incoming_prefix: false, invoice: false, phase1: false, prune: true, cloud: false, issued: false },
            PayModel { max_ops: 5, contents: vec![PC::E, PC::O1], k: 3, monitors, strict: false, holder_letters: false, locked_prefix: false, declined: false, incoming_prefix: false, invoice: true, phase1: false, prune: true, cloud: false, issued: false },
            // the node is also the payee of invoices it issued for both hashes
            PayModel { max_ops: 4, contents: vec![PC::O1, PC::O2, PC::I1, PC::I2O2], k: 2, monitors, strict: false, holder_letters: true, locked_prefix: false, declined: false, incoming_prefix: false, invoice: false, phase1: false, prune: false, cloud: false, issued: true },
            PayModel { max_ops: 4, contents: vec![PC::O1, PC::O2, PC::I1, PC::I2O2], k: 2, monitors, strict: true, holder_letters: true, locked_prefix: false, declined: false, incoming_prefix: false, invoice: false, phase1: false, prune: false, cloud: false, issued: true },
        ],
        (Tier::Quick, true) => vec![
            PayModel { max_ops: 3, contents: vec![PC::E, PC::O1, PC::O2, PC::Ox], k: 2, monitors, strict: false, holder_letters: true, locked_prefix: false, declined: false, incoming_prefix: false, invoice: false, phase1: false, prune: false, cloud: false, issued: false },
            PayModel { max_ops: 3, contents: vec![PC::O1, PC::O2], k: 2, monitors, strict: false, holder_letters: true, locked_prefix: false, declined: false, incoming_prefix: false, invoice: true, phase1: true, prune: true, cloud: true, issued: false },
        ],
        (Tier::Thorough, _) => vec![
            PayModel { max_ops: 6, contents: vec![PC::E, PC::Oh, PC::O1, PC::Ox, PC::O2, PC::I1, PC::I2O2, PC::O1x2], k: 2, monitors, strict: false, holder_letters: true, locked_prefix: false, declined: false, incoming_prefix: false, invoice: false, phase1: false, prune: false, cloud: false, issued: false },
            PayModel { max_ops: 5, contents: vec![PC::E, PC::Oh, PC::O1, PC::O2, PC::I1], k: 2, monitors, strict: true, holder_letters: true, locked_prefix: false, declined: false, incoming_prefix: false, invoice: false, phase1: false, prune: false, cloud: false, issued: false },
            PayModel { max_ops: 5, contents: vec![PC::E, PC::Oh, PC::O1, PC::Ox, PC::O1x2, PC::I1], k: 3, monitors, strict: false, holder_letters: true, locked_prefix: true, declined: false, incoming_prefix: false, invoice: false, phase1: false, prune: false, cloud: false, issued: false },
            PayModel { max_ops: 5, contents: vec![PC::E, PC::Oh, PC::O1, PC::O2, PC::I1], k: 2, monitors, strict: false, holder_letters: true, locked_prefix: false, declined: true, incoming_prefix: false, invoice: false, phase1: false, prune: false, cloud: false, issued: false },
            PayModel { max_ops: 5, contents: vec![PC::E, PC::Oh, PC::O1, PC::Ox, PC::O1x2, PC::I1], k: 3, monitors, strict: false, holder_letters: true, locked_prefix: false, declined: false, incoming_prefix: true, invoice: false, phase1: false, prune: false, cloud: false, issued: false },
            PayModel { max_ops: 5, contents: vec![PC::E, PC::Oh, PC::O1, PC::Ox, PC::O2, PC::I1], k: 2, monitors, strict: false, holder_letters: true, locked_prefix: false, declined: false, incoming_prefix: false, invoice: true, phase1: true, prune: false, cloud: false, issued: false },
            PayModel { max_ops: 6, contents: vec![PC::E, PC::Oh, PC::O1], k: 3, monitors, strict: false, holder_letters: true, locked_prefix: false, declined: false, incoming_prefix: false, invoice: false, phase1: false, prune: true, cloud: false, issued: false },
            PayModel { max_ops: 6, contents: vec![PC::E, PC::Oh, PC::O1], k: 3, monitors, strict: false, holder_letters: true, locked_prefix: false, declined: false, incoming_prefix: false, invoice: true, phase1: false, prune: true, cloud: false, issued: false },
            PayModel { max_ops: 5, contents: vec![PC::E, PC::O1, PC::Ox, PC::O2, PC::I1, PC::I2O2], k: 2, monitors, strict: false, holder_letters: true, locked_prefix: false, declined: false, incoming_prefix: false, invoice: false, phase1: false, prune: true, cloud: false, issued: true },
            PayModel { max_ops: 5, contents: vec![PC::E, PC::O1, PC::Ox, PC::O2, PC::I1, PC::I2O2], k: 2, monitors, strict: true, holder_letters: true, locked_prefix: false, declined: false, incoming_prefix: false, invoice: false, phase1: false, prune: false, cloud: false, issued: true },
        ],
    };
    let mut stats = BfsStats { closed: true, ..Default::default() };
    let mut found = vec![];
    let mut models = vec![];
    // small configurations first; what they do not use is available to the later ones
    let mut models_cfg = models_cfg;
    models_cfg.reverse();
    let t0 = std::time::Instant::now();
    let n = models_cfg.len();
    for (i, m) in models_cfg.into_iter().enumerate() {
        let per = (wall_s - t0.elapsed().as_secs_f64()).max(1.0) / (n - i) as f64;
        let lim = Limits { max_depth: m.max_ops, max_states: 3_000_000, wall_s: per };
        let st = bfs(&m, &lim, &mut found);
        models.push(format!("{}: states={} transitions={} closed={} bounded_complete={} depth={} t={:.1}s", m.name(), st.states, st.transitions, st.closed, st.bounded_complete, st.max_depth, st.wall_s));
        merge_stats(&mut stats, &st);
    }
    PayRun { stats, found, models }
}

pub fn replay_ops(v: &serde_json::Value) -> Vec<Vio> {
    let m: PayModel = serde_json::from_value(v["cfg"].clone()).expect("payflow cfg");
    let ops: Vec<Op> = serde_json::from_value(v["ops"].clone()).expect("payflow ops");
    crate::vmc::replay(&m, &ops)
}
