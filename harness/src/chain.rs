//! Real blocks for the chain tracker: regtest headers mined by nonce search, txoo filter headers,
//! attestations signed by harness oracle keys, proofs built by `TxoProof::prove` from the tracker's
//! own watches (as the frontend does), compact or streamed delivery.

use crate::world::*;
use lightning_signer::bitcoin::absolute::LockTime;
use lightning_signer::bitcoin::block::{Header as BlockHeader, Version as BlockVersion};
use lightning_signer::bitcoin::consensus::serialize;
use lightning_signer::bitcoin::hash_types::{FilterHeader, TxMerkleNode};
use lightning_signer::bitcoin::hashes::Hash;
use lightning_signer::bitcoin::key::Keypair;
use lightning_signer::bitcoin::merkle_tree;
use lightning_signer::bitcoin::secp256k1::{PublicKey, SecretKey};
use lightning_signer::bitcoin::transaction::Version;
use lightning_signer::bitcoin::{
    Amount, Block, BlockHash, CompactTarget, OutPoint, ScriptBuf, Sequence, Transaction, TxIn, TxOut, Txid, Witness,
};
use lightning_signer::chain::tracker::{ChainTracker, Error as TrackerError, Headers};
use lightning_signer::monitor::ChainMonitor;
use lightning_signer::txoo::filter::BlockSpendFilter;
use lightning_signer::txoo::proof::{ProofType, TxoProof};
use lightning_signer::txoo::util::sign_attestation;
use lightning_signer::txoo::{Attestation, SignedAttestation};
use vls_protocol::msgs::{self, Message};
use vls_protocol::serde_bolt::Octets;

pub fn oracle_key(i: u8) -> SecretKey {
    sk(220 + i)
}

pub fn oracle_pub(i: u8) -> PublicKey {
    PublicKey::from_secret_key(&secp(), &oracle_key(i))
}

/// a coinbase-like transaction that makes every block unique
pub fn coinbase(height: u32, salt: u32) -> Transaction {
    Transaction {
        version: Version::non_standard(0),
        lock_time: LockTime::from_consensus(height),
        input: vec![TxIn {
            previous_output: OutPoint::null(),
            script_sig: ScriptBuf::from_bytes(salt.to_le_bytes().to_vec()),
            sequence: Sequence::MAX,
            witness: Witness::default(),
        }],
        output: vec![TxOut { value: Amount::from_sat(50_0000_0000), script_pubkey: ScriptBuf::new() }],
    }
}

pub fn mine(prev_hash: BlockHash, merkle_root: TxMerkleNode, bits: CompactTarget, time: u32) -> BlockHeader {
    let mut nonce = 0;
    loop {
        let header = BlockHeader { version: BlockVersion::from_consensus(0), prev_blockhash: prev_hash, merkle_root, time, bits, nonce };
        if header.validate_pow(header.target()).is_ok() {
            return header;
        }
        nonce += 1;
        // every target the harness mines for is met by at least one hash in a few thousand
        assert!(nonce < (1 << 24), "unminable target: bits {:#x}", bits.to_consensus());
    }
}

/// a header that does NOT meet its target
pub fn mine_bad_pow(prev_hash: BlockHash, merkle_root: TxMerkleNode, bits: CompactTarget) -> BlockHeader {
    let mut nonce = 0;
    loop {
        let header = BlockHeader { version: BlockVersion::from_consensus(0), prev_blockhash: prev_hash, merkle_root, time: 0, bits, nonce };
        if header.validate_pow(header.target()).is_err() {
            return header;
        }
        nonce += 1;
    }
}

pub fn merkle_root(txs: &[Transaction]) -> TxMerkleNode {
    let ids = txs.iter().map(|t| t.compute_txid().to_raw_hash());
    TxMerkleNode::from_raw_hash(merkle_tree::calculate_root(ids).unwrap())
}

pub fn make_block(prev: &BlockHeader, height: u32, salt: u32, mut txs: Vec<Transaction>) -> Block {
    let mut all = vec![coinbase(height, salt)];
    all.append(&mut txs);
    let header = mine(prev.block_hash(), merkle_root(&all), prev.bits, 0);
    Block { header, txdata: all }
}

/// Like `make_block`, but the first block of a difficulty period (height a multiple of 2016)
/// really changes the target: twice as easy as its predecessor's (allowed: within a factor of four,
/// and the predecessors used with this are at least twice as hard as the network maximum).
pub fn make_block_retargeting(prev: &BlockHeader, height: u32, salt: u32, mut txs: Vec<Transaction>) -> Block {
    let mut all = vec![coinbase(height, salt)];
    all.append(&mut txs);
    let bits = if height % 2016 == 0 {
        crate::chain13::shift_target(lightning_signer::bitcoin::Target::from_compact(prev.bits), true, 1).to_compact_lossy()
    } else {
        prev.bits
    };
    let header = mine(prev.block_hash(), merkle_root(&all), bits, 0);
    Block { header, txdata: all }
}

pub fn filter_header_of(block: &Block, prev_filter_header: &FilterHeader) -> FilterHeader {
    BlockSpendFilter::from_block(block).filter_header(prev_filter_header)
}

pub fn attest(block_hash: BlockHash, height: u32, filter_header: FilterHeader, key: &SecretKey) -> (PublicKey, SignedAttestation) {
    let s = secp();
    let kp = Keypair::from_secret_key(&s, key);
    let att = Attestation { block_hash, block_height: height, filter_header, time: 0 };
    (PublicKey::from_secret_key(&s, key), sign_attestation(att, &kp, &s))
}

#[derive(Clone, Copy, Debug, PartialEq, Eq, Hash, serde::Serialize, serde::Deserialize)]
pub enum Delivery {
    Compact,
    Streamed,
}

/// Build the proof the frontend would build for `block` at `height` on top of `prev_filter_header`.
pub fn make_proof(
    block: &Block,
    height: u32,
    prev_filter_header: &FilterHeader,
    attestors: &[SecretKey],
    outpoint_watches: &[OutPoint],
    txid_watches: &[Txid],
) -> TxoProof {
    let fh = filter_header_of(block, prev_filter_header);
    let atts: Vec<_> = attestors.iter().map(|k| attest(block.block_hash(), height, fh, k)).collect();
    TxoProof::prove(atts, prev_filter_header, block, height, outpoint_watches, txid_watches)
}

/// The harness's own copy of the best chain above the tracker's starting tip.
#[derive(Clone)]
pub struct SimChain {
    pub base: Headers,
    pub base_height: u32,
    pub blocks: Vec<(Block, FilterHeader)>,
}

impl SimChain {
    pub fn new(base: Headers, base_height: u32) -> SimChain {
        SimChain { base, base_height, blocks: vec![] }
    }
    pub fn tip(&self) -> Headers {
        match self.blocks.last() {
            Some((b, fh)) => Headers(b.header, *fh),
            None => self.base.clone(),
        }
    }
    pub fn prev_of_tip(&self) -> Headers {
        let n = self.blocks.len();
        if n >= 2 {
            Headers(self.blocks[n - 2].0.header, self.blocks[n - 2].1)
        } else {
            self.base.clone()
        }
    }
    pub fn height(&self) -> u32 {
        self.base_height + self.blocks.len() as u32
    }
    /// height at which txid is confirmed on the current chain
    pub fn confirmed_at(&self, txid: &Txid) -> Option<u32> {
        for (i, (b, _)) in self.blocks.iter().enumerate() {
            if b.txdata.iter().any(|t| t.compute_txid() == *txid) {
                return Some(self.base_height + 1 + i as u32);
            }
        }
        None
    }
    pub fn is_spent(&self, op: &OutPoint) -> bool {
        self.blocks.iter().any(|(b, _)| b.txdata.iter().any(|t| t.input.iter().any(|i| i.previous_output == *op)))
    }
}

pub fn tracker_err_kind(e: &TrackerError) -> String {
    match e {
        TrackerError::InvalidChain => "InvalidChain".into(),
        TrackerError::OrphanBlock(_) => "OrphanBlock".into(),
        TrackerError::InvalidBlock => "InvalidBlock".into(),
        TrackerError::BlockDecodeError => "BlockDecodeError".into(),
        TrackerError::ReorgTooDeep => "ReorgTooDeep".into(),
        TrackerError::InvalidProof => "InvalidProof".into(),
    }
}

fn chunks_of(block: &Block) -> Vec<(u32, Vec<u8>)> {
    let bytes = serialize(block);
    let mid = 81.min(bytes.len()); // header + first byte of the tx count, then the rest
    let mid2 = (mid + (bytes.len() - mid) / 2).max(mid);
    let mut v = vec![(0u32, bytes[..mid].to_vec())];
    if mid2 > mid {
        v.push((mid as u32, bytes[mid..mid2].to_vec()));
    }
    if bytes.len() > mid2 {
        v.push((mid2 as u32, bytes[mid2..].to_vec()));
    }
    v
}

impl World {
    pub fn tracker_tip(&self) -> (Headers, u32) {
        let t = self.node.get_tracker();
        (t.tip().clone(), t.height())
    }

    pub fn attestors(&self) -> Vec<SecretKey> {
        // the world is configured with oracle_pubkeys = oracle_pub(0..n); attest with all of them
        // (or with oracle 0 when no oracle is configured: a proof needs at least one attestation)
        let n = self.cfg.oracle_pubkeys.len().max(1);
        (0..n as u8).map(oracle_key).collect()
    }

    /// Connect a block through the protocol messages (AddBlock, or BlockChunk* + AddBlock).
    pub fn connect(&self, chain: &mut SimChain, block: Block, delivery: Delivery) -> Outcome<()> {
        let height = chain.height() + 1;
        let prev_fh = chain.tip().1;
        let (txids, outpoints) = self.node.get_tracker().get_all_forward_watches();
        let mut proof = make_proof(&block, height, &prev_fh, &self.attestors(), &outpoints, &txids);
        let fh = filter_header_of(&block, &prev_fh);
        let stream = delivery == Delivery::Streamed || matches!(proof.proof, ProofType::Block(_));
        if stream {
            proof = TxoProof { attestations: proof.attestations, proof: ProofType::ExternalBlock() };
            for (off, c) in chunks_of(&block) {
                let r = self.root_msg(Message::BlockChunk(msgs::BlockChunk { hash: block.block_hash(), offset: off, content: Octets(c) }));
                if !r.is_ok() {
                    return match r {
                        Outcome::Err(e) => Outcome::Err(e),
                        Outcome::Panic(p) => Outcome::Panic(p),
                        _ => unreachable!(),
                    };
                }
            }
        }
        let m = msgs::AddBlock { header: Octets(serialize(&block.header)), unspent_proof: Some(msgs::DebugTxoProof(proof)) };
        let r = self.root_msg(Message::AddBlock(m));
        match r {
            Outcome::Ok(Message::AddBlockReply(_)) => {
                chain.blocks.push((block, fh));
                Outcome::Ok(())
            }
            Outcome::Ok(m) => Outcome::Err(format!("reply:{}", format!("{:?}", m).chars().take(40).collect::<String>())),
            Outcome::Err(e) => Outcome::Err(e),
            Outcome::Panic(p) => Outcome::Panic(p),
        }
    }

    /// Connect a block streamed, running `between` after the second of its three chunks has
    /// been delivered and before the last: what a request that arrives mid-stream sees.
    pub fn connect_streamed_with(&self, chain: &mut SimChain, block: Block, between: impl FnOnce()) -> Outcome<()> {
        let height = chain.height() + 1;
        let prev_fh = chain.tip().1;
        let fh = filter_header_of(&block, &prev_fh);
        let mut between = Some(between);
        for (i, (off, c)) in chunks_of(&block).into_iter().enumerate() {
            let r = self.root_msg(Message::BlockChunk(msgs::BlockChunk { hash: block.block_hash(), offset: off, content: Octets(c) }));
            if !r.is_ok() {
                return match r {
                    Outcome::Err(e) => Outcome::Err(e),
                    Outcome::Panic(p) => Outcome::Panic(p),
                    _ => unreachable!(),
                };
            }
            // after the second chunk: the block start has certainly been announced by then
            if i == 1 {
                if let Some(f) = between.take() {
                    f();
                }
            }
        }
        // the proof is made after the hook: it covers the watches that exist by then
        let (txids, outpoints) = self.node.get_tracker().get_all_forward_watches();
        let proof = make_proof(&block, height, &prev_fh, &self.attestors(), &outpoints, &txids);
        let proof = TxoProof { attestations: proof.attestations, proof: ProofType::ExternalBlock() };
        let m = msgs::AddBlock { header: Octets(serialize(&block.header)), unspent_proof: Some(msgs::DebugTxoProof(proof)) };
        match self.root_msg(Message::AddBlock(m)) {
            Outcome::Ok(Message::AddBlockReply(_)) => {
                chain.blocks.push((block, fh));
                Outcome::Ok(())
            }
            Outcome::Ok(m) => Outcome::Err(format!("reply:{}", format!("{:?}", m).chars().take(40).collect::<String>())),
            Outcome::Err(e) => Outcome::Err(e),
            Outcome::Panic(p) => Outcome::Panic(p),
        }
    }

    /// Disconnect the tip block through the protocol messages.
    pub fn disconnect(&self, chain: &mut SimChain, delivery: Delivery) -> Outcome<()> {
        let (block, _fh) = match chain.blocks.last() {
            Some(b) => b.clone(),
            None => return Outcome::Err("empty".into()),
        };
        let height = chain.height();
        let prev = chain.prev_of_tip();
        let (txids, outpoints) = self.node.get_tracker().get_all_reverse_watches();
        let mut proof = make_proof(&block, height, &prev.1, &self.attestors(), &outpoints, &txids);
        let stream = delivery == Delivery::Streamed || matches!(proof.proof, ProofType::Block(_));
        if stream {
            proof = TxoProof { attestations: proof.attestations, proof: ProofType::ExternalBlock() };
            for (off, c) in chunks_of(&block) {
                let r = self.root_msg(Message::BlockChunk(msgs::BlockChunk { hash: block.block_hash(), offset: off, content: Octets(c) }));
                if !r.is_ok() {
                    return match r {
                        Outcome::Err(e) => Outcome::Err(e),
                        Outcome::Panic(p) => Outcome::Panic(p),
                        _ => unreachable!(),
                    };
                }
            }
        }
        let m = msgs::RemoveBlock {
            unspent_proof: Some(vls_protocol::serde_bolt::LargeOctets(serialize(&proof))),
            prev_block_header: prev.0,
            prev_filter_header: prev.1,
        };
        let r = self.root_msg(Message::RemoveBlock(m));
        match r {
            Outcome::Ok(_) => {
                chain.blocks.pop();
                Outcome::Ok(())
            }
            Outcome::Err(e) => Outcome::Err(e),
            Outcome::Panic(p) => Outcome::Panic(p),
        }
    }

    pub fn new_sim_chain(&self) -> SimChain {
        let (tip, h) = self.tracker_tip();
        SimChain::new(tip, h)
    }

    /// direct access for C13: a request to the tracker exactly as the handler makes it, but with
    /// the error returned instead of turned into a panic
    pub fn tracker_add(&self, header: BlockHeader, proof: TxoProof) -> Outcome<()> {
        let node = self.node.clone();
        call(move || {
            let mut t = node.get_tracker();
            let r = t.add_block(header, proof.clone()).map_err(|e| tracker_err_kind(&e));
            if r.is_ok() {
                node.get_persister().update_tracker(&node.get_id(), &t).map_err(|_| "persist".to_string())?;
            }
            r
        })
    }

    pub fn tracker_remove(&self, proof: TxoProof, prev: Headers) -> Outcome<()> {
        let node = self.node.clone();
        call(move || {
            let mut t = node.get_tracker();
            let r = t.remove_block(proof.clone(), prev.clone()).map(|_| ()).map_err(|e| tracker_err_kind(&e));
            if r.is_ok() {
                node.get_persister().update_tracker(&node.get_id(), &t).map_err(|_| "persist".to_string())?;
            }
            r
        })
    }

    pub fn tracker_chunk(&self, hash: BlockHash, offset: u32, chunk: &[u8]) -> Outcome<()> {
        let node = self.node.clone();
        let chunk = chunk.to_vec();
        call(move || {
            let mut t = node.get_tracker();
            t.block_chunk(hash, offset, &chunk).map_err(|e| tracker_err_kind(&e))
        })
    }
}

pub fn stream_chunks(block: &Block) -> Vec<(u32, Vec<u8>)> {
    chunks_of(block)
}

pub fn simple_tx(inputs: Vec<OutPoint>, outputs: Vec<(u64, ScriptBuf)>, salt: u32) -> Transaction {
    Transaction {
        version: Version::TWO,
        lock_time: LockTime::from_consensus(salt),
        input: inputs
            .into_iter()
            .map(|previous_output| TxIn { previous_output, script_sig: ScriptBuf::new(), sequence: Sequence::MAX, witness: Witness::default() })
            .collect(),
        output: outputs.into_iter().map(|(v, s)| TxOut { value: Amount::from_sat(v), script_pubkey: s }).collect(),
    }
}

pub type Tracker = ChainTracker<ChainMonitor>;
