//! C19: protocol messages survive the wire unchanged (DESIGN 7.4).
//!
//! `wire_gen.rs` is generated from `vls-protocol/src/msgs.rs` at check time and contains one
//! builder/checker per message type of the registry.  This module provides the value alphabets
//! (`Alph`), the per-case oracle (`CaseOut`) and the enumeration: the all-base case, every single
//! deviation and (thorough) every pair of deviations of every type.

use crate::ev::*;
use lightning_signer::bitcoin::absolute::LockTime;
use lightning_signer::bitcoin::bip32::{ChildNumber, DerivationPath, Fingerprint, Xpriv, Xpub};
use lightning_signer::bitcoin::consensus::Encodable;
use lightning_signer::bitcoin::hashes::Hash;
use lightning_signer::bitcoin::psbt::Psbt;
use lightning_signer::bitcoin::transaction::Version;
pub use lightning_signer::bitcoin::block::Header as BlockHeader;
pub use lightning_signer::bitcoin::{BlockHash, OutPoint, Transaction, Txid};
use lightning_signer::bitcoin::{Amount, Network, ScriptBuf, Sequence, TxIn, TxOut, Witness};
pub use txoo::bitcoin::hash_types::FilterHeader;
use serde_json::json;
use std::collections::BTreeSet;
pub use vls_protocol::model::*;
use vls_protocol::msgs;
pub use vls_protocol::msgs::DebugTxoProof;
pub use vls_protocol::psbt::{PsbtWrapper, StreamedPSBT};
pub use vls_protocol::serde_bolt::{Array, ArrayBE, LargeOctets, Octets, WireString, WithSize};

/// the largest message the protocol carries
pub const MAX_MESSAGE: usize = 128 * 1024;

thread_local! {
    /// length of the filler of the "fill the message up to the maximum size" variants, set by the
    /// case runner (two passes: measure with 0, then fill)
    static FILL_LEN: std::cell::Cell<usize> = std::cell::Cell::new(0);
    static FILL_USED: std::cell::Cell<bool> = std::cell::Cell::new(false);
}

fn fill_len() -> usize {
    FILL_USED.with(|u| u.set(true));
    FILL_LEN.with(|l| l.get())
}

/// A transport that hands out at most `max` bytes per read call (a serial line, a segmented socket).
struct Segmented<'a> {
    data: &'a [u8],
    pos: usize,
    max: usize,
}
impl<'a> vls_protocol::serde_bolt::io::Read for Segmented<'a> {
    fn read(&mut self, buf: &mut [u8]) -> vls_protocol::serde_bolt::io::Result<usize> {
        let n = buf.len().min(self.max).min(self.data.len() - self.pos);
        buf[..n].copy_from_slice(&self.data[self.pos..self.pos + n]);
        self.pos += n;
        Ok(n)
    }
}

/// Two copies of the frame (u32 length, type, body) back to back over a segmented transport: the
/// raw reader returns the encoding unchanged both times and the decoding reader yields a message
/// that encodes to the same bytes.
pub fn framed_transport(bytes: &[u8], failures: &mut Vec<String>) {
    let mut wire = vec![];
    for _ in 0..2 {
        wire.extend((bytes.len() as u32).to_be_bytes());
        wire.extend_from_slice(bytes);
    }
    for max in [1usize, 64, 4096] {
        let mut r = Segmented { data: &wire, pos: 0, max };
        for round in 0..2 {
            match msgs::read_raw(&mut r) {
                Ok(b) if b == bytes => {}
                Ok(b) => failures.push(format!("frame {} read in segments of <= {} bytes differs from what was sent ({} bytes, first difference at {:?})", round, max, b.len(), b.iter().zip(bytes.iter()).position(|(x, y)| x != y))),
                Err(e) => failures.push(format!("frame {} over a transport with segments of <= {} bytes: raw read failed: {:?}", round, max, e)),
            }
        }
        let mut r = Segmented { data: &wire, pos: 0, max };
        for round in 0..2 {
            match msgs::read(&mut r) {
                // (what the decoded message must equal is checked on the unframed encoding; here
                // it only has to be the same kind of message)
                Ok(m) => {
                    let v = m.inner().as_vec();
                    if v.len() < 2 || v[..2] != bytes[..2] {
                        failures.push(format!("frame {} decoded over segments of <= {} bytes is another message type", round, max));
                    }
                }
                Err(e) => failures.push(format!("frame {} over segments of <= {} bytes: decoding read failed: {:?}", round, max, e)),
            }
        }
    }
}

/// Run one case; if it contains a filler variant, size the filler so that the whole message is
/// exactly `MAX_MESSAGE` bytes long.
pub fn run_case_sized(check: fn(&[usize]) -> CaseOut, sel: &[usize]) -> CaseOut {
    FILL_LEN.with(|l| l.set(0));
    FILL_USED.with(|u| u.set(false));
    let mut o = check(sel);
    if !FILL_USED.with(|u| u.get()) {
        return o;
    }
    let mut fill = 0usize;
    for _ in 0..6 {
        if o.len == MAX_MESSAGE {
            break;
        }
        let next = fill as i64 + (MAX_MESSAGE as i64 - o.len as i64);
        if next < 0 {
            break;
        }
        fill = next as usize;
        FILL_LEN.with(|l| l.set(fill));
        o = check(sel);
    }
    if o.len == MAX_MESSAGE {
        o.observations.push("exactly-maximum-size".into());
    }
    FILL_LEN.with(|l| l.set(0));
    o
}

pub struct TypeInfo {
    pub name: &'static str,
    pub id: u16,
    pub fields: &'static [&'static str],
    pub arity: fn() -> Vec<usize>,
    pub check: fn(&[usize]) -> CaseOut,
}

pub struct CaseOut {
    pub failures: Vec<String>,
    pub oversize: bool,
    /// the encoding (type prefix + body)
    pub bytes: Vec<u8>,
    pub len: usize,
    pub observations: Vec<String>,
    pub id: u16,
}

fn enc<T: Encodable>(t: &T) -> Vec<u8> {
    let mut v = vec![];
    t.consensus_encode(&mut v).expect("encode");
    v
}

impl CaseOut {
    pub fn new(bytes: &[u8], id: u16) -> CaseOut {
        let mut o = CaseOut { failures: vec![], oversize: bytes.len() > 128 * 1024, bytes: bytes.to_vec(), len: bytes.len(), observations: vec![], id };
        if bytes.len() < 2 || u16::from_be_bytes([bytes[0], bytes[1]]) != id {
            o.fail("encoding does not start with the message id".into());
        }
        o
    }
    pub fn fail(&mut self, s: String) {
        self.failures.push(s);
    }
    /// a field, encoded on its own, must be the same before and after the round trip
    pub fn field<T: Encodable>(&mut self, name: &str, a: &T, b: &T) {
        if enc(a) != enc(b) {
            self.fail(format!("field {} changed in the round trip", name));
        }
    }
    pub fn field_opt<T: Encodable>(&mut self, name: &str, a: &Option<T>, b: &Option<T>) {
        if a.as_ref().map(enc) != b.as_ref().map(enc) {
            self.fail(format!("optional field {} changed in the round trip", name));
        }
    }
    pub fn field_proof(&mut self, name: &str, a: &Option<DebugTxoProof>, b: &Option<DebugTxoProof>) {
        if a.as_ref().map(|p| enc(&p.0)) != b.as_ref().map(|p| enc(&p.0)) {
            self.fail(format!("proof field {} changed in the round trip", name));
        }
    }
    pub fn reencoded(&mut self, a: &[u8], b: &[u8]) {
        if a != b {
            self.fail("re-encoding of the decoded message differs from the original bytes".into());
        }
    }
    /// streamed PSBT: the decoded transaction, previous outputs and segwit flags equal those of
    /// the PSBT that was encoded
    pub fn streamed(&mut self, name: &str, a: &WithSize<StreamedPSBT>, b: &WithSize<StreamedPSBT>) {
        let orig = a.0.psbt();
        let dec = b.0.psbt();
        if orig.unsigned_tx != dec.unsigned_tx {
            self.fail(format!("{}: decoded unsigned transaction differs", name));
            return;
        }
        if dec.inputs.len() != orig.inputs.len() || b.0.segwit_flags.len() != orig.inputs.len() {
            self.fail(format!("{}: {} inputs, {} decoded inputs, {} segwit flags", name, orig.inputs.len(), dec.inputs.len(), b.0.segwit_flags.len()));
            return;
        }
        for (i, inp) in orig.inputs.iter().enumerate() {
            let vout = orig.unsigned_tx.input[i].previous_output.vout as usize;
            // what the encoded PSBT says about the previous output
            let (prev, known_segwit): (Option<TxOut>, bool) = match (&inp.non_witness_utxo, &inp.witness_utxo) {
                (Some(tx), _) => {
                    let o = tx.output.get(vout).cloned();
                    let sw = o.as_ref().map(|o| o.script_pubkey.is_witness_program()).unwrap_or(false);
                    (o, sw)
                }
                (None, Some(w)) => (Some(w.clone()), false),
                (None, None) => (None, false),
            };
            if dec.inputs[i].witness_utxo != prev {
                self.fail(format!("{}: input {} previous output differs after decoding", name, i));
            }
            if b.0.segwit_flags[i] != known_segwit {
                self.fail(format!("{}: input {} segwit flag is {} but the encoded PSBT implies {}", name, i, b.0.segwit_flags[i], known_segwit));
            }
            if dec.inputs[i].bip32_derivation != inp.bip32_derivation || dec.inputs[i].witness_script != inp.witness_script || dec.inputs[i].redeem_script != inp.redeem_script {
                self.fail(format!("{}: input {} scripts / paths differ after decoding", name, i));
            }
        }
        if dec.outputs != orig.outputs {
            self.fail(format!("{}: outputs differ after decoding", name));
        }
    }
    /// observations (not part of the statement): trailing bytes and proper prefixes
    pub fn framing(&mut self, bytes: &[u8]) {
        let mut t = bytes.to_vec();
        t.push(0);
        if t.len() <= 128 * 1024 && msgs::from_vec(t).is_ok() {
            self.observations.push("trailing-byte-accepted".into());
        }
        // a few proper prefixes (all of them for short messages)
        let n = bytes.len();
        let cuts: Vec<usize> = if n <= 64 { (2..n).collect() } else { vec![2, 3, n / 2, n - 2, n - 1] };
        for c in cuts {
            if msgs::from_vec(bytes[..c].to_vec()).is_ok() {
                self.observations.push("proper-prefix-decodes".into());
                break;
            }
        }
    }
}

// ------------------------------------------------------------------------------------------
// Alphabets.  Value 0 is the base value and depends on the field position, so that two fields of
// the same type never carry the same base value (a swap cannot hide).
// ------------------------------------------------------------------------------------------

pub trait Alph: Sized {
    fn n() -> usize;
    fn pick(i: usize, pos: usize) -> Self;
}

macro_rules! int_alph {
    ($t:ty) => {
        impl Alph for $t {
            fn n() -> usize {
                4
            }
            fn pick(i: usize, pos: usize) -> Self {
                match i {
                    0 => (0x0102_0304_0506_0708u64.rotate_left(pos as u32 * 8) as $t) | 1,
                    1 => 0,
                    2 => 1,
                    _ => <$t>::MAX,
                }
            }
        }
    };
}
int_alph!(u8);
int_alph!(u16);
int_alph!(u32);
int_alph!(u64);

impl Alph for bool {
    fn n() -> usize {
        2
    }
    fn pick(i: usize, pos: usize) -> Self {
        (i + pos) % 2 == 0
    }
}

fn pattern(len: usize, pos: usize, salt: u8) -> Vec<u8> {
    (0..len).map(|k| (k as u8).wrapping_mul(7).wrapping_add((pos as u8).wrapping_mul(31)).wrapping_add(salt)).collect()
}

macro_rules! array_alph {
    ($t:ident, $len:expr) => {
        impl Alph for $t {
            fn n() -> usize {
                3
            }
            fn pick(i: usize, pos: usize) -> Self {
                let mut a = [0u8; $len];
                match i {
                    0 => a.copy_from_slice(&pattern($len, pos, 3)),
                    1 => {}
                    _ => a = [0xff; $len],
                }
                $t(a)
            }
        }
    };
}
array_alph!(PubKey, 33);
array_alph!(Secret, 32);
array_alph!(DisclosedSecret, 32);
array_alph!(DevSecret, 32);
array_alph!(DevPrivKey, 32);
array_alph!(ExtKey, 78);
array_alph!(Sha256, 32);
array_alph!(Signature, 64);
array_alph!(RecoverableSignature, 65);

impl Alph for Octets {
    fn n() -> usize {
        4
    }
    fn pick(i: usize, pos: usize) -> Self {
        Octets(match i {
            0 => pattern(3 + pos % 5, pos, 9),
            1 => vec![],
            2 => vec![0x2a],
            _ => pattern(65_535, pos, 1),
        })
    }
}

impl Alph for LargeOctets {
    fn n() -> usize {
        5
    }
    fn pick(i: usize, pos: usize) -> Self {
        LargeOctets(match i {
            0 => pattern(5 + pos % 5, pos, 11),
            1 => vec![],
            2 => vec![0x2a],
            3 => pattern(70_000, pos, 2),
            // fills the message up to the maximum size
            _ => pattern(fill_len(), pos, 3),
        })
    }
}

impl Alph for WireString {
    fn n() -> usize {
        3
    }
    fn pick(i: usize, pos: usize) -> Self {
        WireString(match i {
            0 => format!("string-{}", pos).into_bytes(),
            1 => vec![],
            _ => pattern(300, pos, 0x41).into_iter().map(|b| b'a' + b % 26).collect(),
        })
    }
}

impl<T: Alph> Alph for Option<T> {
    fn n() -> usize {
        1 + T::n()
    }
    fn pick(i: usize, pos: usize) -> Self {
        if i == T::n() {
            None
        } else {
            Some(T::pick(i, pos))
        }
    }
}

impl<T: Alph + Encodable + lightning_signer::bitcoin::consensus::Decodable + std::fmt::Debug> Alph for Array<T> {
    fn n() -> usize {
        3 + T::n()
    }
    fn pick(i: usize, pos: usize) -> Self {
        Array(match i {
            0 => vec![T::pick(0, pos)],
            1 => vec![],
            2 => vec![T::pick(0, pos), T::pick(0, pos + 1), T::pick(T::n() - 1, pos + 2)],
            // one element carrying each deviation of the element type
            k => vec![T::pick(k - 3, pos + 1)],
        })
    }
}

impl Alph for ArrayBE<u32> {
    fn n() -> usize {
        3
    }
    fn pick(i: usize, pos: usize) -> Self {
        ArrayBE(match i {
            0 => vec![7 + pos as u32, 0x8000_0001],
            1 => vec![],
            _ => vec![0, u32::MAX, 1, 2, 3],
        })
    }
}

impl Alph for BitcoinSignature {
    fn n() -> usize {
        3
    }
    fn pick(i: usize, pos: usize) -> Self {
        BitcoinSignature { signature: Signature::pick(i.min(2), pos), sighash: [1u8, 0x83, 0xff][i.min(2)] }
    }
}

impl Alph for Htlc {
    fn n() -> usize {
        3
    }
    fn pick(i: usize, pos: usize) -> Self {
        match i {
            0 => Htlc { side: Htlc::LOCAL, amount: 1_000_000 + pos as u64, payment_hash: Sha256::pick(0, pos), ctlv_expiry: 500 + pos as u32 },
            1 => Htlc { side: Htlc::REMOTE, amount: 0, payment_hash: Sha256::pick(1, pos), ctlv_expiry: 0 },
            _ => Htlc { side: 0xff, amount: u64::MAX, payment_hash: Sha256::pick(2, pos), ctlv_expiry: u32::MAX },
        }
    }
}

impl Alph for Basepoints {
    fn n() -> usize {
        2
    }
    fn pick(i: usize, pos: usize) -> Self {
        Basepoints { revocation: PubKey::pick(i * 2, pos), payment: PubKey::pick(i * 2, pos + 1), htlc: PubKey::pick(i * 2, pos + 2), delayed_payment: PubKey::pick(i * 2, pos + 3) }
    }
}

impl Alph for Bip32KeyVersion {
    fn n() -> usize {
        2
    }
    fn pick(i: usize, pos: usize) -> Self {
        if i == 0 {
            Bip32KeyVersion { pubkey_version: 0x0435_87cf + pos as u32, privkey_version: 0x0435_8394 }
        } else {
            Bip32KeyVersion { pubkey_version: u32::MAX, privkey_version: 0 }
        }
    }
}

impl Alph for Utxo {
    fn n() -> usize {
        3
    }
    fn pick(i: usize, pos: usize) -> Self {
        match i {
            0 => Utxo { txid: Txid::pick(0, pos), outnum: 1, amount: 5_000 + pos as u64, keyindex: 9, is_p2sh: false, script: Octets(pattern(22, pos, 5)), close_info: None, is_in_coinbase: false },
            1 => Utxo {
                txid: Txid::pick(1, pos),
                outnum: u32::MAX,
                amount: u64::MAX,
                keyindex: 0,
                is_p2sh: true,
                script: Octets(vec![]),
                close_info: Some(CloseInfo { channel_id: 77, peer_id: PubKey::pick(0, pos), commitment_point: Some(PubKey::pick(0, pos + 1)), is_anchors: true, csv: 144 }),
                is_in_coinbase: true,
            },
            _ => Utxo {
                txid: Txid::pick(0, pos + 1),
                outnum: 0,
                amount: 0,
                keyindex: u32::MAX,
                is_p2sh: false,
                script: Octets(pattern(34, pos, 6)),
                close_info: Some(CloseInfo { channel_id: u64::MAX, peer_id: PubKey::pick(2, pos), commitment_point: None, is_anchors: false, csv: 0 }),
                is_in_coinbase: false,
            },
        }
    }
}

impl Alph for Txid {
    fn n() -> usize {
        2
    }
    fn pick(i: usize, pos: usize) -> Self {
        let mut a = [0u8; 32];
        if i == 0 {
            a.copy_from_slice(&pattern(32, pos, 0x21));
        }
        Txid::from_byte_array(a)
    }
}

impl Alph for BlockHash {
    fn n() -> usize {
        2
    }
    fn pick(i: usize, pos: usize) -> Self {
        let mut a = [0xffu8; 32];
        if i == 0 {
            a.copy_from_slice(&pattern(32, pos, 0x22));
        }
        BlockHash::from_byte_array(a)
    }
}

impl Alph for OutPoint {
    fn n() -> usize {
        2
    }
    fn pick(i: usize, pos: usize) -> Self {
        if i == 0 {
            OutPoint { txid: Txid::pick(0, pos), vout: 3 + pos as u32 }
        } else {
            OutPoint { txid: Txid::pick(1, pos), vout: u32::MAX }
        }
    }
}

impl Alph for txoo::bitcoin::hash_types::FilterHeader {
    fn n() -> usize {
        2
    }
    fn pick(i: usize, pos: usize) -> Self {
        let mut a = [0u8; 32];
        if i == 0 {
            a.copy_from_slice(&pattern(32, pos, 0x23));
        }
        txoo::bitcoin::hash_types::FilterHeader::from_byte_array(a)
    }
}

impl Alph for lightning_signer::bitcoin::block::Header {
    fn n() -> usize {
        2
    }
    fn pick(i: usize, pos: usize) -> Self {
        use lightning_signer::bitcoin::{block, CompactTarget, TxMerkleNode};
        if i == 0 {
            block::Header { version: block::Version::from_consensus(4), prev_blockhash: BlockHash::pick(0, pos), merkle_root: TxMerkleNode::from_byte_array([0x31; 32]), time: 1_700_000_000, bits: CompactTarget::from_consensus(0x207f_ffff), nonce: 7 }
        } else {
            block::Header { version: block::Version::from_consensus(-1), prev_blockhash: BlockHash::pick(1, pos), merkle_root: TxMerkleNode::from_byte_array([0; 32]), time: u32::MAX, bits: CompactTarget::from_consensus(0), nonce: u32::MAX }
        }
    }
}

fn sample_tx(kind: usize, pos: usize) -> Transaction {
    let txin = |k: u8, wit: bool| TxIn {
        previous_output: OutPoint { txid: Txid::from_byte_array([k; 32]), vout: k as u32 },
        script_sig: if wit { ScriptBuf::new() } else { ScriptBuf::from_bytes(vec![0x51, k]) },
        sequence: Sequence(0xffff_fffd),
        witness: if wit { Witness::from_slice(&[vec![1u8, 2, 3], vec![k; 33]]) } else { Witness::new() },
    };
    let out = |v: u64, k: u8| TxOut { value: Amount::from_sat(v), script_pubkey: ScriptBuf::from_bytes({
        let mut s = vec![0x00, 0x14];
        s.extend([k; 20]);
        s
    }) };
    match kind {
        0 => Transaction { version: Version::TWO, lock_time: LockTime::ZERO, input: vec![txin(1 + pos as u8, false)], output: vec![out(1000 + pos as u64, 2)] },
        1 => Transaction { version: Version::TWO, lock_time: LockTime::from_consensus(500_000), input: vec![txin(3, true), txin(4, true)], output: vec![out(1, 5), out(u64::MAX / 4, 6)] },
        _ => Transaction { version: Version(1), lock_time: LockTime::from_consensus(u32::MAX), input: vec![txin(7, false), txin(8, true)], output: (0..20).map(|k| out(k, k as u8)).collect() },
    }
}

impl Alph for WithSize<Transaction> {
    fn n() -> usize {
        4
    }
    fn pick(i: usize, pos: usize) -> Self {
        if i == 3 {
            // a data output that fills the message up to the maximum size
            let mut tx = sample_tx(0, pos);
            let mut script = vec![0x6a];
            script.extend(pattern(fill_len(), pos, 5));
            tx.output.push(TxOut { value: Amount::from_sat(0), script_pubkey: ScriptBuf::from_bytes(script) });
            return WithSize(tx);
        }
        WithSize(sample_tx(i, pos))
    }
}

/// kinds of per-input UTXO information in a PSBT
#[derive(Clone, Copy, Debug, PartialEq)]
pub enum InK {
    NwuSegwit,
    NwuLegacy,
    NwuSegwitAndWutxo,
    WutxoOnly,
    Nothing,
    /// previous transaction plus a witness utxo that contradicts it (a lying node): refusing to
    /// decode is fine; if it decodes, the verified previous output must win
    NwuSegwitAndWrongWutxo,
}

pub const INKS: [InK; 6] = [InK::NwuSegwit, InK::NwuLegacy, InK::NwuSegwitAndWutxo, InK::WutxoOnly, InK::Nothing, InK::NwuSegwitAndWrongWutxo];

pub fn psbt_with(kinds: &[InK], rich: bool) -> Psbt {
    psbt_padded(kinds, rich, 0)
}

/// `pad` further outputs on the first input's previous transaction (a coin from a batch payout):
/// 2300 of them make the PSBT larger than 64 KiB while the message stays below the 128 KiB limit
pub const BIG_PAD: usize = 2300;

pub fn psbt_padded(kinds: &[InK], rich: bool, pad: usize) -> Psbt {
    let segwit_script = |k: u8| {
        let mut s = vec![0x00, 0x14];
        s.extend([k; 20]);
        ScriptBuf::from_bytes(s)
    };
    let legacy_script = |k: u8| {
        let mut s = vec![0x76, 0xa9, 0x14];
        s.extend([k; 20]);
        s.extend([0x88, 0xac]);
        ScriptBuf::from_bytes(s)
    };
    let mut prevs: Vec<Transaction> = vec![];
    let mut inputs = vec![];
    for (i, k) in kinds.iter().enumerate() {
        let spk = if *k == InK::NwuLegacy { legacy_script(i as u8 + 1) } else { segwit_script(i as u8 + 1) };
        let mut prev = Transaction {
            version: Version::TWO,
            lock_time: LockTime::ZERO,
            input: vec![TxIn { previous_output: OutPoint { txid: Txid::from_byte_array([0x40 + i as u8; 32]), vout: 0 }, script_sig: ScriptBuf::new(), sequence: Sequence::MAX, witness: Witness::new() }],
            output: vec![TxOut { value: Amount::from_sat(9), script_pubkey: legacy_script(0x77) }, TxOut { value: Amount::from_sat(10_000 + i as u64), script_pubkey: spk }],
        };
        if i == 0 {
            for j in 0..pad {
                prev.output.push(TxOut { value: Amount::from_sat(600 + j as u64), script_pubkey: segwit_script((j % 251) as u8) });
            }
        }
        inputs.push(TxIn { previous_output: OutPoint { txid: prev.compute_txid(), vout: 1 }, script_sig: ScriptBuf::new(), sequence: Sequence(0xffff_fffd), witness: Witness::new() });
        prevs.push(prev);
    }
    let tx = Transaction { version: Version::TWO, lock_time: LockTime::ZERO, input: inputs, output: vec![TxOut { value: Amount::from_sat(5_000), script_pubkey: segwit_script(0x55) }, TxOut { value: Amount::from_sat(4_000), script_pubkey: segwit_script(0x56) }] };
    let mut psbt = Psbt::from_unsigned_tx(tx).unwrap();
    for (i, k) in kinds.iter().enumerate() {
        let o = prevs[i].output[1].clone();
        match k {
            InK::NwuSegwit | InK::NwuLegacy => psbt.inputs[i].non_witness_utxo = Some(prevs[i].clone()),
            InK::NwuSegwitAndWutxo => {
                psbt.inputs[i].non_witness_utxo = Some(prevs[i].clone());
                psbt.inputs[i].witness_utxo = Some(o);
            }
            InK::NwuSegwitAndWrongWutxo => {
                psbt.inputs[i].non_witness_utxo = Some(prevs[i].clone());
                let mut lie = o;
                lie.value = Amount::from_sat(lie.value.to_sat() + 1_000_000);
                psbt.inputs[i].witness_utxo = Some(lie);
            }
            InK::WutxoOnly => psbt.inputs[i].witness_utxo = Some(o),
            InK::Nothing => {}
        }
    }
    if rich {
        let secp = lightning_signer::bitcoin::secp256k1::Secp256k1::new();
        let xp = Xpub::from_priv(&secp, &Xpriv::new_master(Network::Regtest, &[9; 32]).unwrap());
        let path: DerivationPath = vec![ChildNumber::from_normal_idx(3).unwrap()].into();
        for inp in psbt.inputs.iter_mut() {
            inp.bip32_derivation.insert(xp.public_key, (Fingerprint::from([1, 2, 3, 4]), path.clone()));
            inp.witness_script = Some(ScriptBuf::from_bytes(vec![0x51, 0x52]));
        }
        psbt.outputs[0].bip32_derivation.insert(xp.public_key, (Fingerprint::from([4, 3, 2, 1]), path));
        psbt.outputs[1].witness_script = Some(ScriptBuf::from_bytes(vec![0x53]));
    }
    psbt
}

/// a PSBT that another signer has already worked on: the last input is finalized (scriptSig and
/// witness of a wrapped-segwit spend), the first carries a partial signature, a sighash type and a
/// redeem script, an output carries a redeem script
fn psbt_cosigned(kinds: &[InK]) -> Psbt {
    let mut p = psbt_with(kinds, false);
    let secp = lightning_signer::bitcoin::secp256k1::Secp256k1::new();
    let key = lightning_signer::bitcoin::secp256k1::SecretKey::from_slice(&[0x3c; 32]).unwrap();
    let pk = lightning_signer::bitcoin::PublicKey::new(lightning_signer::bitcoin::secp256k1::PublicKey::from_secret_key(&secp, &key));
    let msg = lightning_signer::bitcoin::secp256k1::Message::from_digest([0x11; 32]);
    let sig = lightning_signer::bitcoin::ecdsa::Signature::sighash_all(secp.sign_ecdsa(&msg, &key));
    let last = p.inputs.len() - 1;
    p.inputs[last].final_script_sig = Some(ScriptBuf::from_bytes(vec![0x16, 0x00, 0x14, 1, 2, 3, 4, 5, 6, 7, 8, 9, 10, 11, 12, 13, 14, 15, 16, 17, 18, 19, 20]));
    p.inputs[last].final_script_witness = Some(Witness::from_slice(&[sig.to_vec(), pk.to_bytes()]));
    p.inputs[0].partial_sigs.insert(pk, sig);
    p.inputs[0].sighash_type = Some(lightning_signer::bitcoin::psbt::PsbtSighashType::from_u32(1));
    p.inputs[0].redeem_script = Some(ScriptBuf::from_bytes(vec![0x00, 0x14, 9, 9, 9, 9, 9, 9, 9, 9, 9, 9, 9, 9, 9, 9, 9, 9, 9, 9, 9, 9]));
    p.outputs[0].redeem_script = Some(ScriptBuf::from_bytes(vec![0x51]));
    p
}

impl Alph for WithSize<PsbtWrapper> {
    fn n() -> usize {
        7
    }
    fn pick(i: usize, pos: usize) -> Self {
        let _ = pos;
        let p = match i {
            0 => psbt_with(&[InK::WutxoOnly], false),
            1 => psbt_with(&[InK::Nothing], false),
            2 => psbt_with(&[InK::NwuSegwit, InK::NwuLegacy], false),
            3 => psbt_with(&[InK::WutxoOnly, InK::NwuSegwitAndWutxo], true),
            // larger than 64 KiB
            4 => psbt_padded(&[InK::NwuSegwit], false, BIG_PAD),
            5 => psbt_cosigned(&[InK::WutxoOnly, InK::NwuLegacy]),
            // an unknown key-value pair that fills the message up to the maximum size
            _ => psbt_filled(&[InK::WutxoOnly]),
        };
        WithSize(PsbtWrapper { inner: p })
    }
}

/// every sequence of input kinds of length 1 and 2 (plus a few of length 3), plain and rich
pub fn streamed_variants() -> Vec<(Vec<InK>, bool)> {
    let mut v = vec![];
    for a in INKS {
        v.push((vec![a], false));
    }
    for a in INKS {
        for b in INKS {
            v.push((vec![a, b], false));
        }
    }
    for a in INKS {
        for b in INKS {
            for c in [InK::WutxoOnly, InK::NwuSegwit] {
                v.push((vec![a, b, c], false));
            }
        }
    }
    v.push((vec![InK::NwuSegwit, InK::WutxoOnly], true));
    v.push((vec![InK::WutxoOnly, InK::NwuLegacy, InK::Nothing], true));
    v
}

/// a PSBT with an unknown global key whose value fills the message up to the maximum size
fn psbt_filled(kinds: &[InK]) -> Psbt {
    let mut p = psbt_with(kinds, false);
    p.unknown.insert(lightning_signer::bitcoin::psbt::raw::Key { type_value: 0xf0, key: vec![1] }, pattern(fill_len(), 0, 7));
    p
}

/// index (one past the ordinary variants) of the streamed PSBT that is larger than 64 KiB
fn streamed_big() -> (Vec<InK>, bool) {
    (vec![InK::NwuSegwit, InK::WutxoOnly], false)
}

/// streamed PSBTs that a co-signer has already worked on
fn streamed_cosigned() -> Vec<Vec<InK>> {
    vec![vec![InK::WutxoOnly], vec![InK::NwuSegwit, InK::NwuLegacy], vec![InK::NwuLegacy, InK::WutxoOnly]]
}

impl Alph for WithSize<StreamedPSBT> {
    fn n() -> usize {
        streamed_variants().len() + 2 + streamed_cosigned().len()
    }
    fn pick(i: usize, pos: usize) -> Self {
        let _ = pos;
        let vs = streamed_variants();
        if i >= vs.len() + 2 {
            return WithSize(StreamedPSBT::new(psbt_cosigned(&streamed_cosigned()[i - vs.len() - 2])));
        }
        if i == vs.len() + 1 {
            return WithSize(StreamedPSBT::new(psbt_filled(&[InK::WutxoOnly, InK::NwuSegwit])));
        }
        if i >= vs.len() {
            let (k, rich) = streamed_big();
            return WithSize(StreamedPSBT::new(psbt_padded(&k, rich, BIG_PAD)));
        }
        let (k, rich) = &vs[i];
        WithSize(StreamedPSBT::new(psbt_with(k, *rich)))
    }
}

impl Alph for DebugTxoProof {
    fn n() -> usize {
        2
    }
    fn pick(i: usize, pos: usize) -> Self {
        let _ = pos;
        // a real (empty-block) proof and a proof carrying a spend
        let hdr = crate::chain::mine(BlockHash::all_zeros(), lightning_signer::bitcoin::TxMerkleNode::all_zeros(), lightning_signer::bitcoin::CompactTarget::from_consensus(0x207f_ffff), 1_700_000_100);
        let txs = if i == 0 { vec![] } else { vec![sample_tx(0, 1)] };
        let block = crate::chain::make_block(&hdr, 1, i as u32, txs);
        let prev_fh = txoo::bitcoin::hash_types::FilterHeader::all_zeros();
        let proof = crate::chain::make_proof(&block, 1, &prev_fh, &[crate::chain::oracle_key(0)], &[], &[]);
        DebugTxoProof(proof)
    }
}

// ------------------------------------------------------------------------------------------
// Enumeration
// ------------------------------------------------------------------------------------------

pub fn main(tier: Tier) -> i32 {
    let mut run = Run::new("C19", tier, "model_checking", "wirert");
    let reg = crate::wire_gen::registry();
    if !crate::wire_gen::MISSING_STRUCTS.is_empty() {
        machinery_failure(&format!("message types of the registry without a parsed struct: {:?}", crate::wire_gen::MISSING_STRUCTS));
    }
    if reg.len() != crate::wire_gen::ENUM_VARIANTS {
        machinery_failure(&format!("{} message structs but {} enum variants", reg.len(), crate::wire_gen::ENUM_VARIANTS));
    }
    // pairs of deviations take a fraction of a second, so both tiers enumerate them
    let d = tier.pick(2, 2);
    // cases: (type index, selection vector)
    let mut cases: Vec<(usize, Vec<usize>)> = vec![];
    for (ti, t) in reg.iter().enumerate() {
        let ar = (t.arity)();
        let base = vec![0usize; ar.len()];
        cases.push((ti, base.clone()));
        for f in 0..ar.len() {
            for v in 1..ar[f] {
                let mut s = base.clone();
                s[f] = v;
                cases.push((ti, s));
            }
        }
        if d >= 2 {
            for f in 0..ar.len() {
                for g in f + 1..ar.len() {
                    for v in 1..ar[f] {
                        for u in 1..ar[g] {
                            let mut s = base.clone();
                            s[f] = v;
                            s[g] = u;
                            cases.push((ti, s));
                        }
                    }
                }
            }
        }
        // thorough: triples of deviations for the types with at most eight fields
        if tier == Tier::Thorough && ar.len() <= 8 {
            for f in 0..ar.len() {
                for g in f + 1..ar.len() {
                    for h in g + 1..ar.len() {
                        for v in 1..ar[f] {
                            for u in 1..ar[g] {
                                for x in 1..ar[h] {
                                    let mut s = base.clone();
                                    s[f] = v;
                                    s[g] = u;
                                    s[h] = x;
                                    cases.push((ti, s));
                                }
                            }
                        }
                    }
                }
            }
        }
    }
    let results = par_map(&cases, nthreads(), |(ti, sel)| {
        let t = &reg[*ti];
        match catch(|| run_case_sized(t.check, sel)) {
            Ok(mut o) => {
                // the base case and every single deviation also travel framed over a transport
                // that delivers in segments
                if !o.oversize && o.failures.is_empty() && sel.iter().filter(|v| **v != 0).count() <= 1 && o.len <= 4096 {
                    let bytes = std::mem::take(&mut o.bytes);
                    framed_transport(&bytes, &mut o.failures);
                }
                (o.failures, o.oversize, o.observations, o.len, None)
            }
            Err(p) => (vec![], false, vec![], 0, Some(p)),
        }
    });
    let (mut evals, mut oversize, mut failing, mut panics, mut bytes_total) = (0u64, 0u64, 0u64, 0u64, 0u64);
    let mut refused_inconsistent = 0u64;
    let mut obs: BTreeSet<String> = BTreeSet::new();
    let mut types_ok: BTreeSet<&str> = BTreeSet::new();
    let mut distinct: BTreeSet<String> = BTreeSet::new();
    let mut samples = vec![];
    for ((ti, sel), (fails, over, observations, len, panic)) in cases.iter().zip(results.into_iter()) {
        let t = &reg[*ti];
        evals += 1;
        bytes_total += len as u64;
        if over {
            oversize += 1;
            continue;
        }
        let devs: Vec<String> = sel.iter().enumerate().filter(|(_, v)| **v != 0).map(|(i, v)| format!("{}={}", t.fields[i], v)).collect();
        distinct.insert(format!("{}|{}|{}", t.name, devs.join(","), len));
        for o in observations {
            obs.insert(format!("{}:{}", t.name, o));
        }
        if let Some(p) = panic {
            panics += 1;
            run.violation(&format!("C19:{}:panic", t.name), &format!("{} with {:?}: codec panicked: {}", t.name, devs, p), json!({"engine": "wirert", "type": t.name, "sel": sel}));
            continue;
        }
        let inconsistent_psbt = {
            let ar = (t.arity)();
            let sv = streamed_variants();
            ar.iter().zip(sel.iter()).any(|(a, v)| *a == <WithSize<StreamedPSBT> as Alph>::n() && *v < sv.len() && sv[*v].0.contains(&InK::NwuSegwitAndWrongWutxo))
        };
        if inconsistent_psbt && !fails.is_empty() && fails.iter().all(|f| f.contains("decode failed")) {
            refused_inconsistent += 1;
            continue;
        }
        if fails.is_empty() {
            types_ok.insert(t.name);
            if samples.len() < 3 && !devs.is_empty() {
                samples.push(json!({"type": t.name, "deviations": devs, "encoded_len": len}));
            }
        } else {
            failing += 1;
            let what = fails.join("; ");
            let kind = if what.contains("segwit flag") {
                "streamed-psbt-segwit-flags"
            } else if what.contains("previous output") {
                "streamed-psbt-previous-outputs"
            } else if what.contains("decode failed") {
                "does-not-decode"
            } else {
                "not-equal-after-round-trip"
            };
            run.violation(&format!("C19:{}:{}", t.name, kind), &format!("{} with {:?}: {}", t.name, devs, what), json!({"engine": "wirert", "type": t.name, "sel": sel}));
        }
    }
    run.assume("message structs and the Message enum are parsed from vls-protocol/src/msgs.rs at check time (developer-only items excluded, as in the build under test); a field type without an alphabet fails the build");
    run.assume("equality = every field, encoded on its own, is byte-identical before and after decode(encode(m)), the decoded message re-encodes to the original bytes, through the registry dispatch and through the typed decoder; streamed PSBTs are compared semantically (transaction, previous outputs, segwit flags, scripts and paths)");
    let cov = json!({
        "states": evals,
        "transitions": evals,
        "traces_validated_against_impl": evals,
        "evaluations": evals,
        "distinct_nontrivial": distinct.len(),
        "exhaustive": true,
        "message_types": reg.len(),
        "enum_variants": crate::wire_gen::ENUM_VARIANTS,
        "types_with_at_least_one_passing_case": types_ok.len(),
        "cases_over_the_maximum_message_size": oversize,
        "failing_cases": failing,
        "inconsistent_psbts_refused_by_the_decoder": refused_inconsistent,
        "panics": panics,
        "bytes_encoded": bytes_total,
        "deviation_bound": d,
        "framing_observations": obs,
        "samples": samples,
        "rule": "per message type: the all-base case, every single field deviation and (thorough) every pair, over per-type value alphabets; streamed PSBT carriers additionally over every sequence of <= 2 (plus selected 3) input kinds {non-witness utxo segwit / legacy / + witness utxo, witness utxo only, nothing}",
    });
    run.finish(cov)
}

pub fn replay(v: &serde_json::Value) {
    let reg = crate::wire_gen::registry();
    let name = v["replay"]["type"].as_str().unwrap_or("");
    let sel: Vec<usize> = serde_json::from_value(v["replay"]["sel"].clone()).unwrap_or_default();
    for t in reg.iter().filter(|t| t.name == name) {
        for round in 0..2 {
            let o = run_case_sized(t.check, &sel);
            println!("round {}: {} {:?} ({} bytes): failures {:?}", round, t.name, sel, o.len, o.failures);
        }
    }
}
