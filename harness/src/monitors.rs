//! Cross-cutting monitors: C10 (a refused request changes nothing) and C11 (every acknowledged
//! state change is already durable).  They are switched on in every history engine.

use crate::vmc::Vio;
use std::sync::atomic::{AtomicBool, Ordering};

/// The input-shape engines (C05, C07, C08) run these monitors around their requests when this
/// is set (done by the C10 / C11 checks).
static GRID_MONITORS: AtomicBool = AtomicBool::new(false);

pub fn set_grid_monitors(on: bool) {
    GRID_MONITORS.store(on, Ordering::SeqCst);
}

pub fn grid_monitors() -> bool {
    GRID_MONITORS.load(Ordering::SeqCst)
}

/// monitors around one request of a grid engine
pub fn around<T>(w: &World, before: &Option<Value>, o: &Outcome<T>, kind: &str, vios: &mut Vec<Vio>) {
    if before.is_none() {
        return;
    }
    match o {
        Outcome::Err(e) => {
            let after = w.snapshot();
            refusal_monitor(before.as_ref().unwrap(), &after, kind, e, vios);
        }
        Outcome::Ok(_) => durability_monitor(w, kind, "ok", vios),
        Outcome::Panic(_) => {}
    }
}
use crate::world::*;
use serde_json::{json, Value};

/// Generalise a diff path: hex ids become '*', at most `n` components.
pub fn path_class(diff: &str, n: usize) -> String {
    let path = diff.split(':').next().unwrap_or("");
    let comps: Vec<String> = path
        .split('/')
        .filter(|c| !c.is_empty())
        .map(|c| {
            if c.len() >= 16 && c.chars().all(|ch| ch.is_ascii_hexdigit() || ch == ':') {
                "*".to_string()
            } else if c.chars().all(|ch| ch.is_ascii_digit()) {
                "#".to_string()
            } else {
                c.to_string()
            }
        })
        .take(n)
        .collect();
    comps.join("/")
}

/// C10: compare the full snapshot before/after a refused request.
pub fn refusal_monitor(before: &Value, after: &Value, op_kind: &str, err: &str, vios: &mut Vec<Vio>) {
    if let Some(d) = json_diff(before, after) {
        // err = "Code/policy-tag"; keep the tag only when there is one (codes are not stable)
        let tag = err.split('/').nth(1).unwrap_or("");
        vios.push(Vio {
            prop: "C10",
            key: format!("C10:{}:{}:{}", op_kind, tag, path_class(&d, 5)),
            what: format!("request {} was refused ({}) but state changed: {}", op_kind, err, d),
        });
    }
}

/// End of a request over the transactional (cloud) store.  Always prepares and commits; with
/// `check` it also evaluates the transactional clauses of C10 and C11:
/// * a refused request must not leave pending mutations (the daemon's handler panics on
///   "stranded mutations" for temporary errors and would persist them for the others);
/// * a crash between prepare and commit: a signer restored from the local store plus the
///   mutations (what the cloud holds) must equal the live signer.
pub fn end_cloud_request(w: &World, op_kind: &str, outcome: &str, check: bool, vios: &mut Vec<Vio>) {
    if !w.cfg.cloud {
        return;
    }
    let muts = w.prepare_request();
    if check {
        if let Some(m) = &muts {
            if outcome.starts_with("err:") && !m.is_empty() {
                let keys: Vec<String> = m.iter().map(|(k, _)| k.split('/').next().unwrap_or("").to_string()).collect::<std::collections::BTreeSet<_>>().into_iter().collect();
                vios.push(Vio {
                    prop: "C10",
                    key: format!("C10:{}:stranded-mutations:{}", op_kind, keys.join("+")),
                    what: format!("request {} was refused ({}) but the transactional store ended the request with {} pending mutation(s) on {:?}", op_kind, outcome, m.len(), m.iter().map(|(k, _)| k.clone()).collect::<Vec<_>>()),
                });
            }
            if !m.is_empty() {
                let live = durable_view(&w.snapshot_live());
                match crate::ev::catch(|| durable_view(&w.clone_restored_with(m).snapshot_live())) {
                    Ok(restored) =>
                        if let Some(d) = json_diff(&live, &restored) {
                            vios.push(Vio {
                                prop: "C11",
                                key: format!("C11:{}:between-prepare-and-commit:{}", op_kind, path_class(&d, 5)),
                                what: format!("after {} ({}) a signer restored from the local store plus the prepared mutations differs from the live one (live -> restored): {}", op_kind, outcome, d),
                            });
                        },
                    Err(p) => vios.push(Vio {
                        prop: "C11",
                        key: format!("C11:restore-panics:between-prepare-and-commit:{}", op_kind),
                        what: format!("restoring from local store + prepared mutations after {} panicked: {}", op_kind, p),
                    }),
                }
            }
        }
    }
    w.commit_request();
}

/// The view the C11 statement lists, extracted from a live snapshot.
pub fn durable_view(live: &Value) -> Value {
    let node = &live["node"];
    json!({
        "channels": live["channels"],
        "tracker": live["tracker"],
        "allowlist": node["allowlist"],
        "invoices": node["entry"]["invoices"],
        // invoices the node *issued* (SignInvoice) are not in the statement's list (it names the
        // approved ones); the signer keeps them in memory until the next store of the node state
        "dbid_high_water_mark": node["entry"]["dbid_high_water_mark"],
    })
}

/// C11: a signer restored from a deep copy of the store must equal the live one.
pub fn durability_monitor(w: &World, op_kind: &str, outcome: &str, vios: &mut Vec<Vio>) {
    let live = durable_view(&w.snapshot_live());
    let restored = match crate::ev::catch(|| {
        let r = w.clone_restored();
        durable_view(&r.snapshot_live())
    }) {
        Ok(v) => v,
        Err(p) => {
            vios.push(Vio {
                prop: "C11",
                key: format!("C11:restore-panics:{}", op_kind),
                what: format!("restoring from the store after {} ({}) panicked: {} at {}", op_kind, outcome, p, crate::ev::last_panic_loc()),
            });
            return;
        }
    };
    if let Some(d) = json_diff(&live, &restored) {
        vios.push(Vio {
            prop: "C11",
            key: format!("C11:{}:{}", op_kind, path_class(&d, 5)),
            what: format!("after {} ({}) live state and state restored from the store differ (live -> restored): {}", op_kind, outcome, d),
        });
    }
    // the composite persister: the backup store alone must carry the same state
    if w.backup.is_some() {
        match crate::ev::catch(|| w.clone_restored_from_backup().map(|r| durable_view(&r.snapshot_live()))) {
            Ok(Some(from_backup)) =>
                if let Some(d) = json_diff(&live, &from_backup) {
                    vios.push(Vio {
                        prop: "C11",
                        key: format!("C11:{}:backup-store:{}", op_kind, path_class(&d, 5)),
                        what: format!("after {} ({}) live state and state restored from the backup store alone differ (live -> restored): {}", op_kind, outcome, d),
                    });
                },
            Ok(None) => {}
            Err(p) => vios.push(Vio { prop: "C11", key: format!("C11:restore-panics:backup-store:{}", op_kind), what: format!("restoring from the backup store after {} ({}) panicked: {}", op_kind, outcome, p) }),
        }
    }
}
