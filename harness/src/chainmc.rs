//! C14: channel monitors depend only on the current best chain.
//!
//! BFS over connect/disconnect paths; every transition runs on the real tracker + monitors of a
//! real node through the AddBlock / RemoveBlock / BlockChunk messages.  Oracle (differential):
//! the view after the path must equal the view of a fresh signer that connects only the blocks of
//! the resulting best chain; nothing may panic.

use crate::chain::*;
use crate::ev::*;
use crate::monitors::path_class;
use crate::scenario::*;
use crate::vmc::*;
use crate::world::*;
use lightning_signer::bitcoin::{OutPoint, Transaction};
use serde::{Deserialize, Serialize};
use serde_json::{json, Value};

#[derive(Clone, Copy, Debug, PartialEq, Eq, Hash, PartialOrd, Ord, Serialize, Deserialize)]
pub enum T {
    F,   // funding
    D,   // double spend of the first funding input
    D2,  // double spend of the second funding input
    M,   // mutual close
    HC,  // holder commitment 1
    CC,  // counterparty commitment 1
    RC,  // revoked counterparty commitment 0
    S,   // sweep of our output of the confirmed commitment
    H1o, // first-level spend of the HTLC we offered
    H1r, // first-level spend of the HTLC we received
    H2o, // second-level spend
    H2r,
    U,   // unrelated
}

#[derive(Clone, Copy, Debug, PartialEq, Eq, Serialize, Deserialize)]
pub enum Scen {
    Funding,
    HolderClose,
    CpClose,
    Full,
    /// the base chain already carries the holder's commitment, the sweep of its main output and
    /// both first-level HTLC spends: what is left to explore are the second-level sweeps that
    /// complete the close (and their reorganisation)
    HolderHtlcsOut,
}

#[derive(Clone, Debug, Serialize, Deserialize)]
pub struct C14Cfg {
    pub scen: Scen,
    pub anchors: bool,
    pub delivery: Delivery,
    pub max_chain: usize,
    pub max_block: usize,
    pub restart: bool,
    /// macro letters: connect / disconnect as many empty blocks as the tracker's reorg window
    /// holds (and one fewer), so that the deepest reorganisation the window allows is exercised
    #[serde(default)]
    pub deep: bool,
    /// carry the C11 durability monitor: after every transition a signer restored from a copy of
    /// the store must have the same tip and channel monitors as the live one
    #[serde(default)]
    pub monitors: bool,
    /// the channel is created and set up while a streamed block is in flight (between its first
    /// and second chunk); the base blocks after that are delivered compact
    #[serde(default)]
    pub midstream: bool,
    /// the tracker starts from a checkpoint three blocks before a difficulty adjustment, on a tip
    /// twice as hard as the network maximum; the first block of the new period really changes the
    /// target, and the explored connects / disconnects cross it
    #[serde(default)]
    pub retarget: bool,
}

#[derive(Clone, Debug, PartialEq, Eq, Hash, Serialize, Deserialize)]
pub enum Op {
    Connect(Vec<T>),
    Disconnect,
    Restart,
    /// macro letters (deep configurations only)
    ConnectEmpty(u32),
    DisconnectMany(u32),
}

pub struct C14State {
    pub w: Option<World>,
    pub f: Funded,
    pub chain: SimChain,
    pub names: Vec<Vec<T>>,
    pub dead: bool,
    /// menu transactions confirmed below the explored region
    pub base_conf: Vec<(T, Transaction)>,
    /// the harness's own model of how many headers the tracker remembers (= how many blocks may
    /// be disconnected): min(previous + 1, window) on connect, previous - 1 on disconnect
    pub remembered: usize,
}

/// the documented reorg window
const WIN: usize = lightning_signer::chain::tracker::ChainTracker::<lightning_signer::monitor::ChainMonitor>::MAX_REORG_SIZE;

pub struct C14Model {
    pub cfg: C14Cfg,
}

fn wcfg() -> WorldCfg {
    let mut c = WorldCfg::default();
    c.oracle_pubkeys = vec![oracle_pub(0)];
    // two idle channels around the real one in the tracker's listener order (see WorldCfg)
    c.bystanders = true;
    c
}

impl C14Model {
    fn menu(&self) -> Vec<T> {
        match self.cfg.scen {
            Scen::Funding => vec![T::F, T::D, T::D2, T::M, T::U],
            Scen::HolderClose => vec![T::HC, T::S, T::H1o, T::H1r, T::H2o, T::H2r],
            Scen::CpClose => vec![T::CC, T::S, T::H1o, T::H1r, T::H2o],
            Scen::Full => vec![T::F, T::D, T::D2, T::M, T::HC, T::CC, T::RC, T::S, T::H1o, T::H1r, T::H2r, T::U],
            Scen::HolderHtlcsOut => vec![T::H2o, T::H2r, T::U],
        }
    }

    /// build the world up to the start of the explored region
    fn fresh(&self) -> (World, Funded, SimChain, Vec<(T, Transaction)>) {
        let w = World::new(wcfg());
        if self.cfg.retarget {
            use lightning_signer::bitcoin::hashes::Hash;
            let maxt = lightning_signer::chain::tracker::max_target(lightning_signer::bitcoin::Network::Regtest);
            let bits = crate::chain13::shift_target(maxt, false, 1).to_compact_lossy();
            let header = mine(lightning_signer::bitcoin::BlockHash::from_byte_array([0x42; 32]), lightning_signer::bitcoin::TxMerkleNode::from_byte_array([0x24; 32]), bits, 0);
            let node = w.node.clone();
            let mut t = node.get_tracker();
            t.height = 3 * 2016 - 3;
            t.tip = lightning_signer::chain::tracker::Headers(header, lightning_signer::bitcoin::FilterHeader::from_byte_array([7; 32]));
            t.headers.clear();
            node.get_persister().update_tracker(&node.get_id(), &t).expect("store the checkpoint tracker");
            drop(t);
            w.end_request();
        }
        let (f, mut chain) = if self.cfg.midstream {
            let mut chain = w.new_sim_chain();
            let b = make_block(&chain.tip().0, chain.height() + 1, 0, vec![]);
            assert!(w.connect(&mut chain, b, Delivery::Compact).is_ok());
            let mut f = None;
            let b = make_block(&chain.tip().0, chain.height() + 1, 5, vec![]);
            let r = w.connect_streamed_with(&mut chain, b, || f = Some(fund_channel(&w, 1, self.cfg.anchors, true)));
            assert!(r.is_ok(), "mid-stream block: {}", r.tag());
            (f.unwrap(), chain)
        } else {
            let f = fund_channel(&w, 1, self.cfg.anchors, true);
            let mut chain = w.new_sim_chain();
            // one empty block first: the tip recorded without a filter header skips proof checking,
            // and a monitor that never saw a block ignores pushes
            let b = make_block(&chain.tip().0, chain.height() + 1, 0, vec![]);
            let r = w.connect(&mut chain, b, self.cfg.delivery);
            assert!(r.is_ok(), "base block: {}", r.tag());
            (f, chain)
        };
        let base_delivery = if self.cfg.midstream { Delivery::Compact } else { self.cfg.delivery };
        if matches!(self.cfg.scen, Scen::HolderClose | Scen::CpClose | Scen::HolderHtlcsOut) {
            let b = make_block(&chain.tip().0, chain.height() + 1, 0, vec![f.funding_tx.clone()]);
            let r = w.connect(&mut chain, b, base_delivery);
            assert!(r.is_ok(), "funding block: {}", r.tag());
        }
        let mut base_conf = vec![];
        if self.cfg.scen == Scen::HolderHtlcsOut {
            let mut txs = vec![];
            for t in [T::HC, T::S, T::H1o, T::H1r] {
                let tx = tx_for(t, &f, &base_conf).expect("base transaction constructible");
                base_conf.push((t, tx.clone()));
                txs.push(tx);
            }
            let b = make_block(&chain.tip().0, chain.height() + 1, 3, txs);
            let r = w.connect(&mut chain, b, base_delivery);
            assert!(r.is_ok(), "close block: {}", r.tag());
        }
        // the explored region starts here
        let base = SimChain::new(chain.tip(), chain.height());
        (w, f, base, base_conf)
    }
}

/// the transaction for a menu name given what is confirmed so far (None = not constructible)
fn tx_for(t: T, f: &Funded, confirmed: &[(T, Transaction)]) -> Option<Transaction> {
    let get = |n: T| confirmed.iter().find(|(x, _)| *x == n).map(|(_, tx)| tx.clone());
    let funding_op = f.setup.funding_outpoint;
    match t {
        T::F => Some(f.funding_tx.clone()),
        T::D => Some(simple_tx(vec![f.wallet_in], vec![(CHANNEL_VALUE, unrelated_script(1))], 7)),
        T::D2 => Some(simple_tx(vec![f.wallet_in2], vec![(400_000, unrelated_script(5))], 8)),
        T::M => {
            let mut tx = simple_tx(vec![funding_op], vec![(f.c1.to_holder, unrelated_script(2)), (f.c1.to_cp, unrelated_script(3))], 0);
            tx.lock_time = lightning_signer::bitcoin::absolute::LockTime::ZERO;
            Some(tx)
        }
        T::HC => f.hc1.clone(),
        T::CC => f.cc1.clone(),
        T::RC => f.cc0.clone(),
        T::U => Some(simple_tx(vec![OutPoint { txid: f.wallet_in.txid, vout: 5 }], vec![(1000, unrelated_script(4))], 9)),
        T::S | T::H1o | T::H1r => {
            // which commitment is confirmed?
            let (ctx, c, holder) = if let Some(tx) = get(T::HC) {
                (tx, &f.c1, true)
            } else if let Some(tx) = get(T::CC) {
                (tx, &f.c1, false)
            } else if let Some(tx) = get(T::RC) {
                (tx, &f.c0, false)
            } else {
                return None;
            };
            let (ours, off, rec) = commitment_outputs(&ctx, c, holder);
            let idx = match t {
                T::S => ours,
                T::H1o => off,
                _ => rec,
            }?;
            let txid = ctx.compute_txid();
            let salt = match t {
                T::S => 11,
                T::H1o => 12,
                _ => 13,
            };
            Some(simple_tx(vec![OutPoint { txid, vout: idx }], vec![(ctx.output[idx as usize].value.to_sat() - 300, unrelated_script(salt as u8))], salt))
        }
        T::H2o | T::H2r => {
            let first = get(if t == T::H2o { T::H1o } else { T::H1r })?;
            Some(simple_tx(vec![OutPoint { txid: first.compute_txid(), vout: 0 }], vec![(first.output[0].value.to_sat() - 300, unrelated_script(20))], 21))
        }
    }
}

impl C14State {
    fn w(&self) -> &World {
        self.w.as_ref().unwrap()
    }

    /// transactions confirmed on the current chain (explored region), with their names
    fn confirmed(&self) -> Vec<(T, Transaction)> {
        let mut v = self.base_conf.clone();
        for (names, (b, _)) in self.names.iter().zip(self.chain.blocks.iter()) {
            for (i, n) in names.iter().enumerate() {
                v.push((*n, b.txdata[i + 1].clone()));
            }
        }
        v
    }
}

fn spent_in(conf: &[(T, Transaction)], op: &OutPoint) -> bool {
    conf.iter().any(|(_, tx)| tx.input.iter().any(|i| i.previous_output == *op))
}

impl C14Model {
    /// all UTXO-valid ordered blocks of at most max_block menu transactions
    fn valid_blocks(&self, s: &C14State) -> Vec<Vec<T>> {
        let base_conf = s.confirmed();
        let funding_confirmed_in_base = matches!(self.cfg.scen, Scen::HolderClose | Scen::CpClose | Scen::HolderHtlcsOut);
        let menu = self.menu();
        let mut out: Vec<Vec<T>> = vec![vec![]];
        let mut frontier: Vec<(Vec<T>, Vec<(T, Transaction)>)> = vec![(vec![], base_conf.clone())];
        for _ in 0..self.cfg.max_block {
            let mut next = vec![];
            for (names, conf) in frontier.iter() {
                for &t in &menu {
                    if conf.iter().any(|(n, _)| *n == t) {
                        continue; // each menu transaction confirms at most once
                    }
                    let tx = match tx_for(t, &s.f, conf) {
                        Some(tx) => tx,
                        None => continue,
                    };
                    // inputs must exist and be unspent
                    let mut ok = true;
                    for i in &tx.input {
                        let op = i.previous_output;
                        if spent_in(conf, &op) {
                            ok = false;
                            break;
                        }
                        let exists = op == s.f.wallet_in
                            || op == s.f.wallet_in2
                            || op.txid == s.f.wallet_in.txid
                            || conf.iter().any(|(_, c)| c.compute_txid() == op.txid)
                            || (funding_confirmed_in_base && op == s.f.setup.funding_outpoint);
                        if !exists {
                            ok = false;
                            break;
                        }
                    }
                    // only one transaction may spend the funding outpoint, F needs its input
                    if !ok {
                        continue;
                    }
                    let mut n2 = names.clone();
                    n2.push(t);
                    let mut c2 = conf.clone();
                    c2.push((t, tx));
                    out.push(n2.clone());
                    next.push((n2, c2));
                }
            }
            frontier = next;
        }
        out
    }

    fn build_block(&self, s: &C14State, names: &[T]) -> lightning_signer::bitcoin::Block {
        let mut conf = s.confirmed();
        let mut txs = vec![];
        for &t in names {
            let tx = tx_for(t, &s.f, &conf).expect("constructible");
            conf.push((t, tx.clone()));
            txs.push(tx);
        }
        // deterministic salt: a function of the block content
        let salt = names.iter().fold(17u32, |a, t| a.wrapping_mul(31).wrapping_add(*t as u32 + 1));
        if self.cfg.retarget {
            make_block_retargeting(&s.chain.tip().0, s.chain.height() + 1, salt, txs)
        } else {
            make_block(&s.chain.tip().0, s.chain.height() + 1, salt, txs)
        }
    }

    /// the view the property lists
    fn view(&self, w: &World, f: &Funded) -> Value {
        let t = w.node.get_tracker();
        let mut listeners = vec![];
        for (k, (mon, slot)) in t.listeners.iter() {
            let mut st = serde_json::to_value(&*mon.get_state()).unwrap();
            if let Some(o) = st.as_object_mut() {
                // not chain derived (see DESIGN 6.2)
                o.remove("saw_block");
                o.remove("saw_forget_channel");
            }
            let cs = mon.as_base().as_chain_state();
            listeners.push(json!({
                "key": k.to_string(),
                "state": st,
                "chain_state": [cs.current_height, cs.funding_depth, cs.funding_double_spent_depth, cs.closing_depth],
                "slot": serde_json::to_value(slot).unwrap(),
            }));
        }
        let _ = f;
        // The window of remembered headers is a function of the best chain only while no reorg
        // went deeper than what was remembered before it (a window does not refill with older
        // headers); with the window-deep macro letters it is therefore left out of the view.
        let headers: Vec<String> = if self.cfg.deep { vec![] } else { t.headers().iter().map(|h| format!("{}:{}", h.0.block_hash(), h.1)).collect() };
        json!({
            "height": t.height(),
            "tip": format!("{}:{}", t.tip().0.block_hash(), t.tip().1),
            "headers": headers,
            "listeners": listeners,
        })
    }
}

impl Model for C14Model {
    type Op = Op;
    type State = C14State;

    fn cfg_json(&self) -> serde_json::Value {
        serde_json::to_value(&self.cfg).unwrap()
    }

    fn name(&self) -> String {
        format!(
            "chainmc({:?},{},{:?},L={},B={}{}{})",
            self.cfg.scen,
            if self.cfg.anchors { "anchors" } else { "static" },
            self.cfg.delivery,
            self.cfg.max_chain,
            self.cfg.max_block,
            if self.cfg.restart { ",restart" } else { "" },
            if self.cfg.deep { ",reorg-window-macros" } else { "" }
        ) + if self.cfg.monitors { ",monitors" } else { "" } + if self.cfg.midstream { ",channel set up mid-stream" } else { "" } + if self.cfg.retarget { ",across a difficulty adjustment" } else { "" }
    }

    fn init(&self) -> C14State {
        let (w, f, chain, base_conf) = self.fresh();
        let remembered = {
            let t = w.node.get_tracker();
            t.headers().len()
        };
        C14State { remembered, w: Some(w), f, chain, names: vec![], dead: false, base_conf }
    }

    fn alive(&self, s: &C14State) -> bool {
        !s.dead
    }

    fn ops(&self, s: &C14State) -> Vec<Op> {
        let mut v = vec![];
        if !s.chain.blocks.is_empty() && s.remembered >= 1 {
            v.push(Op::Disconnect);
        }
        if self.cfg.restart {
            v.push(Op::Restart);
        }
        if s.chain.blocks.len() < self.cfg.max_chain {
            for b in self.valid_blocks(s) {
                v.push(Op::Connect(b));
            }
        }
        if self.cfg.deep {
            let win = lightning_signer::chain::tracker::ChainTracker::<lightning_signer::monitor::ChainMonitor>::MAX_REORG_SIZE as u32;
            let n = s.chain.blocks.len() as u32;
            if n < win {
                v.push(Op::ConnectEmpty(win));
                v.push(Op::ConnectEmpty(win - 1));
            }
            for k in [win, win - 1] {
                if n >= k && s.remembered as u32 >= k {
                    v.push(Op::DisconnectMany(k));
                }
            }
        }
        v
    }

    fn key(&self, s: &C14State) -> String {
        let v = self.view(s.w(), &s.f);
        format!("{}|{:?}|{}", fp(&v), s.names, s.remembered)
    }

    fn apply(&self, s: &mut C14State, op: &Op, check: bool, vios: &mut Vec<Vio>) {
        if s.dead {
            return;
        }
        let kind;
        let r = match op {
            Op::Connect(names) => {
                kind = format!("connect[{}]", names.iter().map(|t| format!("{:?}", t)).collect::<Vec<_>>().join("+"));
                let block = self.build_block(s, names);
                let w = s.w.as_ref().unwrap();
                let r = w.connect(&mut s.chain, block, self.cfg.delivery);
                if r.is_ok() {
                    s.remembered = (s.remembered + 1).min(WIN);
                    s.names.push(names.clone());
                }
                r
            }
            Op::Disconnect => {
                let last = s.names.last().cloned().unwrap_or_default();
                kind = format!("disconnect[{}]", last.iter().map(|t| format!("{:?}", t)).collect::<Vec<_>>().join("+"));
                let w = s.w.as_ref().unwrap();
                let r = w.disconnect(&mut s.chain, self.cfg.delivery);
                if r.is_ok() {
                    s.remembered = s.remembered.saturating_sub(1);
                    s.names.pop();
                }
                r
            }
            Op::ConnectEmpty(k) => {
                kind = format!("connect-empty*{}", k);
                let mut r = Outcome::Ok(());
                for i in 0..*k {
                    let _ = i;
                    let block = self.build_block(s, &vec![]);
                    let w = s.w.as_ref().unwrap();
                    r = w.connect(&mut s.chain, block, self.cfg.delivery);
                    if !r.is_ok() {
                        break;
                    }
                    s.remembered = (s.remembered + 1).min(WIN);
                    s.names.push(vec![]);
                }
                r
            }
            Op::DisconnectMany(k) => {
                kind = format!("disconnect*{}", k);
                let mut r = Outcome::Ok(());
                for _ in 0..*k {
                    let w = s.w.as_ref().unwrap();
                    r = w.disconnect(&mut s.chain, self.cfg.delivery);
                    if !r.is_ok() {
                        break;
                    }
                    s.remembered = s.remembered.saturating_sub(1);
                    s.names.pop();
                }
                r
            }
            Op::Restart => {
                kind = "restart".to_string();
                let w = s.w.take().unwrap();
                match catch(move || w.restart()) {
                    Ok(w2) => {
                        s.w = Some(w2);
                        Outcome::Ok(())
                    }
                    Err(p) => {
                        vios.push(Vio { prop: "C11", key: "C11:restart-panics:chain".into(), what: format!("restart panicked: {} at {}", p, last_panic_loc()) });
                        s.dead = true;
                        return;
                    }
                }
            }
        };
        match &r {
            Outcome::Panic(p) => {
                let is_reorg = matches!(op, Op::Disconnect | Op::DisconnectMany(_));
                vios.push(Vio {
                    prop: "C14",
                    key: format!("C14:panic:{}:{}", if is_reorg { "disconnect" } else { "connect" }, kind),
                    what: format!("{} panicked: {}", kind, p),
                });
                s.dead = true;
                return;
            }
            Outcome::Err(e) => {
                vios.push(Vio {
                    prop: "C14",
                    key: format!("C14:valid-block-refused:{}", kind),
                    what: format!("{} of a valid block was refused: {}", kind, e),
                });
                s.dead = true;
                return;
            }
            Outcome::Ok(_) => {}
        }
        if check && self.cfg.monitors && !matches!(op, Op::Restart) {
            crate::monitors::durability_monitor(s.w(), &kind, "ok", vios);
        }
        if check {
            // differential oracle: a fresh signer that connects only the surviving chain
            let names = s.names.clone();
            let fresh = catch(|| {
                let (w2, f2, base, base_conf) = self.fresh();
                let mut st2 = C14State { remembered: 0, w: Some(w2), f: f2, chain: base, names: vec![], dead: false, base_conf };
                // the replay of the mid-stream configurations delivers compact: the view may not
                // depend on how the blocks were delivered either
                let replay_delivery = if self.cfg.midstream { Delivery::Compact } else { self.cfg.delivery };
                for n in &names {
                    let b = self.build_block(&st2, n);
                    let w = st2.w.as_ref().unwrap();
                    let r = w.connect(&mut st2.chain, b, replay_delivery);
                    if !r.is_ok() {
                        return Err(format!("fresh replay of {:?} failed: {}", n, r.tag()));
                    }
                    st2.names.push(n.clone());
                }
                Ok(self.view(st2.w(), &st2.f))
            });
            match fresh {
                Ok(Ok(v2)) => {
                    let v1 = self.view(s.w(), &s.f);
                    if let Some(d) = json_diff(&v2, &v1) {
                        vios.push(Vio {
                            prop: "C14",
                            key: format!("C14:view-differs-from-best-chain-replay:{}:{}", kind, path_class(&d, 6)),
                            what: format!("after {} the view differs from a fresh replay of the best chain {:?} (fresh -> actual): {}", kind, names, d),
                        });
                    }
                }
                Ok(Err(e)) => {
                    // the surviving chain itself cannot be connected freshly: reported once per kind
                    vios.push(Vio { prop: "C14", key: format!("C14:fresh-replay-failed:{}", kind), what: e });
                }
                Err(p) => {
                    vios.push(Vio { prop: "C14", key: format!("C14:fresh-replay-panicked:{}", kind), what: format!("{} at {}", p, last_panic_loc()) });
                }
            }
        }
    }

    fn prune_after(&self, v: &Vio) -> bool {
        v.prop == "C14" || (self.cfg.monitors && v.prop == "C11")
    }
}

pub fn configs(tier: Tier) -> Vec<C14Cfg> {
    let mut v = vec![];
    match tier {
        Tier::Quick => {
            v.push(C14Cfg { scen: Scen::Funding, anchors: false, delivery: Delivery::Compact, max_chain: 3, max_block: 2, restart: false, deep: false, monitors: false, midstream: false, retarget: false });
            v.push(C14Cfg { scen: Scen::HolderClose, anchors: false, delivery: Delivery::Compact, max_chain: 2, max_block: 2, restart: false, deep: false, monitors: false, midstream: false, retarget: false });
            v.push(C14Cfg { scen: Scen::CpClose, anchors: true, delivery: Delivery::Streamed, max_chain: 2, max_block: 2, restart: false, deep: false, monitors: false, midstream: false, retarget: false });
            v.push(C14Cfg { scen: Scen::Funding, anchors: false, delivery: Delivery::Compact, max_chain: 1, max_block: 1, restart: false, deep: true, monitors: false, midstream: false, retarget: false });
            v.push(C14Cfg { scen: Scen::HolderHtlcsOut, anchors: false, delivery: Delivery::Compact, max_chain: 2, max_block: 2, restart: false, deep: false, monitors: false, midstream: false, retarget: false });
            v.push(C14Cfg { scen: Scen::HolderClose, anchors: false, delivery: Delivery::Streamed, max_chain: 2, max_block: 2, restart: false, deep: false, monitors: false, midstream: true, retarget: false });
            v.push(C14Cfg { scen: Scen::Funding, anchors: false, delivery: Delivery::Compact, max_chain: 3, max_block: 1, restart: false, deep: false, monitors: false, midstream: false, retarget: true });
        }
        Tier::Thorough => {
            for delivery in [Delivery::Compact, Delivery::Streamed] {
                v.push(C14Cfg { scen: Scen::Funding, anchors: false, delivery, max_chain: 4, max_block: 3, restart: true, deep: false, monitors: false, midstream: false, retarget: false });
                for anchors in [false, true] {
                    v.push(C14Cfg { scen: Scen::HolderClose, anchors, delivery, max_chain: 3, max_block: 3, restart: false, deep: false, monitors: false, midstream: false, retarget: false });
                    v.push(C14Cfg { scen: Scen::CpClose, anchors, delivery, max_chain: 3, max_block: 3, restart: false, deep: false, monitors: false, midstream: false, retarget: false });
                }
                v.push(C14Cfg { scen: Scen::Full, anchors: false, delivery, max_chain: 3, max_block: 2, restart: false, deep: false, monitors: false, midstream: false, retarget: false });
                v.push(C14Cfg { scen: Scen::HolderHtlcsOut, anchors: delivery == Delivery::Streamed, delivery, max_chain: 3, max_block: 2, restart: true, deep: false, monitors: false, midstream: false, retarget: false });
                v.push(C14Cfg { scen: Scen::Funding, anchors: false, delivery, max_chain: 2, max_block: 2, restart: true, deep: true, monitors: false, midstream: false, retarget: false });
                v.push(C14Cfg { scen: if delivery == Delivery::Streamed { Scen::HolderClose } else { Scen::CpClose }, anchors: delivery == Delivery::Compact, delivery: Delivery::Streamed, max_chain: 3, max_block: 2, restart: true, deep: false, monitors: false, midstream: true, retarget: false });
            }
        }
    }
    v
}

pub struct ChainRun {
    pub stats: BfsStats,
    pub found: Vec<Found>,
    pub models: Vec<String>,
}

pub fn explore(tier: Tier, wall_s: f64) -> ChainRun {
    let cfgs = configs(tier);
    let mut stats = BfsStats { closed: true, ..Default::default() };
    let mut found = vec![];
    let mut models = vec![];
    let per = wall_s / cfgs.len() as f64;
    for cfg in cfgs {
        let m = C14Model { cfg };
        let lim = Limits { max_depth: 12, max_states: 3_000_000, wall_s: per };
        let st = bfs(&m, &lim, &mut found);
        models.push(format!("{}: states={} transitions={} closed={} depth={}", m.name(), st.states, st.transitions, st.closed, st.max_depth));
        merge_stats(&mut stats, &st);
    }
    ChainRun { stats, found, models }
}

/// the same search with the C11 durability monitor after every transition (fewer configurations)
pub fn explore_monitored(tier: Tier, wall_s: f64) -> ChainRun {
    let mut cfgs = vec![];
    match tier {
        Tier::Quick => {
            cfgs.push(C14Cfg { scen: Scen::HolderClose, anchors: false, delivery: Delivery::Compact, max_chain: 2, max_block: 2, restart: false, deep: false, monitors: true, midstream: false, retarget: false });
        }
        Tier::Thorough => {
            cfgs.push(C14Cfg { scen: Scen::Funding, anchors: false, delivery: Delivery::Compact, max_chain: 3, max_block: 2, restart: false, deep: false, monitors: true, midstream: false, retarget: false });
            cfgs.push(C14Cfg { scen: Scen::HolderClose, anchors: false, delivery: Delivery::Compact, max_chain: 3, max_block: 2, restart: false, deep: false, monitors: true, midstream: false, retarget: false });
            cfgs.push(C14Cfg { scen: Scen::CpClose, anchors: true, delivery: Delivery::Streamed, max_chain: 3, max_block: 2, restart: false, deep: false, monitors: true, midstream: false, retarget: false });
            cfgs.push(C14Cfg { scen: Scen::Full, anchors: false, delivery: Delivery::Compact, max_chain: 2, max_block: 2, restart: false, deep: false, monitors: true, midstream: false, retarget: false });
        }
    }
    let mut stats = BfsStats { closed: true, ..Default::default() };
    let mut found = vec![];
    let mut models = vec![];
    let per = wall_s / cfgs.len() as f64;
    for cfg in cfgs {
        let m = C14Model { cfg };
        let lim = Limits { max_depth: 12, max_states: 3_000_000, wall_s: per };
        let st = bfs(&m, &lim, &mut found);
        models.push(format!("{}: states={} transitions={} closed={} depth={}", m.name(), st.states, st.transitions, st.closed, st.max_depth));
        merge_stats(&mut stats, &st);
    }
    ChainRun { stats, found, models }
}

pub fn replay_ops(v: &serde_json::Value) -> Vec<Vio> {
    let cfg: C14Cfg = serde_json::from_value(v["cfg"].clone()).expect("chainmc cfg");
    let ops: Vec<Op> = serde_json::from_value(v["ops"].clone()).expect("chainmc ops");
    crate::vmc::replay(&C14Model { cfg }, &ops)
}
