//! C15: channel state is discarded only when safely buried, and ids are never reused.
//! (Also carries the C10/C11 monitors for node-level requests.)

use crate::chain::*;
use crate::ev::*;
use crate::monitors::*;
use crate::scenario::*;
use crate::vmc::*;
use crate::world::*;
use lightning_signer::bitcoin::{OutPoint, Transaction};
use lightning_signer::persist::Persist;
use serde::{Deserialize, Serialize};
use serde_json::json;
use std::collections::BTreeMap;
use vls_protocol::msgs::{self, Message};

#[derive(Clone, Copy, Debug, PartialEq, Eq, Serialize, Deserialize)]
pub enum Scen {
    /// nothing exists yet: open / new / forget / fund / double-spend / mutual close are all letters
    Lifecycle,
    /// channel 1 is open and its funding confirmed in the base chain
    Mutual,
    /// channel 1 is open, funding signed but not confirmed
    DoubleSpend,
    /// channel 1 advanced, funding and holder commitment 1 confirmed in the base chain
    Unilateral,
    /// as Unilateral, and the sweep of our output, the first-level and the second-level HTLC
    /// spends are confirmed in three further blocks that can be disconnected again
    Swept,
    /// only new / forget of three ids and restarts (no funding, no blocks): the order in which
    /// ids are forgotten and recreated
    Ids,
    /// channel 1 open, funding and mutual close confirmed, 98 further blocks, forget requested:
    /// two more blocks and a heartbeat prune it
    Prunable,
    /// a channel stub (id 2) that is one block short of the age at which the heartbeat discards it
    StubAged,
    /// like `Swept`, but only the HTLC outputs and their second level are spent: the node's main
    /// output of the confirmed commitment is still unswept
    HtlcsSwept,
    /// the confirmed commitment carries two parts of one offered payment (identical output
    /// scripts); the main output, the first part, the received HTLC and their second level are
    /// swept, the second part is not: the channel must never be discarded
    TwoParts,
    /// funding confirmed, the mutual close confirmed and reorganised out again, forget requested:
    /// nothing is buried, the channel has to stay
    MutualReorged,
}

#[derive(Clone, Debug, Serialize, Deserialize)]
pub struct NodeCfg {
    pub scen: Scen,
    pub max_ops: usize,
    pub monitors: bool,
    /// over the transactional cloud store
    #[serde(default)]
    pub cloud: bool,
    /// channels get a permanent id that differs from the original one
    #[serde(default)]
    pub perm: bool,
    /// unilateral scenarios: anchors (zero-fee HTLC) channel instead of static-remotekey
    #[serde(default)]
    pub anchors: bool,
    /// unilateral scenarios: the counterparty's commitment confirms instead of the holder's
    #[serde(default)]
    pub cp_close: bool,
    /// blocks are delivered (and disconnected) as streams of chunks
    #[serde(default)]
    pub streamed: bool,
}

#[derive(Clone, Copy, Debug, PartialEq, Eq, Hash, PartialOrd, Ord, Serialize, Deserialize)]
pub enum Tx {
    Fund,
    DoubleSpend,
    Mutual,
    Sweep,
    H1,
    H2,
}

#[derive(Clone, Debug, PartialEq, Eq, Hash, Serialize, Deserialize)]
pub enum Op {
    Open(u64),
    New(u64),
    Forget(u64),
    Heartbeat,
    Connect(Vec<Tx>),
    Empty(u32),
    Disconnect(u32),
    Restart,
    /// allowlist requests: 0 add [a1]; 1 add [a2, unparsable]; 2 set [a3, unparsable];
    /// 3 remove [a1, unparsable]; 4 remove [a1]
    Allow(u8),
}

#[derive(Clone, Default, Debug, Serialize)]
pub struct Ghost {
    /// dbid -> was ready (set up) at some point and not yet observed gone
    pub ready: BTreeMap<u64, bool>,
    pub forget_requested: BTreeMap<u64, bool>,
    pub hwm: u64,
    pub empties: u32,
    pub big_empties: u32,
}

pub struct NState {
    pub w: Option<World>,
    pub f: Option<Funded>,
    pub chain: SimChain,
    /// per block: the transactions (by name) it carries
    pub names: Vec<Vec<Tx>>,
    pub ghost: Ghost,
    pub dead: bool,
    pub nops: usize,
}

pub struct NodeModel {
    pub cfg: NodeCfg,
}

impl NState {
    fn w(&self) -> &World {
        self.w.as_ref().unwrap()
    }
    fn confirmed(&self) -> Vec<(Tx, Transaction, u32)> {
        let mut v = vec![];
        for (i, (names, (b, _))) in self.names.iter().zip(self.chain.blocks.iter()).enumerate() {
            for (j, n) in names.iter().enumerate() {
                v.push((*n, b.txdata[j + 1].clone(), self.chain.base_height + 1 + i as u32));
            }
        }
        v
    }
    fn conf_height(&self, t: Tx) -> Option<u32> {
        self.confirmed().iter().find(|(n, _, _)| *n == t).map(|x| x.2)
    }
    fn depth(&self, t: Tx) -> u32 {
        match self.conf_height(t) {
            Some(h) => self.chain.height() + 1 - h,
            None => 0,
        }
    }
}

fn wcfg(cloud: bool, perm: bool, bystanders: bool) -> WorldCfg {
    let mut c = WorldCfg::default();
    c.bystanders = bystanders;
    c.oracle_pubkeys = vec![oracle_pub(0)];
    c.cloud = cloud;
    c.permanent_ids = perm;
    c
}

impl NodeModel {
    fn delivery(&self) -> Delivery {
        if self.cfg.streamed {
            Delivery::Streamed
        } else {
            Delivery::Compact
        }
    }

    fn tx_for(&self, s: &NState, t: Tx) -> Option<Transaction> {
        let f = s.f.as_ref()?;
        let conf = s.confirmed();
        let get = |n: Tx| conf.iter().find(|(x, _, _)| *x == n).map(|(_, tx, _)| tx.clone());
        let spent = |op: &OutPoint| conf.iter().any(|(_, tx, _)| tx.input.iter().any(|i| i.previous_output == *op));
        if get(t).is_some() {
            return None;
        }
        match t {
            Tx::Fund => {
                if spent(&f.wallet_in) || matches!(self.cfg.scen, Scen::Mutual | Scen::MutualReorged | Scen::Unilateral | Scen::Swept | Scen::HtlcsSwept | Scen::TwoParts | Scen::Prunable) {
                    None
                } else {
                    Some(f.funding_tx.clone())
                }
            }
            Tx::DoubleSpend => {
                if spent(&f.wallet_in) || matches!(self.cfg.scen, Scen::Mutual | Scen::MutualReorged | Scen::Unilateral | Scen::Swept | Scen::HtlcsSwept | Scen::TwoParts | Scen::Prunable) {
                    None
                } else {
                    Some(simple_tx(vec![f.wallet_in], vec![(CHANNEL_VALUE, unrelated_script(1))], 7))
                }
            }
            Tx::Mutual => {
                let funded = get(Tx::Fund).is_some() || matches!(self.cfg.scen, Scen::Unilateral | Scen::Mutual | Scen::MutualReorged | Scen::Swept | Scen::HtlcsSwept | Scen::Prunable);
                if !funded || spent(&f.setup.funding_outpoint) || matches!(self.cfg.scen, Scen::Unilateral | Scen::Swept | Scen::HtlcsSwept | Scen::TwoParts) {
                    return None;
                }
                let mut tx = simple_tx(vec![f.setup.funding_outpoint], vec![(f.c0.to_holder - 500, unrelated_script(2))], 0);
                tx.lock_time = lightning_signer::bitcoin::absolute::LockTime::ZERO;
                Some(tx)
            }
            Tx::Sweep | Tx::H1 => {
                if !matches!(self.cfg.scen, Scen::Unilateral | Scen::Swept | Scen::HtlcsSwept | Scen::TwoParts) {
                    return None;
                }
                let hc = if self.cfg.cp_close { f.cc1.clone()? } else { f.hc1.clone()? };
                let (ours, off, rec) = commitment_outputs(&hc, &f.c1, !self.cfg.cp_close);
                let txid = hc.compute_txid();
                match t {
                    Tx::Sweep => Some(simple_tx(vec![OutPoint { txid, vout: ours? }], vec![(1000, unrelated_script(11))], 11)),
                    _ => Some(simple_tx(
                        vec![OutPoint { txid, vout: off? }, OutPoint { txid, vout: rec? }],
                        vec![(19_000, unrelated_script(12)), (24_000, unrelated_script(13))],
                        12,
                    )),
                }
            }
            Tx::H2 => {
                let h1 = get(Tx::H1)?;
                let txid = h1.compute_txid();
                Some(simple_tx(vec![OutPoint { txid, vout: 0 }, OutPoint { txid, vout: 1 }], vec![(40_000, unrelated_script(20))], 21))
            }
        }
    }

    fn connect_block(&self, s: &mut NState, names: &[Tx], salt: u32) -> Outcome<()> {
        let mut txs = vec![];
        for &t in names {
            match self.tx_for(s, t) {
                Some(tx) => txs.push(tx),
                None => return Outcome::Err("not-constructible".into()),
            }
        }
        let block = make_block(&s.chain.tip().0, s.chain.height() + 1, salt, txs);
        let w = s.w.as_ref().unwrap();
        let r = w.connect(&mut s.chain, block, self.delivery());
        if r.is_ok() {
            s.names.push(names.to_vec());
        }
        r
    }

    /// is the channel allowed to be absent now?  (the statement's condition)
    fn may_be_absent(&self, s: &NState, dbid: u64) -> bool {
        if !*s.ghost.forget_requested.get(&dbid).unwrap_or(&false) {
            return false;
        }
        if dbid != 1 {
            return false;
        }
        let ds = s.depth(Tx::DoubleSpend) >= 100 && s.conf_height(Tx::Fund).is_none();
        let mutual = s.depth(Tx::Mutual) >= 100;
        let uni = if self.cfg.scen == Scen::TwoParts {
            // the second part of the offered payment is never swept in this scenario
            false
        } else if matches!(self.cfg.scen, Scen::Unilateral | Scen::Swept | Scen::HtlcsSwept) {
            // all of the node's outputs swept: our output, both HTLC outputs and the second level
            let last = [Tx::Sweep, Tx::H1, Tx::H2].iter().map(|t| s.conf_height(*t)).collect::<Vec<_>>();
            if last.iter().all(|h| h.is_some()) {
                let hmax = last.iter().map(|h| h.unwrap()).max().unwrap();
                s.chain.height() + 1 - hmax >= 100
            } else {
                false
            }
        } else {
            false
        };
        ds || mutual || uni
    }

    fn check_presence(&self, s: &mut NState, op: &Op, vios: &mut Vec<Vio>) {
        let kind = op_kind(op);
        let dbids: Vec<u64> = s.ghost.ready.iter().filter(|(_, r)| **r).map(|(d, _)| *d).collect();
        for d in dbids {
            let id = s.w().channel_id(d);
            let live = s.w().node.get_channel(&id).is_ok();
            let stored = s
                .w()
                .persister
                .get_node_channels(&s.w().node.get_id())
                .map(|v| v.iter().any(|(cid, _)| *cid == id))
                .unwrap_or(false);
            if !live || !stored {
                if !self.may_be_absent(s, d) {
                    vios.push(Vio {
                        prop: "C15",
                        key: format!("C15:ready-channel-discarded-early:{}:{}", kind, if !live { "live" } else { "store" }),
                        what: format!(
                            "after {:?} ready channel {} is gone (live={}, stored={}) although forget_requested={:?}, depth(double-spend)={}, depth(mutual)={}, chain height {}",
                            op, d, live, stored, s.ghost.forget_requested.get(&d), s.depth(Tx::DoubleSpend), s.depth(Tx::Mutual), s.chain.height()
                        ),
                    });
                }
                if !live && !stored {
                    s.ghost.ready.insert(d, false);
                }
            }
        }
    }
}

fn op_kind(op: &Op) -> String {
    match op {
        Op::Open(_) => "Open".into(),
        Op::New(_) => "NewChannel".into(),
        Op::Forget(_) => "ForgetChannel".into(),
        Op::Heartbeat => "GetHeartbeat".into(),
        Op::Connect(_) => "AddBlock".into(),
        Op::Empty(k) => format!("AddBlock*{}", k),
        Op::Disconnect(k) => format!("RemoveBlock*{}", k),
        Op::Restart => "Restart".into(),
        Op::Allow(k) => ["add_allowlist", "add_allowlist", "set_allowlist", "remove_allowlist", "remove_allowlist", "remove_allowlist", "remove_allowlist"][*k as usize % 7].into(),
    }
}

impl Model for NodeModel {
    type Op = Op;
    type State = NState;

    fn cfg_json(&self) -> serde_json::Value {
        serde_json::to_value(&self.cfg).unwrap()
    }

    fn name(&self) -> String {
        format!("nodemc({:?},ops<={}{}{}{}{})", self.cfg.scen, self.cfg.max_ops, if self.cfg.monitors { ",monitors" } else { "" }, if self.cfg.cloud { ",cloud-store" } else { "" }, if self.cfg.anchors { ",anchors" } else { "" }, if self.cfg.cp_close { ",counterparty-commitment" } else { "" }) + if self.cfg.streamed { ",streamed" } else { "" }
    }

    fn init(&self) -> NState {
        // where channel 1 exists from the start, two idle channels surround it in the tracker's
        // listener order
        let w = World::new(wcfg(self.cfg.cloud, self.cfg.perm, !matches!(self.cfg.scen, Scen::Lifecycle | Scen::Ids)));
        let mut chain = w.new_sim_chain();
        let b = make_block(&chain.tip().0, chain.height() + 1, 0, vec![]);
        assert!(w.connect(&mut chain, b, Delivery::Compact).is_ok());
        let mut s = NState { w: Some(w), f: None, chain: SimChain::new(chain.tip(), chain.height()), names: vec![], ghost: Ghost::default(), dead: false, nops: 0 };
        if matches!(self.cfg.scen, Scen::Mutual | Scen::DoubleSpend | Scen::Prunable | Scen::MutualReorged) {
            let f = fund_channel(s.w(), 1, false, false);
            s.ghost.ready.insert(1, true);
            if matches!(self.cfg.scen, Scen::Mutual | Scen::Prunable | Scen::MutualReorged) {
                let mut chain = chain.clone();
                let b = make_block(&chain.tip().0, chain.height() + 1, 0, vec![f.funding_tx.clone()]);
                assert!(s.w().connect(&mut chain, b, Delivery::Compact).is_ok());
                s.chain = SimChain::new(chain.tip(), chain.height());
            }
            s.f = Some(f);
        }
        if matches!(self.cfg.scen, Scen::Unilateral | Scen::Swept | Scen::HtlcsSwept | Scen::TwoParts) {
            // channel 1 funded, advanced, funding and the holder commitment confirmed
            let f = if self.cfg.scen == Scen::TwoParts { fund_channel_with(s.w(), 1, self.cfg.anchors, true, content1_two_parts()) } else { fund_channel(s.w(), 1, self.cfg.anchors, true) };
            s.ghost.ready.insert(1, true);
            let mut chain = chain;
            let b = make_block(&chain.tip().0, chain.height() + 1, 0, vec![f.funding_tx.clone()]);
            assert!(s.w().connect(&mut chain, b, Delivery::Compact).is_ok());
            let commitment = if self.cfg.cp_close { f.cc1.clone().unwrap() } else { f.hc1.clone().unwrap() };
            {
                // the scenario is only meaningful if the harness can name all three outputs
                let (ours, off, rec) = commitment_outputs(&commitment, &f.c1, !self.cfg.cp_close);
                assert!(ours.is_some() && off.is_some() && rec.is_some(), "commitment outputs not identified: {:?} {:?} {:?}", ours, off, rec);
            }
            let b = make_block(&chain.tip().0, chain.height() + 1, 0, vec![commitment]);
            assert!(s.w().connect(&mut chain, b, Delivery::Compact).is_ok());
            s.chain = SimChain::new(chain.tip(), chain.height());
            s.f = Some(f);
            if matches!(self.cfg.scen, Scen::Swept | Scen::HtlcsSwept | Scen::TwoParts) {
                let pre: &[Tx] = if self.cfg.scen == Scen::HtlcsSwept { &[Tx::H1, Tx::H2] } else { &[Tx::Sweep, Tx::H1, Tx::H2] };
                for (i, t) in pre.iter().enumerate() {
                    let r = self.connect_block(&mut s, &[*t], 40 + i as u32);
                    assert!(r.is_ok(), "scenario block {:?}: {}", t, r.tag());
                }
            }
        }
        if self.cfg.scen == Scen::MutualReorged {
            let r = self.connect_block(&mut s, &[Tx::Mutual], 60);
            assert!(r.is_ok(), "scenario block (mutual close): {}", r.tag());
            let r = {
                let w = s.w.as_ref().unwrap();
                w.disconnect(&mut s.chain, self.delivery())
            };
            assert!(r.is_ok(), "scenario disconnect: {}", r.tag());
            s.names.pop();
            let r = s.w().forget_channel(1);
            assert!(r.is_ok(), "scenario forget: {}", r.tag());
            s.ghost.forget_requested.insert(1, true);
            s.ghost.hwm = 1;
        }
        if self.cfg.scen == Scen::StubAged {
            let r = s.w().new_channel(2);
            assert!(r.is_ok(), "scenario stub: {}", r.tag());
            // regtest keeps a stub for 6 + 100 blocks
            for i in 0..106u32 {
                let r = self.connect_block(&mut s, &[], 100 + i);
                assert!(r.is_ok(), "scenario block: {}", r.tag());
            }
        }
        if self.cfg.scen == Scen::Prunable {
            let r = self.connect_block(&mut s, &[Tx::Mutual], 60);
            assert!(r.is_ok(), "scenario block (mutual close): {}", r.tag());
            for i in 0..98u32 {
                let r = self.connect_block(&mut s, &[], 100 + i);
                assert!(r.is_ok(), "scenario block: {}", r.tag());
            }
            let r = s.w().forget_channel(1);
            assert!(r.is_ok(), "scenario forget: {}", r.tag());
            s.ghost.forget_requested.insert(1, true);
            s.ghost.hwm = 1;
        }
        // everything the scenario did so far is one committed transaction
        s.w().end_request();
        s
    }

    fn alive(&self, s: &NState) -> bool {
        !s.dead
    }

    fn prune_after(&self, v: &Vio) -> bool {
        v.prop == "C15" || (self.cfg.monitors && (v.prop == "C10" || v.prop == "C11"))
    }

    fn ops(&self, s: &NState) -> Vec<Op> {
        let mut v = vec![];
        if s.nops >= self.cfg.max_ops {
            return v;
        }
        if self.cfg.scen == Scen::Ids {
            v.push(Op::Restart);
            for d in [1u64, 2, 3] {
                v.push(Op::New(d));
                v.push(Op::Forget(d));
            }
            return v;
        }
        v.push(Op::Restart);
        v.push(Op::Heartbeat);
        if self.cfg.monitors && self.cfg.scen == Scen::Lifecycle {
            for k in 0..7u8 {
                v.push(Op::Allow(k));
            }
        }
        match self.cfg.scen {
            Scen::Lifecycle | Scen::Mutual | Scen::DoubleSpend => {
                if s.f.is_none() && s.ghost.hwm < 1 {
                    v.push(Op::Open(1));
                }
                let ids: &[u64] = if self.cfg.scen == Scen::Lifecycle { &[1, 2] } else { &[1] };
                for &d in ids {
                    v.push(Op::New(d));
                    v.push(Op::Forget(d));
                }
                for t in [Tx::Fund, Tx::DoubleSpend, Tx::Mutual] {
                    if self.tx_for(s, t).is_some() {
                        v.push(Op::Connect(vec![t]));
                    }
                }
            }
            Scen::Ids => {}
            Scen::Prunable | Scen::MutualReorged => {
                v.push(Op::Forget(1));
                v.push(Op::New(1));
            }
            Scen::StubAged => {
                v.push(Op::New(2));
                v.push(Op::Forget(2));
            }
            Scen::Unilateral | Scen::Swept | Scen::HtlcsSwept | Scen::TwoParts => {
                v.push(Op::Forget(1));
                v.push(Op::New(1));
                for t in [Tx::Sweep, Tx::H1, Tx::H2] {
                    if self.tx_for(s, t).is_some() {
                        v.push(Op::Connect(vec![t]));
                    }
                }
                if self.tx_for(s, Tx::Sweep).is_some() && self.tx_for(s, Tx::H1).is_some() {
                    v.push(Op::Connect(vec![Tx::Sweep, Tx::H1]));
                }
            }
        }
        if s.ghost.empties < 2 {
            v.push(Op::Empty(1));
        }
        if s.ghost.big_empties < 1 && self.cfg.scen != Scen::StubAged {
            v.push(Op::Empty(98));
            v.push(Op::Empty(99));
        }
        if !s.chain.blocks.is_empty() {
            v.push(Op::Disconnect(1));
            if s.chain.blocks.len() >= 2 {
                v.push(Op::Disconnect(2));
            }
        }
        v
    }

    fn key(&self, s: &NState) -> String {
        format!("{}|{}|{:?}", fp(&s.w().snapshot()), serde_json::to_string(&s.ghost).unwrap(), s.names.iter().map(|n| n.len()).collect::<Vec<_>>())
    }

    fn apply(&self, s: &mut NState, op: &Op, check: bool, vios: &mut Vec<Vio>) {
        if s.dead {
            return;
        }
        s.nops += 1;
        let mon = check && self.cfg.monitors;
        let before = if mon { Some(s.w().snapshot()) } else { None };
        let kind = op_kind(op);
        let mut tag = "ok".to_string();
        match op {
            Op::Restart => {
                let w = s.w.take().unwrap();
                match catch(move || w.restart()) {
                    Ok(w2) => s.w = Some(w2),
                    Err(p) => {
                        vios.push(Vio { prop: "C11", key: "C11:restart-panics:node".into(), what: format!("restart panicked: {} at {}", p, last_panic_loc()) });
                        s.dead = true;
                        return;
                    }
                }
            }
            Op::Open(d) => {
                // new + setup + initial commitment + funding signed, through the public API
                match catch(|| fund_channel(s.w(), *d, false, false)) {
                    Ok(f) => {
                        s.f = Some(f);
                        s.ghost.ready.insert(*d, true);
                    }
                    Err(_) => {
                        // refused (e.g. id below the high-water mark): fine, nothing opened
                        tag = "err:open-refused".into();
                        if *d > s.ghost.hwm && !s.ghost.ready.contains_key(d) {
                            // could not open a fresh id: not a C15 matter
                        }
                        s.dead = true; // fund_channel may have stopped half way
                        return;
                    }
                }
            }
            Op::New(d) => {
                let existed = s.w().node.get_channel(&s.w().channel_id(*d)).is_ok();
                let r = s.w().new_channel(*d);
                tag = r.tag();
                if r.is_ok() && *d <= s.ghost.hwm {
                    vios.push(Vio {
                        prop: "C15",
                        key: format!("C15:id-reused-after-forget:{}", if existed { "existing" } else { "created" }),
                        what: format!("NewChannel({}) succeeded although a channel with id {} >= {} was forgotten before", d, s.ghost.hwm, d),
                    });
                }
                if r.is_panic() {
                    s.dead = true;
                    return;
                }
            }
            Op::Forget(d) => {
                let existed = s.w().node.get_channel(&s.w().channel_id(*d)).is_ok();
                let r = s.w().forget_channel(*d);
                tag = r.tag();
                if r.is_ok() && existed {
                    s.ghost.forget_requested.insert(*d, true);
                    if *d > s.ghost.hwm {
                        s.ghost.hwm = *d;
                    }
                }
                if r.is_panic() {
                    s.dead = true;
                    return;
                }
            }
            Op::Heartbeat => {
                let r = s.w().root_msg(Message::GetHeartbeat(msgs::GetHeartbeat {}));
                tag = r.tag();
                if r.is_panic() {
                    vios.push(Vio { prop: "C15", key: "C15:heartbeat-panics".into(), what: format!("GetHeartbeat panicked: {:?}", r.tag()) });
                    s.dead = true;
                    return;
                }
            }
            Op::Connect(names) => {
                let salt = names.iter().fold(17u32, |a, t| a.wrapping_mul(31).wrapping_add(*t as u32 + 1));
                let r = self.connect_block(s, names, salt);
                tag = r.tag();
                if !r.is_ok() {
                    s.dead = true;
                    return;
                }
            }
            Op::Empty(k) => {
                for _ in 0..*k {
                    let r = self.connect_block(s, &[], 0);
                    if !r.is_ok() {
                        s.dead = true;
                        return;
                    }
                }
                if *k >= 50 {
                    s.ghost.big_empties += 1;
                } else {
                    s.ghost.empties += 1;
                }
            }
            Op::Allow(k) => {
                let net = s.w().cfg.network;
                let (a1, a2, a3) = (crate::txbase::foreign_address(1, net), crate::txbase::foreign_address(2, net), crate::txbase::foreign_address(3, net));
                let bad = "not-an-address".to_string();
                let node = s.w().node.clone();
                let k = *k;
                let r = call(move || {
                    match k {
                        0 => node.add_allowlist(&[a1]),
                        1 => node.add_allowlist(&[a2, bad]),
                        2 => node.set_allowlist(&[a3, bad]),
                        3 => node.remove_allowlist(&[a1, bad]),
                        4 => node.remove_allowlist(&[a1]),
                        // several entries in one request, the last one not on the list / repeated
                        5 => node.remove_allowlist(&[a1, a3]),
                        _ => node.remove_allowlist(&[a1.clone(), a1]),
                    }
                    .map_err(|e| status_kind(&e))
                });
                tag = r.tag();
                if r.is_panic() {
                    s.dead = true;
                    return;
                }
            }
            Op::Disconnect(k) => {
                for _ in 0..*k {
                    let w = s.w.as_ref().unwrap();
                    let r = w.disconnect(&mut s.chain, self.delivery());
                    if !r.is_ok() {
                        vios.push(Vio { prop: "C14", key: format!("C14:disconnect-failed:node:{}", r.tag()), what: format!("disconnect failed: {}", r.tag()) });
                        s.dead = true;
                        return;
                    }
                    s.names.pop();
                }
            }
        }
        if !matches!(op, Op::Restart) {
            end_cloud_request(s.w(), &kind, &tag, mon, vios);
        }
        // C15 invariant after every letter
        self.check_presence(s, op, vios);
        if mon {
            if tag.starts_with("err:") {
                let after = s.w().snapshot();
                refusal_monitor(before.as_ref().unwrap(), &after, &kind, &tag[4..], vios);
            }
            if !matches!(op, Op::Restart) {
                durability_monitor(s.w(), &kind, &tag, vios);
            }
        }
        let _ = json!(null);
    }
}

pub fn replay_ops(v: &serde_json::Value) -> Vec<Vio> {
    let cfg: NodeCfg = serde_json::from_value(v["cfg"].clone()).expect("nodemc cfg");
    let ops: Vec<Op> = serde_json::from_value(v["ops"].clone()).expect("nodemc ops");
    crate::vmc::replay(&NodeModel { cfg }, &ops)
}

pub struct NodeRun {
    pub stats: BfsStats,
    pub found: Vec<Found>,
    pub models: Vec<String>,
}

pub fn configs(tier: Tier, monitors: bool) -> Vec<NodeCfg> {
    let mut v = configs_plain(tier, monitors);
    if monitors && tier == Tier::Thorough {
        v.push(NodeCfg { scen: Scen::Lifecycle, max_ops: 5, monitors, cloud: true, perm: false, anchors: false, cp_close: false, streamed: false });
        v.push(NodeCfg { scen: Scen::Mutual, max_ops: 5, monitors, cloud: true, perm: false, anchors: false, cp_close: false, streamed: false });
    }
    v
}

fn configs_plain(tier: Tier, monitors: bool) -> Vec<NodeCfg> {
    match (tier, monitors) {
        (Tier::Quick, false) => vec![
            NodeCfg { scen: Scen::Mutual, max_ops: 5, monitors, cloud: false, perm: false, anchors: false, cp_close: false, streamed: false },
            NodeCfg { scen: Scen::DoubleSpend, max_ops: 5, monitors, cloud: false, perm: false, anchors: false, cp_close: false, streamed: false },
            NodeCfg { scen: Scen::Lifecycle, max_ops: 4, monitors, cloud: false, perm: false, anchors: false, cp_close: false, streamed: false },
            NodeCfg { scen: Scen::Ids, max_ops: 6, monitors, cloud: false, perm: false, anchors: false, cp_close: false, streamed: false },
            NodeCfg { scen: Scen::HtlcsSwept, max_ops: 4, monitors, cloud: false, perm: false, anchors: true, cp_close: true, streamed: false },
            NodeCfg { scen: Scen::TwoParts, max_ops: 4, monitors, cloud: false, perm: false, anchors: false, cp_close: false, streamed: false },
            NodeCfg { scen: Scen::MutualReorged, max_ops: 3, monitors, cloud: false, perm: false, anchors: false, cp_close: false, streamed: true },
            NodeCfg { scen: Scen::Swept, max_ops: 5, monitors, cloud: false, perm: false, anchors: false, cp_close: false, streamed: false },
            NodeCfg { scen: Scen::StubAged, max_ops: 4, monitors, cloud: false, perm: false, anchors: false, cp_close: false, streamed: false },
        ],
        (Tier::Quick, true) => vec![
            NodeCfg { scen: Scen::Lifecycle, max_ops: 4, monitors, cloud: false, perm: false, anchors: false, cp_close: false, streamed: false },
            NodeCfg { scen: Scen::Mutual, max_ops: 3, monitors, cloud: false, perm: false, anchors: false, cp_close: false, streamed: false },
            NodeCfg { scen: Scen::Lifecycle, max_ops: 3, monitors, cloud: true, perm: false, anchors: false, cp_close: false, streamed: false },
            NodeCfg { scen: Scen::Prunable, max_ops: 3, monitors, cloud: false, perm: true, anchors: false, cp_close: false, streamed: false },
            NodeCfg { scen: Scen::StubAged, max_ops: 3, monitors, cloud: false, perm: false, anchors: false, cp_close: false, streamed: false },
            NodeCfg { scen: Scen::StubAged, max_ops: 3, monitors, cloud: true, perm: false, anchors: false, cp_close: false, streamed: false },
        ],
        (Tier::Thorough, _) => vec![
            NodeCfg { scen: Scen::Lifecycle, max_ops: 7, monitors, cloud: false, perm: false, anchors: false, cp_close: false, streamed: false },
            NodeCfg { scen: Scen::Mutual, max_ops: 7, monitors, cloud: false, perm: false, anchors: false, cp_close: false, streamed: false },
            NodeCfg { scen: Scen::DoubleSpend, max_ops: 7, monitors, cloud: false, perm: false, anchors: false, cp_close: false, streamed: false },
            NodeCfg { scen: Scen::Unilateral, max_ops: 7, monitors, cloud: false, perm: false, anchors: false, cp_close: false, streamed: false },
            NodeCfg { scen: Scen::Swept, max_ops: 6, monitors, cloud: false, perm: false, anchors: false, cp_close: false, streamed: false },
            NodeCfg { scen: Scen::Ids, max_ops: 8, monitors, cloud: false, perm: false, anchors: false, cp_close: false, streamed: false },
            NodeCfg { scen: Scen::Unilateral, max_ops: 6, monitors, cloud: false, perm: false, anchors: true, cp_close: true, streamed: false },
            NodeCfg { scen: Scen::HtlcsSwept, max_ops: 6, monitors, cloud: false, perm: false, anchors: true, cp_close: true, streamed: false },
            NodeCfg { scen: Scen::HtlcsSwept, max_ops: 5, monitors, cloud: false, perm: false, anchors: false, cp_close: false, streamed: false },
            NodeCfg { scen: Scen::Swept, max_ops: 5, monitors, cloud: false, perm: false, anchors: true, cp_close: false, streamed: false },
            NodeCfg { scen: Scen::Swept, max_ops: 5, monitors, cloud: false, perm: false, anchors: false, cp_close: true, streamed: false },
            NodeCfg { scen: Scen::TwoParts, max_ops: 5, monitors, cloud: false, perm: false, anchors: false, cp_close: false, streamed: false },
            NodeCfg { scen: Scen::TwoParts, max_ops: 5, monitors, cloud: false, perm: false, anchors: true, cp_close: true, streamed: false },
            NodeCfg { scen: Scen::MutualReorged, max_ops: 5, monitors, cloud: false, perm: false, anchors: false, cp_close: false, streamed: true },
            NodeCfg { scen: Scen::MutualReorged, max_ops: 5, monitors, cloud: false, perm: false, anchors: false, cp_close: false, streamed: false },
            NodeCfg { scen: Scen::Mutual, max_ops: 6, monitors, cloud: false, perm: false, anchors: false, cp_close: false, streamed: true },
            NodeCfg { scen: Scen::StubAged, max_ops: 6, monitors, cloud: false, perm: false, anchors: false, cp_close: false, streamed: false },
            NodeCfg { scen: Scen::StubAged, max_ops: 5, monitors, cloud: true, perm: false, anchors: false, cp_close: false, streamed: false },
        ],
    }
}

pub fn explore(tier: Tier, monitors: bool, wall_s: f64) -> NodeRun {
    let cfgs = configs(tier, monitors);
    let mut stats = BfsStats { closed: true, ..Default::default() };
    let mut found = vec![];
    let mut models = vec![];
    let t0 = std::time::Instant::now();
    let n = cfgs.len();
    for (i, cfg) in cfgs.into_iter().enumerate() {
        // what earlier scenarios did not use is available to the later ones
        let per = (wall_s - t0.elapsed().as_secs_f64()).max(1.0) / (n - i) as f64;
        let m = NodeModel { cfg };
        let lim = Limits { max_depth: m.cfg.max_ops, max_states: 2_000_000, wall_s: per };
        let st = bfs(&m, &lim, &mut found);
        models.push(format!("{}: states={} transitions={} closed={} bounded_complete={} depth={} t={:.1}s", m.name(), st.states, st.transitions, st.closed, st.bounded_complete, st.max_depth, st.wall_s));
        merge_stats(&mut stats, &st);
    }
    NodeRun { stats, found, models }
}
