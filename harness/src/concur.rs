//! C20: concurrent requests neither deadlock nor break atomicity (DESIGN 8).
//!
//! The real Node / Channel / ChainTracker code is built with `--cfg vls_verif`, which routes
//! every lock of the vls-core prelude through shuttle's cooperative runtime.  This module
//! implements shuttle's public `Scheduler` trait with an *iterative preemption-bounded* depth-first
//! enumeration (CHESS): choice 0 at every scheduling point keeps the running task (or, when it is
//! blocked / finished, takes the lowest task id); switching away from a task that could still run
//! costs one preemption.  Every schedule with at most `bound` preemptions is executed exactly
//! once, to completion.
//!
//! Oracle: (1) every schedule completes (shuttle reports "no runnable task but unfinished tasks"
//! as a deadlock; a step cap catches livelock; a panic in any task fails);
//! (2) the tuple (replies, final fingerprint of live state and store) equals that of one of the
//! sequential orders of the same requests, each executed on a fresh world by a single task.

use crate::chain::*;
use crate::ev::*;
use crate::scenario::*;
use crate::world::*;
use lightning_signer::bitcoin::secp256k1::PublicKey;
use lightning_signer::bitcoin::{Amount, OutPoint, TxOut, Txid};
use lightning_signer::bitcoin::hashes::Hash;
use lightning_signer::channel::CommitmentType;
use lightning_signer::node::NodeMonitor;
use lightning_signer::wallet::Wallet;
use serde::{Deserialize, Serialize};
use serde_json::{json, Value};
use shuttle::scheduler::{Schedule, Scheduler, TaskId};
use std::collections::{BTreeMap, BTreeSet};
use std::sync::{Arc as StdArc, Mutex as StdMutex};
use std::time::Instant;

// ------------------------------------------------------------------------------------------
// Requests
// ------------------------------------------------------------------------------------------

#[derive(Clone, Copy, Debug, PartialEq, Eq, Hash, PartialOrd, Ord, Serialize, Deserialize)]
pub enum Req {
    /// sign counterparty commitment 2 of channel 1
    SignCp,
    /// validate holder commitment 2 of channel 1
    Validate,
    /// revoke holder commitment 1 of channel 1 (needs commitment 2 validated)
    Revoke,
    /// validate holder commitment 2 and revoke 1 in one channel call
    ValidateRevoke,
    /// sign the current holder commitment (1) of channel 1 for broadcast
    SignHolder1,
    /// counterparty revokes its commitment 1 (needs counterparty commitment 2 signed)
    CpRevoke,
    Forget1,
    Forget2,
    New3,
    /// NewChannel for the id of the stub that already exists (answered with the existing stub)
    New2,
    Setup2,
    Balance,
    Heartbeat,
    Keysend,
    CheckOnchain,
    SignOnchain,
    /// connect a block that carries holder commitment 1 of channel 1 (unilateral close)
    AddBlockClose,
    /// the same block delivered as a stream of chunks
    AddBlockCloseStreamed,
    /// connect an empty block
    AddBlockEmpty,
    Allowlist,
    /// add another address to the allowlist
    AllowlistB,
    /// remove the address `Allowlist` adds
    AllowlistRemove,
    /// sign counterparty commitment 0 of channel 2 (refused while it is a stub)
    SignCp2,
    /// sign counterparty commitment 1 of channel 4 (no HTLCs)
    Sign4,
    /// force close of channel 5: its holder commitment 0 is signed for broadcast
    Close5,
    /// a second keysend (another hash)
    KeysendB,
    /// approval of an invoice / of a second one
    Invoice,
    InvoiceB,
    /// the wall clock moves on to the next velocity bucket boundary
    Tick,
    /// force close of channel 1 at its initial commitment (three-channel scenarios, in which
    /// channel 1 is not advanced)
    Close1,
    /// counterparty commitment 2 of channel 1 with a new outgoing HTLC for the keysend hash
    PayA,
    /// counterparty commitment 1 of channel 4 with an outgoing HTLC for the same hash
    PayB,
    /// a new channel whose id the signer picks itself (the LDK flow): the id comes from a counter
    /// in the key manager that no lock protects
    NewRandom,
}

impl Req {
    pub fn name(&self) -> String {
        format!("{:?}", self)
    }
}

struct Ctx {
    w: World,
    f: Funded,
    chain: SimChain,
    f4: Option<Funded>,
    f5: Option<Funded>,
}

// shuttle runs every task as a coroutine on one OS thread, one at a time
struct Shared(Ctx);
unsafe impl Send for Shared {}
unsafe impl Sync for Shared {}

fn wcfg() -> WorldCfg {
    let mut c = WorldCfg::default();
    c.oracle_pubkeys = vec![oracle_pub(0)];
    c
}

/// With the wall clock as a concurrent actor the exact timestamps inside the final state depend on
/// where in a request the clock moved (a request reads it more than once); such scenarios are
/// compared on replies and on completing at all, not on the state fingerprint.
fn clock_moves(sc: &Scenario) -> bool {
    sc.reqs.contains(&Req::Tick) || sc.then.iter().flatten().any(|r| *r == Req::Tick)
}

fn needs_two(sc: &Scenario) -> u8 {
    let all: Vec<Req> = sc.reqs.iter().cloned().chain(sc.then.iter().flatten().cloned()).collect();
    if all.contains(&Req::Close1) {
        3
    } else if all.contains(&Req::Close5) {
        2
    } else if all.contains(&Req::PayB) || all.contains(&Req::Sign4) {
        1
    } else {
        0
    }
}

fn build_ctx(prep: &[Req], extra: u8) -> Ctx {
    let two = extra >= 1;
    let w = World::new(wcfg());
    let mut chain = w.new_sim_chain();
    let b = make_block(&chain.tip().0, chain.height() + 1, 0, vec![]);
    assert!(w.connect(&mut chain, b, Delivery::Compact).is_ok());
    // extra == 3: three channels (1, 4, 5) without HTLCs; channel 1 gets a holder commitment 1
    // with another balance, so that "1 closed, 5 open" and "1 open, 5 closed" differ in a summed
    // balance reply
    let f = fund_channel(&w, 1, false, extra != 3);
    if extra == 3 {
        let c = Content { to_holder: CHANNEL_VALUE - 502_000, to_cp: 500_000, feerate: 1000, out: vec![], inc: vec![] };
        let p1 = w.holder_point_raw(1, 1).unwrap();
        let (sig, hs) = f.params.cp_sign_holder_commitment(&f.cp, 1, &p1, &c);
        let r = w.with_chan(1, |ch| {
            ch.validate_holder_commitment_tx_phase2(1, c.feerate, c.to_holder, c.to_cp, c.out_info(), c.inc_info(), &sig, &hs)?;
            ch.revoke_previous_holder_commitment(1)
        });
        assert!(r.is_ok(), "light advance of channel 1: {}", r.tag());
        let c0 = f.c0.clone();
        let p0 = f.cp.point(0);
        assert!(w.with_chan(1, |ch| ch.sign_counterparty_commitment_tx_phase2(&p0, 0, c0.feerate, c0.to_holder, c0.to_cp, c0.inc_info(), c0.out_info())).is_ok());
    }
    let b = make_block(&chain.tip().0, chain.height() + 1, 0, vec![f.funding_tx.clone()]);
    assert!(w.connect(&mut chain, b, Delivery::Compact).is_ok());
    assert!(w.new_channel(2).is_ok());
    let f4 = if two {
        let f4 = fund_channel(&w, 4, false, false);
        let c0 = f4.c0.clone();
        let p0 = f4.cp.point(0);
        assert!(w.with_chan(4, |ch| ch.sign_counterparty_commitment_tx_phase2(&p0, 0, c0.feerate, c0.to_holder, c0.to_cp, c0.inc_info(), c0.out_info())).is_ok());
        Some(f4)
    } else {
        None
    };
    let f5 = if extra >= 2 {
        let f5 = fund_channel(&w, 5, false, false);
        let c0 = f5.c0.clone();
        let p0 = f5.cp.point(0);
        assert!(w.with_chan(5, |ch| ch.sign_counterparty_commitment_tx_phase2(&p0, 0, c0.feerate, c0.to_holder, c0.to_cp, c0.inc_info(), c0.out_info())).is_ok());
        Some(f5)
    } else {
        None
    };
    let ctx = Ctx { w, f, chain, f4, f5 };
    for r in prep {
        let t = exec(&ctx, *r);
        assert!(t.starts_with("ok"), "scenario preparation step {:?} refused: {}", r, t);
    }
    ctx
}

fn short(v: &impl std::fmt::Debug) -> String {
    let s = format!("{:?}", v);
    fp(&json!(s))
}

fn tag<T: std::fmt::Debug>(o: Outcome<T>) -> String {
    match o {
        Outcome::Ok(t) => format!("ok:{}", short(&t)),
        Outcome::Err(e) => format!("err:{}", e),
        Outcome::Panic(p) => format!("panic:{}", p),
    }
}

/// Execute one request against the signer; the reply is reduced to a tag (ok + digest of the
/// reply data, or the error kind).
fn exec(c: &Ctx, r: Req) -> String {
    let w = &c.w;
    let f = &c.f;
    let c1 = f.c1.clone();
    match r {
        Req::SignCp => {
            let p = f.cp.point(2);
            tag(w.with_chan(1, |ch| ch.sign_counterparty_commitment_tx_phase2(&p, 2, c1.feerate, c1.to_holder, c1.to_cp, c1.inc_info(), c1.out_info())))
        }
        Req::Validate | Req::ValidateRevoke => {
            let p2 = w.holder_point_raw(1, 2).unwrap();
            let (sig, hs) = f.params.cp_sign_holder_commitment(&f.cp, 2, &p2, &c1);
            let both = r == Req::ValidateRevoke;
            tag(w.with_chan(1, |ch| {
                let a = ch.validate_holder_commitment_tx_phase2(2, c1.feerate, c1.to_holder, c1.to_cp, c1.out_info(), c1.inc_info(), &sig, &hs)?;
                if both {
                    let b = ch.revoke_previous_holder_commitment(2)?;
                    Ok(format!("{:?}{:?}", a, b))
                } else {
                    Ok(format!("{:?}", a))
                }
            }))
        }
        Req::Revoke => tag(w.with_chan(1, |ch| ch.revoke_previous_holder_commitment(2))),
        Req::SignHolder1 => tag(w.with_chan(1, |ch| ch.sign_holder_commitment_tx_phase2(1))),
        Req::CpRevoke => {
            let s1 = f.cp.secret(1);
            tag(w.with_chan(1, |ch| ch.validate_counterparty_revocation(1, &s1)))
        }
        Req::Forget1 => tag(w.forget_channel(1).map_ok()),
        Req::Forget2 => tag(w.forget_channel(2).map_ok()),
        Req::New3 => tag(w.new_channel(3).map_ok()),
        Req::New2 => tag(w.new_channel(2).map_ok()),
        Req::NewRandom => {
            let node = w.node.clone();
            tag(call(move || node.new_channel_with_random_id(&node).map(|(id, _)| id.to_string()).map_err(|e| status_kind(&e))))
        }
        Req::Setup2 => {
            let cp2 = Cp::new(120);
            let mut setup = w.default_setup(&cp2, 2, true, CommitmentType::StaticRemoteKey);
            setup.funding_outpoint = OutPoint { txid: Txid::from_slice(&[0x33; 32]).unwrap(), vout: 1 };
            tag(w.setup_channel(2, &setup))
        }
        Req::Balance => {
            let node = w.node.clone();
            tag(call(move || Ok(node.channel_balance())))
        }
        Req::Heartbeat => {
            let node = w.node.clone();
            tag(call(move || Ok(format!("{:?}", node.get_heartbeat().heartbeat))))
        }
        Req::Keysend | Req::KeysendB => {
            let node = w.node.clone();
            let payee = PublicKey::from_secret_key(&secp(), &sk(201));
            let h = if r == Req::Keysend { 9 } else { 10 };
            tag(call(move || node.add_keysend(payee, pay_hash(h), 30_000_000).map_err(|e| status_kind(&e))))
        }
        Req::Invoice | Req::InvoiceB => {
            let node = w.node.clone();
            let h = if r == Req::Invoice { 11 } else { 12 };
            // issued at the start time, whatever the clock says when it is presented
            let inv = crate::nodevel::make_invoice(h, 20_000_000, START_TIME);
            tag(call(move || node.add_invoice(inv.clone()).map_err(|e| status_kind(&e))))
        }
        Req::Tick => {
            use lightning_signer::util::clock::Clock;
            let now = w.clock.now().as_secs();
            let next = now - now % 300 + 300;
            w.clock.set(std::time::Duration::from_secs(next));
            "ok:tick".to_string()
        }
        Req::CheckOnchain | Req::SignOnchain => {
            let node = w.node.clone();
            let prev = TxOut { value: Amount::from_sat(200_000), script_pubkey: node.get_native_address(&wallet_path(50)).unwrap().script_pubkey() };
            let dest = node.get_native_address(&wallet_path(51)).unwrap().script_pubkey();
            let tx = simple_tx(vec![OutPoint { txid: Txid::from_slice(&[0x44; 32]).unwrap(), vout: 0 }], vec![(199_000, dest)], 3);
            if r == Req::CheckOnchain {
                tag(call(move || node.check_onchain_tx(&tx, &[true], &[prev.clone()], &[None], &[wallet_path(51)]).map_err(|e| format!("{:?}", e).chars().take(60).collect::<String>())))
            } else {
                tag(call(move || node.unchecked_sign_onchain_tx(&tx, &[wallet_path(50)], &[prev.clone()], vec![None]).map_err(|e| status_kind(&e))))
            }
        }
        Req::AddBlockClose | Req::AddBlockEmpty | Req::AddBlockCloseStreamed => {
            let mut chain = c.chain.clone();
            let txs = if r == Req::AddBlockEmpty { vec![] } else { vec![f.hc1.clone().unwrap()] };
            let b = make_block(&chain.tip().0, chain.height() + 1, 5, txs);
            tag(w.connect(&mut chain, b, if r == Req::AddBlockCloseStreamed { Delivery::Streamed } else { Delivery::Compact }))
        }
        Req::PayA => {
            let p = f.cp.point(2);
            let mut c = c1.clone();
            c.out.push(H { value_sat: 30_000, hash: 9, cltv: 62 });
            c.to_holder -= 30_000;
            tag(w.with_chan(1, |ch| ch.sign_counterparty_commitment_tx_phase2(&p, 2, c.feerate, c.to_holder, c.to_cp, c.inc_info(), c.out_info())))
        }
        Req::PayB => {
            let f4 = c.f4.as_ref().expect("two-channel scenario");
            let p = f4.cp.point(1);
            let mut cc = f4.c0.clone();
            cc.out.push(H { value_sat: 30_000, hash: 9, cltv: 62 });
            cc.to_holder -= 30_000;
            tag(w.with_chan(4, |ch| ch.sign_counterparty_commitment_tx_phase2(&p, 1, cc.feerate, cc.to_holder, cc.to_cp, cc.inc_info(), cc.out_info())))
        }
        Req::Allowlist | Req::AllowlistB => {
            let node = w.node.clone();
            let addr = node.get_native_address(&wallet_path(if r == Req::Allowlist { 77 } else { 78 })).unwrap().to_string();
            tag(call(move || node.add_allowlist(&[addr.clone()]).map_err(|e| status_kind(&e))))
        }
        Req::AllowlistRemove => {
            let node = w.node.clone();
            let addr = node.get_native_address(&wallet_path(77)).unwrap().to_string();
            tag(call(move || node.remove_allowlist(&[addr.clone()]).map_err(|e| status_kind(&e))))
        }
        Req::Sign4 => {
            let f4 = c.f4.as_ref().expect("two-channel scenario");
            let p = f4.cp.point(1);
            let cc = f4.c0.clone();
            tag(w.with_chan(4, |ch| ch.sign_counterparty_commitment_tx_phase2(&p, 1, cc.feerate, cc.to_holder, cc.to_cp, cc.inc_info(), cc.out_info())))
        }
        Req::Close5 => {
            let _ = c.f5.as_ref().expect("three-channel scenario");
            tag(w.with_chan(5, |ch| ch.sign_holder_commitment_tx_phase2(0)))
        }
        Req::Close1 => tag(w.with_chan(1, |ch| ch.sign_holder_commitment_tx_phase2(1))),
        Req::SignCp2 => {
            let p = Cp::new(120).point(0);
            let c0 = f.c0.clone();
            tag(w.with_chan(2, |ch| ch.sign_counterparty_commitment_tx_phase2(&p, 0, c0.feerate, c0.to_holder, c0.to_cp, c0.inc_info(), c0.out_info())))
        }
    }
}

trait MapOk {
    fn map_ok(self) -> Outcome<()>;
}
impl<T> MapOk for Outcome<T> {
    fn map_ok(self) -> Outcome<()> {
        match self {
            Outcome::Ok(_) => Outcome::Ok(()),
            Outcome::Err(e) => Outcome::Err(e),
            Outcome::Panic(p) => Outcome::Panic(p),
        }
    }
}

// ------------------------------------------------------------------------------------------
// Scenarios
// ------------------------------------------------------------------------------------------

#[derive(Clone, Debug, Serialize, Deserialize)]
pub struct Scenario {
    pub prep: Vec<Req>,
    /// one thread per entry
    pub reqs: Vec<Req>,
    /// a second request of the same thread, issued when the first has returned (empty = none)
    #[serde(default)]
    pub then: Vec<Option<Req>>,
}

impl Scenario {
    fn steps(&self, i: usize) -> Vec<Req> {
        let mut v = vec![self.reqs[i]];
        if let Some(Some(r)) = self.then.get(i) {
            v.push(*r);
        }
        v
    }
    /// every sequential order of all requests that keeps each thread's own order: a list of
    /// thread indices, a thread with two requests appearing twice
    fn orders(&self) -> Vec<Vec<usize>> {
        fn rec(left: &mut Vec<usize>, cur: &mut Vec<usize>, out: &mut Vec<Vec<usize>>) {
            if left.iter().all(|x| *x == 0) {
                out.push(cur.clone());
                return;
            }
            for i in 0..left.len() {
                if left[i] > 0 {
                    left[i] -= 1;
                    cur.push(i);
                    rec(left, cur, out);
                    cur.pop();
                    left[i] += 1;
                }
            }
        }
        let mut left: Vec<usize> = (0..self.reqs.len()).map(|i| self.steps(i).len()).collect();
        let mut out = vec![];
        rec(&mut left, &mut vec![], &mut out);
        out
    }
}

impl Scenario {
    pub fn name(&self) -> String {
        let mut n: Vec<String> = (0..self.reqs.len()).map(|i| self.steps(i).iter().map(|r| r.name()).collect::<Vec<_>>().join(">")).collect();
        n.sort();
        let p = if self.prep.is_empty() { String::new() } else { format!("[after {}]", self.prep.iter().map(|r| r.name()).collect::<Vec<_>>().join(","))};
        format!("{}{}", n.join("|"), p)
    }
}

pub fn scenarios(tier: Tier) -> Vec<Scenario> {
    use Req::*;
    let kinds = [SignCp, ValidateRevoke, Forget1, Forget2, New3, Setup2, Balance, Heartbeat, Keysend, CheckOnchain, SignOnchain, AddBlockClose, AddBlockEmpty, Allowlist];
    let mut v = vec![];
    for i in 0..kinds.len() {
        for j in i + 1..kinds.len() {
            v.push(Scenario { prep: vec![], reqs: vec![kinds[i], kinds[j]], then: vec![] });
        }
    }
    // same-kind pairs that touch the same objects
    for k in [Balance, Heartbeat, Forget1, Keysend, SignCp, ValidateRevoke, Setup2, New3, AddBlockEmpty, Allowlist, CheckOnchain, SignOnchain] {
        v.push(Scenario { prep: vec![], reqs: vec![k, k], then: vec![] });
    }
    // the C01 / C02 / C03 races on one channel
    v.push(Scenario { prep: vec![], reqs: vec![Validate, Revoke], then: vec![] });
    v.push(Scenario { prep: vec![Validate], reqs: vec![SignHolder1, Revoke], then: vec![] });
    v.push(Scenario { prep: vec![], reqs: vec![SignHolder1, ValidateRevoke], then: vec![] });
    v.push(Scenario { prep: vec![], reqs: vec![SignCp, CpRevoke], then: vec![] });
    v.push(Scenario { prep: vec![SignCp], reqs: vec![CpRevoke, Forget1], then: vec![] });
    // two updates of the allowlist (memory and store must end up in the same order)
    v.push(Scenario { prep: vec![], reqs: vec![Allowlist, AllowlistB], then: vec![] });
    v.push(Scenario { prep: vec![Allowlist], reqs: vec![AllowlistRemove, AllowlistB], then: vec![] });
    // two channels whose ids the signer picks itself, and one next to an explicit id
    v.push(Scenario { prep: vec![], reqs: vec![NewRandom, NewRandom], then: vec![] });
    v.push(Scenario { prep: vec![NewRandom], reqs: vec![NewRandom, New3], then: vec![] });
    // a stub is asked for again while it is being forgotten (the id must not come back to life)
    v.push(Scenario { prep: vec![], reqs: vec![New2, Forget2], then: vec![] });
    v.push(Scenario { prep: vec![], reqs: vec![New2, Setup2], then: vec![] });
    // a channel is used while it is being set up
    v.push(Scenario { prep: vec![], reqs: vec![Setup2, SignCp2], then: vec![] });
    // two approvals while the wall clock crosses a velocity bucket boundary
    v.push(Scenario { prep: vec![], reqs: vec![Keysend, KeysendB, Tick], then: vec![] });
    v.push(Scenario { prep: vec![], reqs: vec![Invoice, InvoiceB, Tick], then: vec![] });
    // a balance query next to a thread that closes the first and then the last channel of the
    // map, while a request on the middle one is in progress (and the mirror image)
    v.push(Scenario { prep: vec![], reqs: vec![Sign4, Balance, Close1], then: vec![None, None, Some(Close5)] });
    if tier == Tier::Thorough {
        v.push(Scenario { prep: vec![], reqs: vec![Sign4, Balance, Close5], then: vec![None, None, Some(Close1)] });
    }
    // one approved payment, two channels each adding an outgoing HTLC for it
    v.push(Scenario { prep: vec![Keysend], reqs: vec![PayA, PayB], then: vec![] });
    for k in [SignCp, ValidateRevoke, Forget1, Balance, Heartbeat] {
        v.push(Scenario { prep: vec![], reqs: vec![AddBlockCloseStreamed, k], then: vec![] });
    }
    if tier == Tier::Thorough {
        for t in [
            [SignCp, Forget1, Balance],
            [ValidateRevoke, Heartbeat, AddBlockClose],
            [Validate, Revoke, SignHolder1],
            [New3, Setup2, Forget2],
            [Keysend, CheckOnchain, Allowlist],
            [AddBlockClose, Forget1, Heartbeat],
            [SignCp, ValidateRevoke, Keysend],
            [SignOnchain, New3, AddBlockEmpty],
        ] {
            v.push(Scenario { prep: vec![], reqs: t.to_vec(), then: vec![] });
        }
    }
    v
}

// ------------------------------------------------------------------------------------------
// Preemption-bounded DFS scheduler
// ------------------------------------------------------------------------------------------

#[derive(Clone, Debug)]
struct Item {
    /// non-default choices: (scheduling point index, index into the canonical enabled list)
    devs: Vec<(usize, usize)>,
    /// cumulative hash of the enabled sets up to and including the last deviation point
    expect_hash: u64,
    preemptions: usize,
}

#[derive(Default)]
struct Dfs {
    bound: usize,
    /// work lists by preemption count (lowest first: the first counterexample has the fewest)
    buckets: Vec<Vec<Item>>,
    cur: Option<Item>,
    pos: usize,
    hash: u64,
    preempt: usize,
    /// alternatives discovered in the current execution
    discovered: Vec<Item>,
    nondeterminism: Option<String>,
    points_total: u64,
    points_branching: u64,
    started: u64,
}

fn mix(h: u64, ids: &[usize], cur: usize) -> u64 {
    let mut x = h ^ 0x9e3779b97f4a7c15;
    for &i in ids {
        x = (x.rotate_left(7) ^ (i as u64 + 1)).wrapping_mul(0x100000001b3);
    }
    (x.rotate_left(11) ^ (cur as u64 + 77)).wrapping_mul(0x100000001b3)
}

impl Dfs {
    fn new(bound: usize) -> Dfs {
        let mut d = Dfs { bound, ..Default::default() };
        d.buckets = (0..=bound).map(|_| vec![]).collect();
        d.buckets[0].push(Item { devs: vec![], expect_hash: 0, preemptions: 0 });
        d
    }
    fn pop(&mut self) -> Option<Item> {
        for b in self.buckets.iter_mut() {
            if let Some(i) = b.pop() {
                return Some(i);
            }
        }
        None
    }
    fn remaining(&self) -> usize {
        self.buckets.iter().map(|b| b.len()).sum()
    }
    /// merge the alternatives found by the execution that just ended
    fn end_execution(&mut self) {
        let d = std::mem::take(&mut self.discovered);
        for i in d {
            let p = i.preemptions;
            self.buckets[p].push(i);
        }
        self.cur = None;
    }
}

struct Sched(StdArc<StdMutex<Dfs>>);

impl Scheduler for Sched {
    fn new_execution(&mut self) -> Option<Schedule> {
        let mut d = self.0.lock().unwrap();
        if d.cur.is_some() {
            // previous execution ended normally
            d.end_execution();
        }
        if d.nondeterminism.is_some() {
            return None;
        }
        let it = d.pop()?;
        d.cur = Some(it);
        d.pos = 0;
        d.hash = 0;
        d.preempt = 0;
        d.started += 1;
        Some(Schedule::new(0))
    }

    fn next_task(&mut self, runnable: &[TaskId], current: Option<TaskId>, _is_yielding: bool) -> Option<TaskId> {
        let mut d = self.0.lock().unwrap();
        let mut ids: Vec<usize> = runnable.iter().map(|t| usize::from(*t)).collect();
        ids.sort();
        let cur_id = current.map(usize::from);
        let cur_enabled = cur_id.map(|c| ids.contains(&c)).unwrap_or(false);
        // canonical order: the running task first if still enabled, then ascending ids
        let mut order: Vec<usize> = vec![];
        if cur_enabled {
            order.push(cur_id.unwrap());
        }
        for i in &ids {
            if Some(*i) != cur_id || !cur_enabled {
                order.push(*i);
            }
        }
        d.hash = mix(d.hash, &ids, cur_id.map(|c| c + 1).unwrap_or(0));
        let pos = d.pos;
        d.pos += 1;
        d.points_total += 1;
        let item = d.cur.clone().expect("execution in progress");
        let last_dev = item.devs.last().map(|x| x.0);
        let choice = match item.devs.iter().find(|x| x.0 == pos) {
            Some((_, c)) => *c,
            None => 0,
        };
        if Some(pos) == last_dev && d.hash != item.expect_hash {
            d.nondeterminism = Some(format!("enabled sets differ while replaying a prefix at scheduling point {}", pos));
            return None;
        }
        if choice >= order.len() {
            d.nondeterminism = Some(format!("recorded choice {} out of range ({} enabled) at scheduling point {}", choice, order.len(), pos));
            return None;
        }
        let in_new_territory = last_dev.map(|l| pos > l).unwrap_or(true);
        if in_new_territory && order.len() > 1 {
            d.points_branching += 1;
            let cost = d.preempt + if cur_enabled { 1 } else { 0 };
            if cost <= d.bound {
                for alt in 1..order.len() {
                    let mut devs = item.devs.clone();
                    devs.push((pos, alt));
                    let h = d.hash;
                    d.discovered.push(Item { devs, expect_hash: h, preemptions: cost });
                }
            }
        }
        if cur_enabled && choice != 0 {
            d.preempt += 1;
        }
        Some(TaskId::from(order[choice]))
    }

    fn next_u64(&mut self) -> u64 {
        0
    }
}

// ------------------------------------------------------------------------------------------
// Running one scenario
// ------------------------------------------------------------------------------------------

#[derive(Clone, Debug, PartialEq, Eq, PartialOrd, Ord, Serialize, Deserialize)]
pub struct Obs {
    pub replies: Vec<String>,
    pub state: String,
}

#[derive(Default, Serialize, Deserialize, Debug)]
pub struct ScenResult {
    pub name: String,
    pub schedules: u64,
    pub by_preemptions: Vec<u64>,
    pub sched_points: u64,
    pub branching_points: u64,
    pub max_points_per_execution: u64,
    pub distinct_outcomes: usize,
    pub sequential_outcomes: usize,
    pub deadlocks: u64,
    pub panics: u64,
    pub nonlinearizable: u64,
    pub complete: bool,
    pub bound: usize,
    pub wall_s: f64,
    pub violations: Vec<(String, String, Value)>,
    pub machinery_error: Option<String>,
}

fn permutations(n: usize) -> Vec<Vec<usize>> {
    fn rec(cur: &mut Vec<usize>, used: &mut Vec<bool>, n: usize, out: &mut Vec<Vec<usize>>) {
        if cur.len() == n {
            out.push(cur.clone());
            return;
        }
        for i in 0..n {
            if !used[i] {
                used[i] = true;
                cur.push(i);
                rec(cur, used, n, out);
                cur.pop();
                used[i] = false;
            }
        }
    }
    let mut out = vec![];
    rec(&mut vec![], &mut vec![false; n], n, &mut out);
    out
}

fn shuttle_config() -> shuttle::Config {
    let mut c = shuttle::Config::new();
    c.stack_size = 4 << 20;
    c.failure_persistence = shuttle::FailurePersistence::None;
    c.max_steps = shuttle::MaxSteps::FailAfter(400_000);
    c.silence_warnings = true;
    c
}

/// one sequential order, executed by a single task under the shuttle runtime
fn run_sequential(sc: &Scenario, order: &[usize]) -> Result<Obs, String> {
    run_sequential_full(sc, order).map(|x| x.0)
}

fn run_sequential_full(sc: &Scenario, order: &[usize]) -> Result<(Obs, Value), String> {
    let out: StdArc<StdMutex<Option<(Obs, Value)>>> = StdArc::new(StdMutex::new(None));
    let out2 = out.clone();
    let sc2 = sc.clone();
    let order2 = order.to_vec();
    let dfs = StdArc::new(StdMutex::new(Dfs::new(0)));
    let runner = shuttle::Runner::new(Sched(dfs.clone()), shuttle_config());
    let r = catch(move || {
        runner.run(move || {
            let ctx = build_ctx(&sc2.prep, needs_two(&sc2));
            let mut replies = vec![String::new(); sc2.reqs.len()];
            let mut done = vec![0usize; sc2.reqs.len()];
            for &i in &order2 {
                let r = sc2.steps(i)[done[i]];
                done[i] += 1;
                let t = exec(&ctx, r);
                if replies[i].is_empty() {
                    replies[i] = t;
                } else {
                    replies[i] = format!("{};{}", replies[i], t);
                }
            }
            let snap = ctx.w.snapshot();
            let state = if clock_moves(&sc2) { String::new() } else { fp(&snap) };
            *out2.lock().unwrap() = Some((Obs { replies, state }, snap));
        })
    });
    match r {
        Ok(_) => out.lock().unwrap().clone().ok_or_else(|| "no observation".to_string()),
        Err(p) => Err(format!("sequential reference run failed: {}", p)),
    }
}

pub fn run_scenario(sc: &Scenario, bound: usize, wall_s: f64) -> ScenResult {
    let t0 = Instant::now();
    let mut res = ScenResult { name: sc.name(), bound, by_preemptions: vec![0; bound + 1], ..Default::default() };
    // sequential reference outcomes
    let mut seq: BTreeSet<Obs> = BTreeSet::new();
    for p in sc.orders() {
        match run_sequential(sc, &p) {
            Ok(o) => {
                // determinism self-test: the same order twice gives the same observation
                match run_sequential(sc, &p) {
                    Ok(o2) if o2 == o => {}
                    other => {
                        res.machinery_error = Some(format!("sequential order {:?} is not reproducible: {:?} vs {:?}", p, o, other));
                        return res;
                    }
                }
                seq.insert(o);
            }
            Err(e) => {
                res.machinery_error = Some(e);
                return res;
            }
        }
    }
    res.sequential_outcomes = seq.len();

    let dfs = StdArc::new(StdMutex::new(Dfs::new(bound)));
    let observed: StdArc<StdMutex<Option<Obs>>> = StdArc::new(StdMutex::new(None));
    let mut outcomes: BTreeMap<String, u64> = BTreeMap::new();
    let mut vio_keys: BTreeSet<String> = BTreeSet::new();
    res.complete = true;
    loop {
        if dfs.lock().unwrap().remaining() == 0 && dfs.lock().unwrap().cur.is_none() {
            break;
        }
        if t0.elapsed().as_secs_f64() > wall_s {
            res.complete = false;
            break;
        }
        // a Runner executes schedules until the work list is empty, the budget is used, or a
        // schedule fails (deadlock / panic), in which case the panic carries us out here
        let sc2 = sc.clone();
        let obs2 = observed.clone();
        let dfs2 = dfs.clone();
        let dfs3 = dfs.clone();
        let deadline = wall_s - t0.elapsed().as_secs_f64();
        let tstart = Instant::now();
        let seq2 = seq.clone();
        let stats: StdArc<StdMutex<(BTreeMap<String, u64>, Vec<(Obs, Item)>, Vec<u64>, u64)>> = StdArc::new(StdMutex::new((BTreeMap::new(), vec![], vec![0; bound + 1], 0)));
        let stats2 = stats.clone();
        struct Budget(StdArc<StdMutex<Dfs>>, Instant, f64);
        impl Scheduler for Budget {
            fn new_execution(&mut self) -> Option<Schedule> {
                if self.1.elapsed().as_secs_f64() > self.2 {
                    // finish bookkeeping of the previous execution, then stop
                    let mut d = self.0.lock().unwrap();
                    if d.cur.is_some() {
                        d.end_execution();
                    }
                    return None;
                }
                Sched(self.0.clone()).new_execution()
            }
            fn next_task(&mut self, r: &[TaskId], c: Option<TaskId>, y: bool) -> Option<TaskId> {
                Sched(self.0.clone()).next_task(r, c, y)
            }
            fn next_u64(&mut self) -> u64 {
                0
            }
        }
        let runner = shuttle::Runner::new(Budget(dfs2, tstart, deadline), shuttle_config());
        let r = catch(move || {
            runner.run(move || {
                let ctx = StdArc::new(Shared(build_ctx(&sc2.prep, needs_two(&sc2))));
                let replies: StdArc<StdMutex<Vec<String>>> = StdArc::new(StdMutex::new(vec![String::new(); sc2.reqs.len()]));
                let mut hs = vec![];
                for (i, r) in sc2.reqs.iter().enumerate() {
                    let ctx = ctx.clone();
                    let replies = replies.clone();
                    let r = *r;
                    let steps = sc2.steps(i);
                    hs.push(
                        shuttle::thread::Builder::new()
                            .name(format!("{}#{}", r.name(), i))
                            .stack_size(4 << 20)
                            .spawn(move || {
                                let t = steps.iter().map(|r| exec(&ctx.0, *r)).collect::<Vec<_>>().join(";");
                                replies.lock().unwrap()[i] = t;
                            })
                            .unwrap(),
                    );
                }
                for h in hs {
                    h.join().unwrap();
                }
                let state = if clock_moves(&sc2) { String::new() } else { fp(&ctx.0.w.snapshot()) };
                let o = Obs { replies: replies.lock().unwrap().clone(), state };
                // per-execution bookkeeping
                let (item, pre, pts) = {
                    let d = dfs3.lock().unwrap();
                    (d.cur.clone().unwrap(), d.preempt, d.pos as u64)
                };
                let mut st = stats2.lock().unwrap();
                *st.0.entry(format!("{:?}", o)).or_insert(0) += 1;
                let ix = pre.min(st.2.len() - 1);
                st.2[ix] += 1;
                st.3 = st.3.max(pts);
                if !seq2.contains(&o) {
                    st.1.push((o.clone(), item));
                }
                *obs2.lock().unwrap() = Some(o);
            })
        });
        // collect statistics of the executions that completed in this runner
        {
            let st = stats.lock().unwrap();
            for (k, n) in st.0.iter() {
                *outcomes.entry(k.clone()).or_insert(0) += n;
                res.schedules += n;
            }
            for (i, n) in st.2.iter().enumerate() {
                res.by_preemptions[i] += n;
            }
            res.max_points_per_execution = res.max_points_per_execution.max(st.3);
            for (o, item) in st.1.iter() {
                res.nonlinearizable += 1;
                let key = format!("C20:nonlinearizable:{}", sc.name());
                if vio_keys.insert(key.clone()) {
                    res.violations.push((
                        key,
                        format!("schedule with {} preemption(s) produced replies {:?} / state {} which no sequential order of the requests produces ({} sequential outcome(s))", item.preemptions, o.replies, o.state, seq.len()),
                        json!({"scenario": sc, "deviations": item.devs, "bound": bound}),
                    ));
                }
            }
        }
        if let Err(msg) = r {
            // the schedule that was running failed
            let mut d = dfs.lock().unwrap();
            let item = d.cur.clone();
            let pre = d.preempt;
            d.end_execution();
            drop(d);
            if let Some(item) = item {
                res.schedules += 1;
                res.by_preemptions[pre.min(bound)] += 1;
                let (kind, who) = if msg.starts_with("deadlock!") {
                    res.deadlocks += 1;
                    // names of the blocked request threads
                    let mut names: Vec<String> = vec![];
                    for part in msg.split(|c| c == '[' || c == ',' || c == ']') {
                        let p = part.trim();
                        if let Some(ix) = p.find('#') {
                            names.push(p[..ix].to_string());
                        }
                    }
                    names.sort();
                    names.dedup();
                    ("deadlock", names.join("|"))
                } else if msg.contains("exceeded max_steps") {
                    res.deadlocks += 1;
                    ("livelock", sc.name())
                } else {
                    res.panics += 1;
                    ("panic", sc.name())
                };
                *outcomes.entry(format!("{}:{}", kind, who)).or_insert(0) += 1;
                let key = format!("C20:{}:{}", kind, who);
                if vio_keys.insert(key.clone()) {
                    let m: String = msg.chars().take(300).collect();
                    res.violations.push((
                        key,
                        format!("scenario {}: schedule with {} preemption(s): {}", sc.name(), pre, m),
                        json!({"scenario": sc, "deviations": item.devs, "bound": bound}),
                    ));
                }
            } else {
                res.machinery_error = Some(format!("runner failed outside an execution: {}", msg));
                break;
            }
        }
        if let Some(n) = dfs.lock().unwrap().nondeterminism.clone() {
            res.machinery_error = Some(format!("nondeterminism: {}", n));
            break;
        }
    }
    {
        let d = dfs.lock().unwrap();
        res.sched_points = d.points_total;
        res.branching_points = d.points_branching;
        if d.remaining() > 0 {
            res.complete = false;
        }
    }
    res.distinct_outcomes = outcomes.len();
    res.wall_s = t0.elapsed().as_secs_f64();
    res
}

/// replay one recorded schedule (list of deviations) twice; prints what happened
pub fn replay(v: &Value) {
    let sc: Scenario = serde_json::from_value(v["replay"]["scenario"].clone()).unwrap_or_else(|e| machinery_failure(&format!("bad scenario: {}", e)));
    let devs: Vec<(usize, usize)> = serde_json::from_value(v["replay"]["deviations"].clone()).unwrap_or_default();
    for round in 0..2 {
        let dfs = StdArc::new(StdMutex::new(Dfs::new(0)));
        {
            let mut d = dfs.lock().unwrap();
            d.buckets[0].clear();
            d.buckets[0].push(Item { devs: devs.clone(), expect_hash: 0, preemptions: 0 });
        }
        // expect_hash is unknown in a stand-alone replay: disable the comparison by replaying
        // through a scheduler that only applies the deviations
        struct Replay(Vec<(usize, usize)>, usize, bool);
        impl Scheduler for Replay {
            fn new_execution(&mut self) -> Option<Schedule> {
                if self.2 {
                    return None;
                }
                self.2 = true;
                self.1 = 0;
                Some(Schedule::new(0))
            }
            fn next_task(&mut self, runnable: &[TaskId], current: Option<TaskId>, _y: bool) -> Option<TaskId> {
                let mut ids: Vec<usize> = runnable.iter().map(|t| usize::from(*t)).collect();
                ids.sort();
                let cur = current.map(usize::from);
                let en = cur.map(|c| ids.contains(&c)).unwrap_or(false);
                let mut order = vec![];
                if en {
                    order.push(cur.unwrap());
                }
                for i in &ids {
                    if Some(*i) != cur || !en {
                        order.push(*i);
                    }
                }
                let pos = self.1;
                self.1 += 1;
                let c = self.0.iter().find(|x| x.0 == pos).map(|x| x.1).unwrap_or(0);
                if c >= order.len() {
                    machinery_failure("replay diverged: recorded choice out of range");
                }
                Some(TaskId::from(order[c]))
            }
            fn next_u64(&mut self) -> u64 {
                0
            }
        }
        let sc2 = sc.clone();
        let runner = shuttle::Runner::new(Replay(devs.clone(), 0, false), shuttle_config());
        let out: StdArc<StdMutex<Option<(Obs, Value)>>> = StdArc::new(StdMutex::new(None));
        let out2 = out.clone();
        let r = catch(move || {
            runner.run(move || {
                let ctx = StdArc::new(Shared(build_ctx(&sc2.prep, needs_two(&sc2))));
                let replies: StdArc<StdMutex<Vec<String>>> = StdArc::new(StdMutex::new(vec![String::new(); sc2.reqs.len()]));
                let mut hs = vec![];
                for (i, r) in sc2.reqs.iter().enumerate() {
                    let ctx = ctx.clone();
                    let replies = replies.clone();
                    let r = *r;
                    let steps = sc2.steps(i);
                    hs.push(shuttle::thread::Builder::new().name(format!("{}#{}", r.name(), i)).stack_size(4 << 20).spawn(move || {
                        let t = steps.iter().map(|r| exec(&ctx.0, *r)).collect::<Vec<_>>().join(";");
                        replies.lock().unwrap()[i] = t;
                    }).unwrap());
                }
                for h in hs {
                    h.join().unwrap();
                }
                let snap = ctx.0.w.snapshot();
                let state = if clock_moves(&sc2) { String::new() } else { fp(&snap) };
                *out2.lock().unwrap() = Some((Obs { replies: replies.lock().unwrap().clone(), state }, snap));
            })
        });
        match r {
            Ok(_) => {
                let g = out.lock().unwrap();
                println!("round {}: completed: {:?}", round, g.as_ref().map(|x| &x.0));
                if round == 1 {
                    if let Some((_, snap)) = g.as_ref() {
                        for p in sc.orders() {
                            if let Ok((o, ssnap)) = run_sequential_full(&sc, &p) {
                                println!("sequential order {:?}: {:?}", p, o);
                                println!("   first difference (sequential -> concurrent): {:?}", json_diff(&ssnap, snap));
                            }
                        }
                    }
                }
            }
            Err(m) => println!("round {}: FAILED: {}", round, m.chars().take(400).collect::<String>()),
        }
    }
}

// ------------------------------------------------------------------------------------------
// Driver: one child process per scenario
// ------------------------------------------------------------------------------------------

pub fn child(idx: usize, tier: Tier, bound: usize, wall_s: f64) -> i32 {
    let scs = scenarios(tier);
    let sc = &scs[idx];
    let r = run_scenario(sc, bound, wall_s);
    println!("RESULT {}", serde_json::to_string(&r).unwrap());
    0
}

fn run_phase(tier: Tier, scs: &[Scenario], idxs: &[usize], bound: usize, per_scen_wall: f64, deadline: Instant) -> Vec<(usize, Result<ScenResult, String>)> {
    let exe = std::env::current_exe().unwrap();
    let out = par_map(idxs, nthreads(), |&i| {
        let now = Instant::now();
        let left = if deadline > now { (deadline - now).as_secs_f64() } else { 0.0 };
        if left < 2.0 {
            return Err("not-started".to_string());
        }
        let wall = per_scen_wall.min(left);
        let out = std::process::Command::new(&exe)
            .args(["c20-child", tier.name(), &i.to_string(), &bound.to_string(), &format!("{}", wall)])
            .output();
        match out {
            Ok(o) => {
                let s = String::from_utf8_lossy(&o.stdout);
                for l in s.lines() {
                    if let Some(j) = l.strip_prefix("RESULT ") {
                        return serde_json::from_str::<ScenResult>(j).map_err(|e| format!("bad child output: {}", e));
                    }
                }
                Err(format!("child for scenario {} ({}) ended without a result (status {:?}): {}", i, scs[i].name(), o.status.code(), String::from_utf8_lossy(&o.stderr).chars().take(300).collect::<String>()))
            }
            Err(e) => Err(format!("cannot start child: {}", e)),
        }
    });
    idxs.iter().cloned().zip(out.into_iter()).collect()
}

pub fn main(tier: Tier) -> i32 {
    let mut run = Run::new("C20", tier, "model_checking", "concur");
    let scs = scenarios(tier);
    let only = std::env::var("VERIF_C20_ONLY").ok();
    let mut idxs: Vec<usize> = (0..scs.len()).filter(|i| only.as_ref().map(|o| scs[*i].name().contains(o.as_str())).unwrap_or(true)).collect();
    // the single-channel races and the scenarios with preparation first
    idxs.sort_by_key(|i| (scs[*i].prep.is_empty() && !scs[*i].reqs.iter().any(|r| matches!(r, Req::Validate | Req::Revoke | Req::SignHolder1 | Req::CpRevoke)), *i));
    // bound 1 on every scenario is required; every further bound goes as far as the budget does
    // (each exploration with bound b covers every schedule with <= b preemptions)
    let base = 1usize;
    let t0 = Instant::now();
    let plan: Vec<(usize, f64, f64)> = match tier {
        // (bound, per-scenario wall, deadline from the start)
        Tier::Quick => vec![(1, 60.0, 110.0), (2, 30.0, 56.0)],
        Tier::Thorough => vec![(1, 300.0, 600.0), (2, 1500.0, 2400.0), (3, 900.0, 3300.0)],
    };
    let maxb0 = plan.iter().map(|p| p.0).max().unwrap();
    let mut all: Vec<(usize, usize, Result<ScenResult, String>)> = vec![];
    for (b, per, dl) in plan {
        let deadline = t0 + std::time::Duration::from_secs_f64(dl);
        for (i, r) in run_phase(tier, &scs, &idxs, b, per, deadline) {
            all.push((b, i, r));
        }
    }
    let maxb = maxb0;
    let mut schedules = 0u64;
    let mut points = 0u64;
    let mut by_pre = vec![0u64; maxb + 1];
    let mut complete = vec![0usize; maxb + 1];
    let mut not_started = vec![0usize; maxb + 1];
    let mut per = vec![];
    let mut multi_outcome = 0usize;
    let mut aborted = 0usize;
    for (b, i, r) in all.into_iter() {
        let sc = &scs[i];
        match r {
            Ok(r) => {
                if let Some(e) = &r.machinery_error {
                    machinery_failure(&format!("scenario {}: {}", sc.name(), e));
                }
                schedules += r.schedules;
                points += r.sched_points;
                for (k, n) in r.by_preemptions.iter().enumerate() {
                    by_pre[k] += n;
                }
                if r.complete {
                    complete[b] += 1;
                }
                if r.distinct_outcomes > 1 && b == base {
                    multi_outcome += 1;
                }
                for (k, what, replay) in &r.violations {
                    run.violation(k, what, replay.clone());
                }
                per.push(json!({"scenario": r.name, "bound": b, "schedules": r.schedules, "by_preemptions": r.by_preemptions, "complete_within_bound": r.complete, "distinct_outcomes": r.distinct_outcomes, "sequential_outcomes": r.sequential_outcomes, "deadlocks": r.deadlocks, "panics": r.panics, "nonlinearizable": r.nonlinearizable, "max_sched_points_per_execution": r.max_points_per_execution, "wall_s": r.wall_s}));
            }
            Err(e) if e == "not-started" => {
                not_started[b] += 1;
            }
            Err(e) if e.contains("panicked in task") || e.contains("non-unwinding panic") => {
                // a request thread panicked in a way that took the whole process down (typically a
                // panic while a poisoned lock is touched during unwinding): requests do not
                // complete -- a violation, not a fault of the explorer
                if b == base {
                    aborted += 1;
                }
                run.violation(
                    &format!("C20:process-abort:{}", sc.name()),
                    &format!("scenario {} at preemption bound {}: a schedule aborted the signer process: {}", sc.name(), b, e.chars().take(300).collect::<String>()),
                    json!({"engine": "concur", "scenario": sc, "note": "the child process aborted; rerun the scenario with VERIF_C20_ONLY to reproduce"}),
                );
            }
            Err(e) => machinery_failure(&e),
        }
    }
    run.assume("scheduling points are the mutex operations of the vls-core prelude and the atomic counters of the key manager (both routed through the shuttle runtime by --cfg vls_verif); vls-core forbids unsafe code and has no other lock-free shared state");
    run.assume(&format!("every schedule with <= {} preemptions of each scenario (2 concurrent requests; thorough adds triples) on a node with one advanced channel, one stub and a confirmed funding; <= {} preemptions for the scenarios listed with bound {}", base, maxb, maxb));
    if complete[base] + aborted != idxs.len() && complete[base] != idxs.len() {
        machinery_failure(&format!("only {} of {} scenarios were explored completely at preemption bound {} within the budget", complete[base], idxs.len(), base));
    }
    let cov = json!({
        "schedules": schedules,
        "states": schedules,
        "transitions": points,
        "traces_validated_against_impl": schedules,
        "exhaustive": true,
        "preemption_bound_completed_for_every_scenario": (1..=maxb).take_while(|b| complete[*b] == idxs.len()).last().unwrap_or(0),
        "scenarios": idxs.len(),
        "scenarios_complete_by_bound": complete,
        "scenarios_not_started_by_bound": not_started,
        "schedules_by_preemptions": by_pre,
        "scenarios_with_more_than_one_outcome": multi_outcome,
        "per_scenario": per,
        "samples": scs.iter().take(3).map(|s| json!({"scenario": s})).collect::<Vec<_>>(),
        "rule": "iterative preemption bounding over shuttle's runtime: every schedule of the request threads with at most `bound` preemptions is executed once on the real Node; outcome compared with all sequential orders. `exhaustive` refers to the bound completed for every scenario",
    });
    run.finish(cov)
}
