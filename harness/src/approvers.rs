//! The approval layer in front of the node (`vls-protocol-signer/src/approver.rs`): what the
//! operator approved is what gets registered, and nothing else.
//!
//! A `MemoApprover<NegativeApprover>` (the UI pattern: the operator's decision is memorised, the
//! node's next pre-approval request consumes it; everything the memo does not cover is declined)
//! sits in front of a real node.  Histories of `Memo(approvals)` and request letters are explored
//! exhaustively to a depth; a boring reference (a list that is drained by every consultation, and
//! the set of payments the node already registered) says which requests may be answered "approved".
//!
//! C06: a keysend / invoice is registered only for the hash **and amount** the operator approved.
//! C08: a transaction with unknown destinations passes only if exactly that transaction was approved.

use crate::ev::*;
use crate::scenario::wallet_path;
use crate::vmc::*;
use crate::world::*;
use lightning_signer::bitcoin::secp256k1::PublicKey;
use lightning_signer::bitcoin::{Amount, OutPoint, Transaction, TxOut, Txid};
use lightning_signer::invoice::Invoice;
use lightning_signer::wallet::Wallet;
use serde::{Deserialize, Serialize};
use vls_protocol_signer::approver::{Approval, Approve, MemoApprover, NegativeApprover};

pub const X: u64 = 1_000_000; // msat

/// things the operator can approve / the node can ask for
#[derive(Clone, Copy, Debug, PartialEq, Eq, Hash, PartialOrd, Ord, Serialize, Deserialize)]
pub enum Item {
    /// keysend (hash index, amount)
    Ks(u8, u64),
    /// invoice variant: 0 = hash 1 for X, 1 = hash 1 for 2X (another invoice), 2 = hash 3 for X
    Inv(u8),
    /// transaction paying v sat to a foreign address (besides wallet change)
    Tx(u64),
}

#[derive(Clone, Debug, PartialEq, Eq, Hash, Serialize, Deserialize)]
pub enum Op {
    Memo(Vec<Item>),
    Req(Item),
}

#[derive(Clone, Default, Debug, Serialize)]
pub struct Ghost {
    /// the memorised approvals (drained by every consultation of the approver)
    pub memo: Vec<Item>,
    /// payments the node registered: hash index -> item
    pub registered: Vec<(u8, Item)>,
}

pub struct AState {
    pub w: World,
    pub appr: MemoApprover<NegativeApprover>,
    pub ghost: Ghost,
    pub dead: bool,
}

#[derive(Clone, Debug, Serialize, Deserialize)]
pub struct ApprModel {
    pub max_ops: usize,
}

fn invoice(k: u8) -> Invoice {
    let (h, amt) = match k {
        0 => (1u8, X),
        1 => (1, 2 * X),
        _ => (3, X),
    };
    crate::nodevel::make_invoice(h, amt, START_TIME)
}

fn hash_of(i: &Item) -> Option<u8> {
    match i {
        Item::Ks(h, _) => Some(*h),
        Item::Inv(0) | Item::Inv(1) => Some(1),
        Item::Inv(_) => Some(3),
        Item::Tx(_) => None,
    }
}

fn tx_for(w: &World, v: u64) -> (Transaction, TxOut) {
    let inval = 1_000_000u64;
    let tx = crate::chain::simple_tx(
        vec![OutPoint { txid: Txid::from_raw_hash(lightning_signer::bitcoin::hashes::Hash::from_byte_array([0x66; 32])), vout: 0 }],
        vec![(inval - v - 500, w.node.get_native_address(&wallet_path(1)).unwrap().script_pubkey()), (v, crate::txbase::foreign_script(9))],
        0,
    );
    let prev = TxOut { value: Amount::from_sat(inval), script_pubkey: w.node.get_native_address(&wallet_path(2)).unwrap().script_pubkey() };
    (tx, prev)
}

fn approval_of(w: &World, i: &Item) -> Approval {
    match i {
        Item::Ks(h, a) => Approval::KeySend(pay_hash_inv(*h), *a),
        Item::Inv(k) => Approval::Invoice(invoice(*k)),
        Item::Tx(v) => Approval::Onchain(tx_for(w, *v).0),
    }
}

/// payment hash used by keysends: the same hashes the invoices carry, so that the two kinds collide
fn pay_hash_inv(h: u8) -> lightning_signer::lightning::types::payment::PaymentHash {
    use lightning_signer::bitcoin::hashes::sha256::Hash as Sha256Hash;
    use lightning_signer::bitcoin::hashes::Hash;
    lightning_signer::lightning::types::payment::PaymentHash(Sha256Hash::hash(&[h; 32]).to_byte_array())
}

impl Model for ApprModel {
    type Op = Op;
    type State = AState;

    fn cfg_json(&self) -> serde_json::Value {
        serde_json::to_value(self).unwrap()
    }

    fn name(&self) -> String {
        format!("approvers(memo approver over a declining delegate, ops<={})", self.max_ops)
    }

    fn init(&self) -> AState {
        let w = World::new(WorldCfg::default());
        AState { w, appr: MemoApprover::new(NegativeApprover()), ghost: Ghost::default(), dead: false }
    }

    fn alive(&self, s: &AState) -> bool {
        !s.dead
    }

    fn prune_after(&self, v: &Vio) -> bool {
        v.prop == "C06" || v.prop == "C08"
    }

    fn ops(&self, _s: &AState) -> Vec<Op> {
        let items = [Item::Ks(1, X), Item::Ks(1, 2 * X), Item::Ks(2, X), Item::Inv(0), Item::Inv(1), Item::Tx(10_000)];
        let mut v: Vec<Op> = items.iter().map(|i| Op::Memo(vec![*i])).collect();
        v.push(Op::Memo(vec![Item::Ks(1, X), Item::Inv(2)]));
        v.push(Op::Memo(vec![Item::Tx(10_000), Item::Ks(2, X)]));
        for i in [Item::Ks(1, X), Item::Ks(1, X + 1), Item::Ks(1, X - 1), Item::Ks(1, 2 * X), Item::Ks(2, X), Item::Ks(2, 3 * X), Item::Inv(0), Item::Inv(1), Item::Inv(2), Item::Tx(10_000), Item::Tx(20_000)] {
            v.push(Op::Req(i));
        }
        v
    }

    fn key(&self, s: &AState) -> String {
        format!("{}|{}", fp(&s.w.snapshot()), serde_json::to_string(&s.ghost).unwrap())
    }

    fn apply(&self, s: &mut AState, op: &Op, _check: bool, vios: &mut Vec<Vio>) {
        if s.dead {
            return;
        }
        match op {
            Op::Memo(items) => {
                s.appr.approve(items.iter().map(|i| approval_of(&s.w, i)).collect());
                s.ghost.memo = items.clone();
            }
            Op::Req(item) => {
                let node = s.w.node.clone();
                let appr = &s.appr;
                let w = &s.w;
                let r: Outcome<bool> = match item {
                    Item::Ks(h, a) => {
                        let payee = PublicKey::from_secret_key(&secp(), &sk(201));
                        call(|| appr.handle_proposed_keysend(&node, payee, pay_hash_inv(*h), *a).map_err(|e| status_kind(&e)))
                    }
                    Item::Inv(k) => call(|| appr.handle_proposed_invoice(&node, invoice(*k)).map_err(|e| status_kind(&e))),
                    Item::Tx(v) => {
                        let (tx, prev) = tx_for(w, *v);
                        call(|| appr.handle_proposed_onchain(&node, &tx, &[true], &[prev.clone()], &[None], &[wallet_path(1), lightning_signer::bitcoin::bip32::DerivationPath::master()]).map_err(|e| status_kind(&e)))
                    }
                };
                if r.is_panic() {
                    s.dead = true;
                    return;
                }
                // reference: the approver is consulted only for a hash the node has no payment for
                // (a repetition is answered from the node's table, another payment for a registered
                // hash is refused or answered without registering anything new); a consultation
                // uses the memo up, whatever it held
                let already = hash_of(item).and_then(|h| s.ghost.registered.iter().find(|(rh, _)| *rh == h).map(|(_, it)| *it));
                let consulted = already.is_none();
                let covered = if consulted { std::mem::take(&mut s.ghost.memo).contains(item) } else { false };
                let approved = matches!(r, Outcome::Ok(true));
                match item {
                    Item::Tx(_) => {
                        if approved && !covered {
                            vios.push(Vio {
                                prop: "C08",
                                key: "C08:approver:approved-without-matching-approval:Tx".into(),
                                what: format!("a transaction with an unknown destination passed for {:?} although the operator's memorised approvals did not cover it (declining delegate)", item),
                            });
                        }
                    }
                    _ => {
                        // what the node holds as approved payments now (hash index -> msat)
                        let table: Vec<(u8, u64)> = {
                            let st = s.w.node.get_state();
                            let mut t: Vec<(u8, u64)> = vec![];
                            for h in [1u8, 2, 3] {
                                if let Some(ps) = st.invoices.get(&pay_hash_inv(h)) {
                                    t.push((h, ps.amount_msat));
                                }
                            }
                            t
                        };
                        let amount_of = |i: &Item| match i {
                            Item::Ks(_, a) => *a,
                            Item::Inv(1) => 2 * X,
                            _ => X,
                        };
                        for (h, amt) in table {
                            let known = s.ghost.registered.iter().find(|(rh, _)| *rh == h).map(|(_, it)| amount_of(it));
                            if known == Some(amt) {
                                continue;
                            }
                            // a new or changed entry: only this request can have caused it, and only
                            // with an approval for exactly this hash and amount
                            let justified = covered && hash_of(item) == Some(h) && amount_of(item) == amt && known.is_none();
                            if justified {
                                s.ghost.registered.push((h, *item));
                            } else {
                                vios.push(Vio {
                                    prop: "C06",
                                    key: format!("C06:approver:registered-without-matching-approval:{}", format!("{:?}", item).split('(').next().unwrap()),
                                    what: format!("after the request {:?} (answer {}) the node holds {} msat as approved for hash {} (before: {:?}), which no memorised approval of the operator covers (declining delegate); ghost {:?}", item, r.tag(), amt, h, known, s.ghost),
                                });
                            }
                        }
                    }
                }
            }
        }
    }
}

pub struct ApprRun {
    pub stats: BfsStats,
    pub found: Vec<Found>,
    pub models: Vec<String>,
}

pub fn explore(tier: Tier, wall_s: f64) -> ApprRun {
    let m = ApprModel { max_ops: tier.pick(5, 7) };
    let mut found = vec![];
    let lim = Limits { max_depth: m.max_ops, max_states: 3_000_000, wall_s };
    let st = bfs(&m, &lim, &mut found);
    let models = vec![format!("{}: states={} transitions={} closed={} bounded_complete={} depth={} t={:.1}s", m.name(), st.states, st.transitions, st.closed, st.bounded_complete, st.max_depth, st.wall_s)];
    ApprRun { stats: st, found, models }
}

pub fn replay_ops(v: &serde_json::Value) -> Vec<Vio> {
    let m: ApprModel = serde_json::from_value(v["cfg"].clone()).expect("approvers cfg");
    let ops: Vec<Op> = serde_json::from_value(v["ops"].clone()).expect("approvers ops");
    crate::vmc::replay(&m, &ops)
}
