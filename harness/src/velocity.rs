//! C12 (component part): explicit-state search over the real `VelocityControl`.
//!
//! State = the real control object + the ghost log of approvals that can still share a window
//! with a future approval.  Canonical key = (now mod B, buckets, start offset, trimmed log
//! relative to now).  Transition = one call of `VelocityControl::insert(now + dt, amount)`.

use crate::ev::*;
use lightning_signer::util::velocity::{
    VelocityControl, VelocityControlIntervalType, VelocityControlSpec,
};
use serde_json::{json, Value};
use std::collections::{HashSet, VecDeque};

#[derive(Clone)]
struct St {
    vc: VelocityControl,
    now: u64,
    log: Vec<(u64, u64)>, // (time, amount) of approvals, amount > 0
    hist: Vec<(u64, u64, bool)>,
}

fn key(s: &St, w: u64) -> (u64, u64, Vec<u64>, Vec<(u64, u64)>) {
    let b = s.vc.bucket_interval as u64;
    let rel: Vec<(u64, u64)> =
        s.log.iter().filter(|(t, _)| s.now - *t <= w).map(|(t, a)| (s.now - *t, *a)).collect();
    // start_sec relative to now (now >= start_sec always in reachable states; saturate otherwise)
    (s.now % b, s.now.saturating_sub(s.vc.start_sec), s.vc.buckets.clone(), rel)
}

pub struct VelStats {
    pub states: u64,
    pub transitions: u64,
    pub approvals: u64,
    pub refusals: u64,
    pub closed: bool,
    pub max_depth: usize,
    pub samples: Vec<Value>,
    pub configs: u64,
}

fn explore_one(
    run: &mut Run,
    name: &str,
    mk: &dyn Fn() -> VelocityControl,
    limit: u64,
    max_depth: usize,
    state_cap: usize,
    stats: &mut VelStats,
) {
    let vc0 = mk();
    let b = vc0.bucket_interval as u64;
    let n = vc0.buckets.len() as u64;
    let w = (n - 1) * b;
    let unlimited = vc0.is_unlimited();
    let mut dts = vec![0u64, 1, b - 1, b, b + 1, w, n * b, n * b + 1, 1_000_000_007];
    dts.sort();
    dts.dedup();
    let l = limit;
    let mut amts = vec![0u64, 1, l / 2, l.saturating_sub(1), l, l.saturating_add(1), u64::MAX];
    amts.sort();
    amts.dedup();
    // start at a time that is not bucket aligned so that alignment logic is exercised
    for start_now in [0u64, 7 * b + 3] {
        let s0 = St { vc: mk(), now: start_now, log: vec![], hist: vec![] };
        let mut seen = HashSet::new();
        seen.insert(key(&s0, w));
        let mut q = VecDeque::new();
        q.push_back(s0);
        let mut capped = false;
        while let Some(s) = q.pop_front() {
            if s.hist.len() >= max_depth {
                capped = true;
                continue;
            }
            for &dt in &dts {
                for &a in &amts {
                    let mut t = s.clone();
                    t.now = s.now + dt;
                    let now = t.now;
                    let r = catch(|| t.vc.insert(now, a));
                    stats.transitions += 1;
                    t.hist.push((dt, a, matches!(r, Ok(true))));
                    let rep = || json!({"config": name, "start_now": start_now, "limit": limit, "ops_dt_amount_approved": t.hist});
                    match r {
                        Err(p) => {
                            run.violation(
                                &format!("C12:component:panic:{}", name),
                                &format!("VelocityControl::insert panicked: {} at {}", p, last_panic_loc()),
                                rep(),
                            );
                            continue;
                        }
                        Ok(true) => {
                            stats.approvals += 1;
                            if !unlimited {
                                let sum: u128 = t
                                    .log
                                    .iter()
                                    .filter(|(ti, _)| now - *ti <= w)
                                    .map(|(_, ai)| *ai as u128)
                                    .sum::<u128>()
                                    + a as u128;
                                if sum > limit as u128 {
                                    run.violation(
                                        &format!("C12:component:window-sum-exceeds-limit:{}", name),
                                        &format!("approved amounts within a window of (N-1)*B={}s sum to {} > limit {}", w, sum, limit),
                                        rep(),
                                    );
                                }
                            }
                            if a > 0 {
                                t.log.push((now, a));
                            }
                        }
                        Ok(false) => {
                            stats.refusals += 1;
                            // liveness sanity (not a property clause): nothing
                        }
                    }
                    t.log.retain(|(ti, _)| now - *ti <= w);
                    let k = key(&t, w);
                    if seen.insert(k) {
                        if seen.len() > state_cap {
                            capped = true;
                            continue;
                        }
                        if stats.samples.len() < 3 && t.hist.len() == 3 {
                            stats.samples.push(json!({"config": name, "ops_dt_amount_approved": t.hist}));
                        }
                        stats.max_depth = stats.max_depth.max(t.hist.len());
                        q.push_back(t);
                    }
                }
            }
        }
        stats.states += seen.len() as u64;
        if capped {
            stats.closed = false;
        }
    }
    stats.configs += 1;
}

pub fn run_component(run: &mut Run) -> VelStats {
    let tier = run.tier;
    let mut stats = VelStats {
        states: 0,
        transitions: 0,
        approvals: 0,
        refusals: 0,
        closed: true,
        max_depth: 0,
        samples: vec![],
        configs: 0,
    };
    let depth = tier.pick(5, 8);
    let cap = tier.pick(60_000, 1_500_000);
    for &limit in &[0u64, 100, u64::MAX - 1] {
        for &nb in &[1usize, 2, 3, 4] {
            let name = format!("intervals(B=10,N={},L={})", nb, limit);
            explore_one(
                run,
                &name,
                &|| VelocityControl::new_with_intervals(limit, 10, nb),
                limit,
                depth,
                cap,
                &mut stats,
            );
        }
    }
    for (it, nm) in [
        (VelocityControlIntervalType::Hourly, "hourly"),
        (VelocityControlIntervalType::Daily, "daily"),
        (VelocityControlIntervalType::Unlimited, "unlimited"),
    ] {
        let limit = 100u64;
        let name = format!("spec({},L={})", nm, limit);
        let d = tier.pick(4, 6);
        explore_one(
            run,
            &name,
            &|| VelocityControl::new(VelocityControlSpec { limit_msat: limit, interval_type: it }),
            limit,
            d,
            cap,
            &mut stats,
        );
    }
    stats
}
