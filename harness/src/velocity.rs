//! C12 (component part): explicit-state search over the real `VelocityControl`.
//!
//! State = the real control object + the ghost log of approvals that can still share a window
//! with a future approval.  Canonical key = (now mod B, buckets, start offset, trimmed log
//! relative to now).  Transition = one call of `VelocityControl::insert(now + dt, amount)`.

use crate::ev::*;
use lightning_signer::util::velocity::{
    VelocityControl, VelocityControlIntervalType, VelocityControlSpec,
};
use serde_json::{json, Value};
use std::collections::{HashSet, VecDeque};

#[derive(Clone)]
struct St {
    vc: VelocityControl,
    now: u64,
    log: Vec<(u64, u64)>, // (time, amount) of approvals, amount > 0
    hist: Vec<(u64, u64, bool)>,
}

fn key(s: &St, w: u64) -> (u64, u64, Vec<u64>, Vec<(u64, u64)>) {
    let b = s.vc.bucket_interval as u64;
    let rel: Vec<(u64, u64)> =
        s.log.iter().filter(|(t, _)| s.now - *t <= w).map(|(t, a)| (s.now - *t, *a)).collect();
    // start_sec relative to now (now >= start_sec always in reachable states; saturate otherwise)
    (s.now % b, s.now.saturating_sub(s.vc.start_sec), s.vc.buckets.clone(), rel)
}

pub struct VelStats {
    pub states: u64,
    pub transitions: u64,
    pub approvals: u64,
    pub refusals: u64,
    pub closed: bool,
    pub max_depth: usize,
    pub samples: Vec<Value>,
    pub configs: u64,
}

fn explore_one(
    run: &mut Run,
    name: &str,
    mk: &dyn Fn() -> VelocityControl,
    limit: u64,
    max_depth: usize,
    state_cap: usize,
    stats: &mut VelStats,
) {
    let vc0 = mk();
    let b = vc0.bucket_interval as u64;
    let n = vc0.buckets.len() as u64;
    let w = (n - 1) * b;
    let unlimited = vc0.is_unlimited();
    let mut dts = vec![0u64, 1, b - 1, b, b + 1, w, n * b, n * b + 1, 1_000_000_007];
    dts.sort();
    dts.dedup();
    let l = limit;
    let mut amts = vec![0u64, 1, l / 2, l.saturating_sub(1), l, l.saturating_add(1), u64::MAX];
    amts.sort();
    amts.dedup();
    // start at a time that is not bucket aligned so that alignment logic is exercised
    for start_now in [0u64, 7 * b + 3] {
        let s0 = St { vc: mk(), now: start_now, log: vec![], hist: vec![] };
        let mut seen = HashSet::new();
        seen.insert(key(&s0, w));
        let mut q = VecDeque::new();
        q.push_back(s0);
        let mut capped = false;
        while let Some(s) = q.pop_front() {
            if s.hist.len() >= max_depth {
                capped = true;
                continue;
            }
            for &dt in &dts {
                for &a in &amts {
                    let mut t = s.clone();
                    t.now = s.now + dt;
                    let now = t.now;
                    let r = catch(|| t.vc.insert(now, a));
                    stats.transitions += 1;
                    t.hist.push((dt, a, matches!(r, Ok(true))));
                    let rep = || json!({"engine": "velocity", "config": name, "start_now": start_now, "limit": limit, "ops_dt_amount_approved": t.hist});
                    match r {
                        Err(p) => {
                            run.violation(
                                &format!("C12:component:panic:{}", name),
                                &format!("VelocityControl::insert panicked: {} at {}", p, last_panic_loc()),
                                rep(),
                            );
                            continue;
                        }
                        Ok(true) => {
                            stats.approvals += 1;
                            if !unlimited {
                                let sum: u128 = t
                                    .log
                                    .iter()
                                    .filter(|(ti, _)| now - *ti <= w)
                                    .map(|(_, ai)| *ai as u128)
                                    .sum::<u128>()
                                    + a as u128;
                                if sum > limit as u128 {
                                    run.violation(
                                        &format!("C12:component:window-sum-exceeds-limit:{}", name),
                                        &format!("approved amounts within a window of (N-1)*B={}s sum to {} > limit {}", w, sum, limit),
                                        rep(),
                                    );
                                }
                            }
                            if a > 0 {
                                t.log.push((now, a));
                            }
                        }
                        Ok(false) => {
                            stats.refusals += 1;
                            // liveness sanity (not a property clause): nothing
                        }
                    }
                    t.log.retain(|(ti, _)| now - *ti <= w);
                    let k = key(&t, w);
                    if seen.insert(k) {
                        if seen.len() > state_cap {
                            capped = true;
                            continue;
                        }
                        if stats.samples.len() < 3 && t.hist.len() == 3 {
                            stats.samples.push(json!({"config": name, "ops_dt_amount_approved": t.hist}));
                        }
                        stats.max_depth = stats.max_depth.max(t.hist.len());
                        q.push_back(t);
                    }
                }
            }
        }
        stats.states += seen.len() as u64;
        if capped {
            stats.closed = false;
        }
    }
    stats.configs += 1;
}

/// Policy changes and restarts: a control is created under one spec, possibly used, then told
/// about another (or the same) spec -- as node start-up and the policy reload hook do -- and
/// possibly carried through get_state / load_from_state, then used again.  Oracle: the
/// sliding-window rule of the spec now in force over the approvals made since the spec last
/// really changed (a change of spec may forget the history; telling the control the spec it
/// already has, or restoring it, may not).
fn respec_check(run: &mut Run, stats: &mut VelStats) {
    use VelocityControlIntervalType::*;
    let specs = [
        VelocityControlSpec { limit_msat: 100, interval_type: Hourly },
        VelocityControlSpec { limit_msat: 100, interval_type: Daily },
        VelocityControlSpec { limit_msat: 50, interval_type: Hourly },
        VelocityControlSpec { limit_msat: 50, interval_type: Daily },
        VelocityControlSpec { limit_msat: 100, interval_type: Unlimited },
    ];
    let geometry = |s: &VelocityControlSpec| -> Option<(u64, u64)> {
        match s.interval_type {
            Hourly => Some((300, 12)),
            Daily => Some((3600, 24)),
            Unlimited => None,
        }
    };
    let same = |a: &VelocityControlSpec, b: &VelocityControlSpec| a.limit_msat == b.limit_msat && std::mem::discriminant(&a.interval_type) == std::mem::discriminant(&b.interval_type);
    let t0 = 1_700_000_123u64;
    let mut seqs = 0u64;
    for s1 in &specs {
        for s2 in &specs {
            let (b2, n2) = match geometry(s2) {
                Some(g) => g,
                None => continue,
            };
            let w2 = (n2 - 1) * b2;
            let l2 = s2.limit_msat;
            let dts = [0u64, b2, 2 * b2 + 1, 3 * b2, w2, n2 * b2 + 1];
            let amts = [l2, l2 / 2, 1];
            for used_before in [false, true] {
                for path in 0..3u8 {
                    // 0: update_spec once; 1: update_spec twice; 2: update_spec, state round
                    // trip (restart), update_spec again
                    for i0 in 0..dts.len() * amts.len() {
                        for i1 in 0..dts.len() * amts.len() {
                            for i2 in 0..dts.len() * amts.len() {
                                seqs += 1;
                                stats.transitions += 3;
                                let mut vc = VelocityControl::new(*s1);
                                let mut log: Vec<(u64, u64)> = vec![];
                                let mut now = t0;
                                let mut hist = vec![];
                                if used_before {
                                    let a = s1.limit_msat.min(l2);
                                    if vc.insert(now, a) && a > 0 {
                                        log.push((now, a));
                                    }
                                    hist.push(json!({"insert_under_first_spec": a}));
                                }
                                if !same(s1, s2) {
                                    log.clear();
                                }
                                vc.update_spec(s2);
                                if path == 1 {
                                    vc.update_spec(s2);
                                }
                                if path == 2 {
                                    vc = VelocityControl::load_from_state(*s2, vc.get_state());
                                    vc.update_spec(s2);
                                }
                                let mut bad = None;
                                for (step, ix) in [i0, i1, i2].into_iter().enumerate() {
                                    let (dt, a) = (dts[ix / amts.len()], amts[ix % amts.len()]);
                                    now += dt;
                                    let ok = match catch(|| vc.insert(now, a)) {
                                        Ok(x) => x,
                                        Err(p) => {
                                            bad = Some((format!("C12:component:respec:panic"), format!("insert panicked after a spec change: {}", p)));
                                            break;
                                        }
                                    };
                                    hist.push(json!({"dt": dt, "amount": a, "approved": ok}));
                                    if ok {
                                        let sum: u128 = log.iter().filter(|(t, _)| now - *t <= w2).map(|(_, x)| *x as u128).sum::<u128>() + a as u128;
                                        if sum > l2 as u128 {
                                            bad = Some((
                                                format!("C12:component:respec:window-sum-exceeds-limit:{:?}->{:?}:{}", s1.interval_type, s2.interval_type, ["update", "update-twice", "update-restore-update"][path as usize]),
                                                format!("control created as {:?}, then told {:?}: approvals within {} s sum to {} > limit {} (step {})", s1, s2, w2, sum, l2, step),
                                            ));
                                            break;
                                        }
                                        stats.approvals += 1;
                                        log.push((now, a));
                                    } else {
                                        stats.refusals += 1;
                                    }
                                }
                                if let Some((k, w)) = bad {
                                    let steps: Vec<(u64, u64)> = [i0, i1, i2].iter().map(|ix| (dts[ix / amts.len()], amts[ix % amts.len()])).collect();
                                    run.violation(&k, &w, json!({"engine": "velocity", "part": "respec", "first": [s1.limit_msat, format!("{:?}", s1.interval_type)], "second": [s2.limit_msat, format!("{:?}", s2.interval_type)], "used_before": used_before, "path": path, "steps": steps, "history": hist}));
                                }
                            }
                        }
                    }
                }
            }
        }
    }
    stats.states += seqs;
}

pub fn run_component(run: &mut Run) -> VelStats {
    let tier = run.tier;
    let mut stats = VelStats {
        states: 0,
        transitions: 0,
        approvals: 0,
        refusals: 0,
        closed: true,
        max_depth: 0,
        samples: vec![],
        configs: 0,
    };
    let depth = tier.pick(5, 8);
    let cap = tier.pick(60_000, 1_500_000);
    for &limit in &[0u64, 100, u64::MAX - 1] {
        for &nb in &[1usize, 2, 3, 4] {
            let name = format!("intervals(B=10,N={},L={})", nb, limit);
            explore_one(
                run,
                &name,
                &|| VelocityControl::new_with_intervals(limit, 10, nb),
                limit,
                depth,
                cap,
                &mut stats,
            );
        }
    }
    for (it, nm) in [
        (VelocityControlIntervalType::Hourly, "hourly"),
        (VelocityControlIntervalType::Daily, "daily"),
        (VelocityControlIntervalType::Unlimited, "unlimited"),
    ] {
        let limit = 100u64;
        let name = format!("spec({},L={})", nm, limit);
        let d = tier.pick(4, 6);
        explore_one(
            run,
            &name,
            &|| VelocityControl::new(VelocityControlSpec { limit_msat: limit, interval_type: it }),
            limit,
            d,
            cap,
            &mut stats,
        );
    }
    respec_check(run, &mut stats);
    stats
}

fn interval_type(s: &str) -> VelocityControlIntervalType {
    match s {
        "Hourly" | "hourly" => VelocityControlIntervalType::Hourly,
        "Daily" | "daily" => VelocityControlIntervalType::Daily,
        _ => VelocityControlIntervalType::Unlimited,
    }
}

/// Re-execute a recorded component history on the real control and print what it approves.
pub fn replay(v: &Value) {
    let r = &v["replay"];
    if r["part"].as_str() == Some("respec") {
        let spec = |x: &Value| VelocityControlSpec { limit_msat: x[0].as_u64().unwrap_or(0), interval_type: interval_type(x[1].as_str().unwrap_or("")) };
        let (s1, s2) = (spec(&r["first"]), spec(&r["second"]));
        let mut vc = VelocityControl::new(s1);
        let mut now = 1_700_000_123u64;
        if r["used_before"].as_bool().unwrap_or(false) {
            let a = s1.limit_msat.min(s2.limit_msat);
            println!("insert({}, {}) under {:?} -> {}", now, a, s1, vc.insert(now, a));
        }
        vc.update_spec(&s2);
        println!("update_spec({:?})", s2);
        match r["path"].as_u64().unwrap_or(0) {
            1 => {
                vc.update_spec(&s2);
                println!("update_spec again");
            }
            2 => {
                vc = VelocityControl::load_from_state(s2, vc.get_state());
                vc.update_spec(&s2);
                println!("get_state / load_from_state / update_spec");
            }
            _ => {}
        }
        let mut approved: Vec<(u64, u64)> = vec![];
        for st in r["steps"].as_array().cloned().unwrap_or_default() {
            let (dt, a) = (st[0].as_u64().unwrap_or(0), st[1].as_u64().unwrap_or(0));
            now += dt;
            let ok = vc.insert(now, a);
            if ok {
                approved.push((now, a));
            }
            println!("insert(+{} s, {}) -> {} (bucket interval {} s, {} buckets, limit {}); approved so far {:?}", dt, a, ok, vc.bucket_interval, vc.buckets.len(), vc.limit, approved);
        }
        return;
    }
    let name = r["config"].as_str().unwrap_or("");
    let limit = r["limit"].as_u64().unwrap_or(0);
    let mut vc = if let Some(rest) = name.strip_prefix("intervals(B=10,N=") {
        let n: usize = rest.split(',').next().unwrap_or("1").parse().unwrap_or(1);
        VelocityControl::new_with_intervals(limit, 10, n)
    } else {
        let ty = name.strip_prefix("spec(").and_then(|x| x.split(',').next()).unwrap_or("");
        VelocityControl::new(VelocityControlSpec { limit_msat: limit, interval_type: interval_type(ty) })
    };
    let mut now = r["start_now"].as_u64().unwrap_or(0);
    let mut approved: Vec<(u64, u64)> = vec![];
    for st in r["ops_dt_amount_approved"].as_array().cloned().unwrap_or_default() {
        let (dt, a) = (st[0].as_u64().unwrap_or(0), st[1].as_u64().unwrap_or(0));
        now += dt;
        let ok = catch(|| vc.insert(now, a));
        if let Ok(true) = ok {
            approved.push((now, a));
        }
        println!("insert(+{} s, {}) -> {:?}; approved so far {:?}", dt, a, ok, approved);
    }
}
