//! Replay-based explicit-state breadth-first search (DESIGN 2.2).
//!
//! A state is represented by the history (list of ops) that reaches it; a fresh model instance
//! is built and the history replayed for every expansion.  The canonical key of the state reached
//! decides whether it is new.  Expansion is parallel, merging is sequential and in a fixed order,
//! so state/transition counts do not depend on the number of threads.

use crate::ev::*;
use serde::Serialize;
use serde_json::{json, Value};
use std::collections::HashSet;
use std::time::Instant;

#[derive(Clone, Debug)]
pub struct Vio {
    pub prop: &'static str,
    pub key: String,
    pub what: String,
}

pub trait Model: Sync {
    type Op: Clone + Serialize + std::fmt::Debug + Send + Sync;
    type State;
    fn name(&self) -> String;
    /// configuration from which the model can be rebuilt for a stand-alone replay
    fn cfg_json(&self) -> Value {
        Value::Null
    }
    fn init(&self) -> Self::State;
    /// enabled letters in this state (computed from the live object: relative numbers etc.)
    fn ops(&self, s: &Self::State) -> Vec<Self::Op>;
    /// apply one op; `check` = run the (expensive) monitors for this step.
    /// Ghost variables must be updated regardless of `check`.
    fn apply(&self, s: &mut Self::State, op: &Self::Op, check: bool, vios: &mut Vec<Vio>);
    /// canonical key (live fingerprint + ghost)
    fn key(&self, s: &Self::State) -> String;
    /// false => do not explore successors (e.g. poisoned after a panic)
    fn alive(&self, _s: &Self::State) -> bool {
        true
    }
    /// true => successors of a transition that raised this violation are not explored
    /// (the state is corrupted; everything after it would be a consequence)
    fn prune_after(&self, _v: &Vio) -> bool {
        false
    }
}

#[derive(Default, Clone)]
pub struct BfsStats {
    pub states: u64,
    pub transitions: u64,
    pub closed: bool,
    pub max_depth: usize,
    pub complete_depth: usize,
    pub wall_s: f64,
    pub samples: Vec<Value>,
    pub dead_ends: u64,
    pub pruned: u64,
    /// the depth bound was reached with every level fully expanded
    pub bounded_complete: bool,
}

pub struct Limits {
    pub max_depth: usize,
    pub max_states: usize,
    pub wall_s: f64,
}

pub struct Found {
    pub vio: Vio,
    pub replay: Value,
}

struct Exp<Op> {
    ops_len: usize,
    results: Vec<(Op, Option<String>, Vec<Vio>, bool)>,
}

fn expand<M: Model>(m: &M, hist: &[M::Op]) -> Exp<M::Op> {
    // replay the history once to learn the enabled ops
    let mut s = m.init();
    let mut sink = vec![];
    for op in hist {
        m.apply(&mut s, op, false, &mut sink);
    }
    let ops = m.ops(&s);
    drop(s);
    let mut results = vec![];
    for op in ops.iter() {
        let mut s = m.init();
        for h in hist {
            m.apply(&mut s, h, false, &mut sink);
        }
        let mut vios = vec![];
        m.apply(&mut s, op, true, &mut vios);
        let alive = m.alive(&s);
        let key = if alive { Some(m.key(&s)) } else { None };
        results.push((op.clone(), key, vios, alive));
    }
    Exp { ops_len: ops.len(), results }
}

pub fn bfs<M: Model>(m: &M, lim: &Limits, found: &mut Vec<Found>) -> BfsStats {
    let t0 = Instant::now();
    let threads = nthreads();
    let mut st = BfsStats::default();
    let mut seen: HashSet<String> = HashSet::new();
    {
        let s = m.init();
        seen.insert(m.key(&s));
    }
    let mut frontier: Vec<Vec<M::Op>> = vec![vec![]];
    let mut depth = 0usize;
    st.closed = true;
    let mut vio_keys: HashSet<String> = HashSet::new();
    while !frontier.is_empty() {
        if depth >= lim.max_depth {
            // every history of length <= max_depth has been executed: the bounded space is covered
            st.closed = false;
            st.bounded_complete = true;
            break;
        }
        if t0.elapsed().as_secs_f64() > lim.wall_s || seen.len() > lim.max_states {
            st.closed = false;
            break;
        }
        // expand in slices so that the wall budget is honoured inside a level
        let mut next: Vec<Vec<M::Op>> = vec![];
        let mut level_complete = true;
        for chunk in frontier.chunks(threads * 4) {
            if t0.elapsed().as_secs_f64() > lim.wall_s || seen.len() > lim.max_states {
                level_complete = false;
                break;
            }
            let outs = par_map(chunk, threads, |h| expand(m, h));
            for (h, exp) in chunk.iter().zip(outs.into_iter()) {
                let _ = exp.ops_len;
                for (op, key, vios, alive) in exp.results {
                    st.transitions += 1;
                    let prune = vios.iter().any(|v| m.prune_after(v));
                    for v in vios {
                        let k = format!("{}|{}", v.prop, v.key);
                        if vio_keys.insert(k) {
                            let mut hh: Vec<Value> = h.iter().map(|o| serde_json::to_value(o).unwrap()).collect();
                            hh.push(serde_json::to_value(&op).unwrap());
                            found.push(Found { vio: v, replay: json!({"model": m.name(), "cfg": m.cfg_json(), "ops": hh}) });
                        }
                    }
                    if !alive {
                        st.dead_ends += 1;
                        continue;
                    }
                    if prune {
                        st.pruned += 1;
                        continue;
                    }
                    if let Some(k) = key {
                        if seen.insert(k) {
                            let mut hh = h.clone();
                            hh.push(op);
                            if st.samples.len() < 3 && hh.len() >= 3 {
                                st.samples.push(json!({"model": m.name(), "ops": hh}));
                            }
                            next.push(hh);
                        }
                    }
                }
            }
        }
        if !level_complete {
            st.closed = false;
            break;
        }
        depth += 1;
        st.max_depth = depth;
        st.complete_depth = depth;
        if std::env::var("VERIF_VERBOSE").is_ok() {
            eprintln!(
                "[{}] depth {} frontier {} seen {} transitions {} vios {} t={:.1}s",
                m.name(),
                depth,
                next.len(),
                seen.len(),
                st.transitions,
                found.len(),
                t0.elapsed().as_secs_f64()
            );
        }
        frontier = next;
    }
    st.states = seen.len() as u64;
    st.wall_s = t0.elapsed().as_secs_f64();
    st
}

/// Re-execute a recorded history with monitors on for the last step; returns the violations.
pub fn replay<M: Model>(m: &M, ops: &[M::Op]) -> Vec<Vio> {
    let mut s = m.init();
    let mut sink = vec![];
    let n = ops.len();
    for (i, op) in ops.iter().enumerate() {
        if i + 1 == n {
            let mut v = vec![];
            m.apply(&mut s, op, true, &mut v);
            return v;
        }
        m.apply(&mut s, op, false, &mut sink);
    }
    vec![]
}

pub fn merge_stats(a: &mut BfsStats, b: &BfsStats) {
    a.states += b.states;
    a.transitions += b.transitions;
    a.bounded_complete = (a.closed || a.bounded_complete) && (b.closed || b.bounded_complete) && !(a.closed && b.closed);
    a.closed = a.closed && b.closed;
    a.max_depth = a.max_depth.max(b.max_depth);
    a.wall_s += b.wall_s;
    a.dead_ends += b.dead_ends;
    a.pruned += b.pruned;
    for s in &b.samples {
        if a.samples.len() < 6 {
            a.samples.push(s.clone());
        }
    }
}
