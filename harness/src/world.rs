//! A "world": a real signer built the way production builds it (HandlerBuilder -> InitHandler ->
//! RootHandler -> ChannelHandler over a KVVPersister<MemoryKVVStore>), plus a counterparty played
//! by the harness with its own keys.  Restart = build again over a deep copy of the store.

use crate::lsync::Arc;
use lightning_signer::bitcoin;
use lightning_signer::bitcoin::absolute::LockTime;
use lightning_signer::bitcoin::bip32::DerivationPath;
use lightning_signer::bitcoin::hashes::sha256::Hash as Sha256Hash;
use lightning_signer::bitcoin::hashes::Hash;
use lightning_signer::bitcoin::secp256k1::ecdsa::Signature;
use lightning_signer::bitcoin::secp256k1::{self, All, Message as SecpMessage, PublicKey, Secp256k1, SecretKey};
use lightning_signer::bitcoin::sighash::{EcdsaSighashType, SighashCache};
use lightning_signer::bitcoin::{Amount, Network, OutPoint, ScriptBuf, Transaction, Txid};
use lightning_signer::channel::{
    Channel, ChannelBase, ChannelId, ChannelSetup, ChannelSlot, CommitmentType,
};
use lightning_signer::lightning::chain::transaction::OutPoint as LdkOutPoint;
use lightning_signer::lightning::ln::chan_utils::{
    self, build_htlc_transaction, derive_private_key, get_htlc_redeemscript,
    make_funding_redeemscript, ChannelPublicKeys, ChannelTransactionParameters,
    CommitmentTransaction, CounterpartyChannelTransactionParameters, HTLCOutputInCommitment,
    TxCreationKeys,
};
use lightning_signer::lightning::ln::channel_keys::{
    DelayedPaymentBasepoint, HtlcBasepoint, RevocationBasepoint,
};
use lightning_signer::lightning::types::payment::PaymentHash;
use lightning_signer::node::{Node, NodeServices};
use lightning_signer::persist::Persist;
use lightning_signer::policy::simple_validator::{
    make_default_simple_policy, SimplePolicy, SimpleValidatorFactory,
};
use lightning_signer::policy::validator::ValidatorFactory;
use lightning_signer::tx::tx::HTLCInfo2;
use lightning_signer::util::clock::ManualClock;
use lightning_signer::util::status::Status;
use lightning_signer::util::test_utils::FixedStartingTimeFactory;
use lightning_signer::util::INITIAL_COMMITMENT_NUMBER;
use serde::{Deserialize, Serialize};
use serde_json::{json, Value};
use std::collections::BTreeMap;
use std::time::Duration;
use vls_persist::kvv::memory::MemoryKVVStore;
use vls_persist::kvv::{JsonFormat, KVVPersister, KVVStore, KVV};
use vls_persist::model::{ChainTrackerEntry, NodeStateEntry};
use vls_protocol::model::{self, PubKey};
use vls_protocol::msgs::{self, Message, SerBolt};
use vls_protocol_signer::approver::{Approve, NegativeApprover, PositiveApprover};
use vls_protocol_signer::handler::{
    ChannelHandler, Error as HError, Handler, HandlerBuilder, RootHandler,
};

pub type MemPersister = KVVPersister<HStore, JsonFormat>;

/// The store under the signer: the plain in-memory KVV store, or the transactional
/// `CloudKVVStore<MemoryKVVStore>` the daemon uses with an external (cloud) store.  In cloud
/// mode the transaction is entered lazily by the first store operation of a request (equivalent
/// to the daemon's enter-before-handle, since nothing touches the store in between) and ended
/// by the harness after the request (`World::prepare_request` / `commit_request`).
pub enum HStore {
    Plain(MemoryKVVStore),
    Cloud(vls_persist::kvv::cloud::CloudKVVStore<MemoryKVVStore>, std::sync::atomic::AtomicBool),
}

impl lightning_signer::SendSync for HStore {}

impl HStore {
    pub fn new(cloud: bool) -> HStore {
        let m = MemoryKVVStore::new([7u8; 16]);
        if cloud {
            HStore::Cloud(vls_persist::kvv::cloud::CloudKVVStore::new(m), std::sync::atomic::AtomicBool::new(false))
        } else {
            HStore::Plain(m)
        }
    }
    fn ensure(&self) {
        if let HStore::Cloud(c, f) = self {
            if !f.swap(true, std::sync::atomic::Ordering::SeqCst) {
                c.enter().expect("enter");
            }
        }
    }
    pub fn is_cloud(&self) -> bool {
        matches!(self, HStore::Cloud(..))
    }
    /// end of the request, first half: the mutations the daemon would now send to the cloud
    /// (None when no transaction was opened or the store is not transactional)
    pub fn prepare_request(&self) -> Option<Vec<(String, (u64, Vec<u8>))>> {
        match self {
            HStore::Cloud(c, f) if f.load(std::sync::atomic::Ordering::SeqCst) => Some(c.prepare().into_inner()),
            _ => None,
        }
    }
    /// end of the request, second half: commit to the local store
    pub fn commit_request(&self) {
        if let HStore::Cloud(c, f) = self {
            if f.swap(false, std::sync::atomic::Ordering::SeqCst) {
                c.commit().expect("commit");
            }
        }
    }
}

macro_rules! hstore_delegate {
    ($self:ident, $s:ident => $e:expr) => {
        match $self {
            HStore::Plain($s) => $e,
            HStore::Cloud($s, _) => {
                $self.ensure();
                $e
            }
        }
    };
}

impl KVVStore for HStore {
    type Iter = <MemoryKVVStore as KVVStore>::Iter;
    fn put(&self, key: &str, value: Vec<u8>) -> Result<(), lightning_signer::persist::Error> {
        hstore_delegate!(self, s => s.put(key, value))
    }
    fn put_with_version(&self, key: &str, version: u64, value: Vec<u8>) -> Result<(), lightning_signer::persist::Error> {
        hstore_delegate!(self, s => s.put_with_version(key, version, value))
    }
    fn put_batch(&self, kvvs: Vec<KVV>) -> Result<(), lightning_signer::persist::Error> {
        hstore_delegate!(self, s => s.put_batch(kvvs))
    }
    fn get(&self, key: &str) -> Result<Option<(u64, Vec<u8>)>, lightning_signer::persist::Error> {
        hstore_delegate!(self, s => s.get(key))
    }
    fn get_version(&self, key: &str) -> Result<Option<u64>, lightning_signer::persist::Error> {
        hstore_delegate!(self, s => s.get_version(key))
    }
    fn get_prefix(&self, prefix: &str) -> Result<Self::Iter, lightning_signer::persist::Error> {
        // reads of the local store need no transaction
        match self {
            HStore::Plain(s) => s.get_prefix(prefix),
            HStore::Cloud(s, _) => s.get_prefix(prefix),
        }
    }
    fn delete(&self, key: &str) -> Result<(), lightning_signer::persist::Error> {
        hstore_delegate!(self, s => s.delete(key))
    }
    fn clear_database(&self) -> Result<(), lightning_signer::persist::Error> {
        hstore_delegate!(self, s => s.clear_database())
    }
    fn enter(&self) -> Result<(), lightning_signer::persist::Error> {
        self.ensure();
        Ok(())
    }
    fn prepare(&self) -> lightning_signer::persist::Mutations {
        lightning_signer::persist::Mutations::from_vec(self.prepare_request().unwrap_or_default())
    }
    fn commit(&self) -> Result<(), lightning_signer::persist::Error> {
        self.commit_request();
        Ok(())
    }
    fn put_batch_unlogged(&self, kvvs: Vec<KVV>) -> Result<(), lightning_signer::persist::Error> {
        match self {
            HStore::Plain(s) => s.put_batch_unlogged(kvvs),
            HStore::Cloud(s, _) => s.put_batch_unlogged(kvvs),
        }
    }
    fn reset_versions(&self) -> Result<(), lightning_signer::persist::Error> {
        match self {
            HStore::Plain(s) => s.reset_versions(),
            HStore::Cloud(s, _) => s.reset_versions(),
        }
    }
    fn signer_id(&self) -> lightning_signer::persist::SignerId {
        match self {
            HStore::Plain(s) => s.signer_id(),
            HStore::Cloud(s, _) => s.signer_id(),
        }
    }
}

pub const START_TIME: u64 = 1_700_000_000;
pub const CHANNEL_VALUE: u64 = 3_000_000;

pub fn secp() -> Secp256k1<All> {
    Secp256k1::new()
}

pub fn sk(b: u8) -> SecretKey {
    let mut x = [0x11u8; 32];
    x[0] = 0x01;
    x[31] = b;
    SecretKey::from_slice(&x).unwrap()
}

pub fn pay_hash(i: u8) -> PaymentHash {
    // hash of the preimage [i; 32]
    PaymentHash(Sha256Hash::hash(&[i; 32]).to_byte_array())
}

pub fn preimage(i: u8) -> [u8; 32] {
    [i; 32]
}

// ------------------------------------------------------------------------------------------
// Counterparty
// ------------------------------------------------------------------------------------------

#[derive(Clone)]
pub struct Cp {
    pub funding: SecretKey,
    pub revocation_base: SecretKey,
    pub payment: SecretKey,
    pub delayed_base: SecretKey,
    pub htlc_base: SecretKey,
    pub seed: [u8; 32],
}

impl Cp {
    pub fn new(tag: u8) -> Cp {
        Cp {
            funding: sk(tag.wrapping_add(1)),
            revocation_base: sk(tag.wrapping_add(2)),
            payment: sk(tag.wrapping_add(3)),
            delayed_base: sk(tag.wrapping_add(4)),
            htlc_base: sk(tag.wrapping_add(5)),
            seed: [tag.wrapping_add(6); 32],
        }
    }
    pub fn pubkeys(&self) -> ChannelPublicKeys {
        let s = secp();
        ChannelPublicKeys {
            funding_pubkey: PublicKey::from_secret_key(&s, &self.funding),
            revocation_basepoint: RevocationBasepoint(PublicKey::from_secret_key(
                &s,
                &self.revocation_base,
            )),
            payment_point: PublicKey::from_secret_key(&s, &self.payment),
            delayed_payment_basepoint: DelayedPaymentBasepoint(PublicKey::from_secret_key(
                &s,
                &self.delayed_base,
            )),
            htlc_basepoint: HtlcBasepoint(PublicKey::from_secret_key(&s, &self.htlc_base)),
        }
    }
    /// BOLT-3 per-commitment secret of the counterparty's commitment n
    pub fn secret(&self, n: u64) -> SecretKey {
        SecretKey::from_slice(&chan_utils::build_commitment_secret(
            &self.seed,
            INITIAL_COMMITMENT_NUMBER - n,
        ))
        .unwrap()
    }
    pub fn point(&self, n: u64) -> PublicKey {
        PublicKey::from_secret_key(&secp(), &self.secret(n))
    }
    /// a secret outside the derivation tree
    pub fn rogue_secret(&self, n: u64) -> SecretKey {
        let mut x = [0x77u8; 32];
        x[0] = 0x02;
        x[31] = n as u8;
        x[30] = self.seed[0];
        SecretKey::from_slice(&x).unwrap()
    }
    pub fn rogue_point(&self, n: u64) -> PublicKey {
        PublicKey::from_secret_key(&secp(), &self.rogue_secret(n))
    }
}

// ------------------------------------------------------------------------------------------
// Commitment contents (always from the holder's perspective)
// ------------------------------------------------------------------------------------------

#[derive(Clone, Debug, PartialEq, Eq, Hash, PartialOrd, Ord, Serialize, Deserialize)]
pub struct H {
    pub value_sat: u64,
    pub hash: u8,
    pub cltv: u32,
}

#[derive(Clone, Debug, PartialEq, Eq, Hash, PartialOrd, Ord, Serialize, Deserialize)]
pub struct Content {
    pub to_holder: u64,
    pub to_cp: u64,
    pub feerate: u32,
    /// HTLCs offered by the holder (outgoing payments)
    pub out: Vec<H>,
    /// HTLCs received by the holder (incoming payments)
    pub inc: Vec<H>,
}

impl Content {
    pub fn out_info(&self) -> Vec<HTLCInfo2> {
        self.out.iter().map(h2).collect()
    }
    pub fn inc_info(&self) -> Vec<HTLCInfo2> {
        self.inc.iter().map(h2).collect()
    }
    pub fn wire_htlcs(&self) -> Vec<model::Htlc> {
        let mut v = vec![];
        for h in &self.out {
            v.push(model::Htlc {
                side: model::Htlc::LOCAL,
                amount: h.value_sat.wrapping_mul(1000),
                payment_hash: model::Sha256(pay_hash(h.hash).0),
                ctlv_expiry: h.cltv,
            });
        }
        for h in &self.inc {
            v.push(model::Htlc {
                side: model::Htlc::REMOTE,
                amount: h.value_sat.wrapping_mul(1000),
                payment_hash: model::Sha256(pay_hash(h.hash).0),
                ctlv_expiry: h.cltv,
            });
        }
        v
    }
}

pub fn h2(h: &H) -> HTLCInfo2 {
    HTLCInfo2 { value_sat: h.value_sat, payment_hash: pay_hash(h.hash), cltv_expiry: h.cltv }
}

fn oic(offered_by_broadcaster: &[H], received_by_broadcaster: &[H]) -> Vec<HTLCOutputInCommitment> {
    let mut v = vec![];
    for h in offered_by_broadcaster {
        v.push(HTLCOutputInCommitment {
            offered: true,
            amount_msat: h.value_sat.wrapping_mul(1000),
            cltv_expiry: h.cltv,
            payment_hash: pay_hash(h.hash),
            transaction_output_index: None,
        });
    }
    for h in received_by_broadcaster {
        v.push(HTLCOutputInCommitment {
            offered: false,
            amount_msat: h.value_sat.wrapping_mul(1000),
            cltv_expiry: h.cltv,
            payment_hash: pay_hash(h.hash),
            transaction_output_index: None,
        });
    }
    v
}

// ------------------------------------------------------------------------------------------
// Independent commitment building (LDK builders, parameters assembled by the harness from the
// setup and the basepoints -- never from Channel's own helpers)
// ------------------------------------------------------------------------------------------

#[derive(Clone)]
pub struct ChanParams {
    pub setup: ChannelSetup,
    pub holder_pubkeys: ChannelPublicKeys,
}

impl ChanParams {
    pub fn tx_params(&self) -> ChannelTransactionParameters {
        ChannelTransactionParameters {
            holder_pubkeys: self.holder_pubkeys.clone(),
            holder_selected_contest_delay: self.setup.holder_selected_contest_delay,
            is_outbound_from_holder: self.setup.is_outbound,
            counterparty_parameters: Some(CounterpartyChannelTransactionParameters {
                pubkeys: self.setup.counterparty_points.clone(),
                selected_contest_delay: self.setup.counterparty_selected_contest_delay,
            }),
            funding_outpoint: Some(LdkOutPoint {
                txid: self.setup.funding_outpoint.txid,
                index: self.setup.funding_outpoint.vout as u16,
            }),
            channel_type_features: self.setup.features(),
        }
    }

    pub fn funding_redeemscript(&self) -> ScriptBuf {
        make_funding_redeemscript(
            &self.holder_pubkeys.funding_pubkey,
            &self.setup.counterparty_points.funding_pubkey,
        )
    }

    /// The holder's commitment n (holder is broadcaster)
    pub fn holder_commitment(
        &self,
        n: u64,
        holder_point: &PublicKey,
        c: &Content,
    ) -> (CommitmentTransaction, TxCreationKeys) {
        let s = secp();
        let cpk = &self.setup.counterparty_points;
        let keys = TxCreationKeys::derive_new(
            &s,
            holder_point,
            &self.holder_pubkeys.delayed_payment_basepoint,
            &self.holder_pubkeys.htlc_basepoint,
            &cpk.revocation_basepoint,
            &cpk.htlc_basepoint,
        );
        let params = self.tx_params();
        let mut htlcs: Vec<(HTLCOutputInCommitment, ())> =
            oic(&c.out, &c.inc).into_iter().map(|h| (h, ())).collect();
        let tx = CommitmentTransaction::new_with_auxiliary_htlc_data(
            INITIAL_COMMITMENT_NUMBER - n,
            c.to_holder,
            c.to_cp,
            self.holder_pubkeys.funding_pubkey,
            cpk.funding_pubkey,
            keys.clone(),
            c.feerate,
            &mut htlcs,
            &params.as_holder_broadcastable(),
        );
        (tx, keys)
    }

    /// The counterparty's commitment n (counterparty is broadcaster)
    pub fn counterparty_commitment(
        &self,
        n: u64,
        cp_point: &PublicKey,
        c: &Content,
    ) -> (CommitmentTransaction, TxCreationKeys) {
        let s = secp();
        let cpk = &self.setup.counterparty_points;
        let keys = TxCreationKeys::derive_new(
            &s,
            cp_point,
            &cpk.delayed_payment_basepoint,
            &cpk.htlc_basepoint,
            &self.holder_pubkeys.revocation_basepoint,
            &self.holder_pubkeys.htlc_basepoint,
        );
        let params = self.tx_params();
        // from the counterparty's view: it offers what the holder receives
        let mut htlcs: Vec<(HTLCOutputInCommitment, ())> =
            oic(&c.inc, &c.out).into_iter().map(|h| (h, ())).collect();
        let tx = CommitmentTransaction::new_with_auxiliary_htlc_data(
            INITIAL_COMMITMENT_NUMBER - n,
            c.to_cp,
            c.to_holder,
            cpk.funding_pubkey,
            self.holder_pubkeys.funding_pubkey,
            keys.clone(),
            c.feerate,
            &mut htlcs,
            &params.as_counterparty_broadcastable(),
        );
        (tx, keys)
    }

    pub fn commitment_sighash(&self, tx: &Transaction) -> SecpMessage {
        let sighash = SighashCache::new(tx)
            .p2wsh_signature_hash(
                0,
                &self.funding_redeemscript(),
                Amount::from_sat(self.setup.channel_value_sat),
                EcdsaSighashType::All,
            )
            .unwrap();
        SecpMessage::from_digest(sighash.to_byte_array())
    }

    /// (htlc tx, sighash) for every HTLC output of a commitment, in output order
    pub fn htlc_sighashes(
        &self,
        ctx: &CommitmentTransaction,
        keys: &TxCreationKeys,
        contest_delay: u16,
        feerate: u32,
    ) -> Vec<(Transaction, SecpMessage)> {
        let trusted = ctx.trust();
        let txid = trusted.txid();
        let features = self.setup.features();
        let build_feerate = if self.setup.is_zero_fee_htlc() { 0 } else { feerate };
        let sht = if self.setup.is_anchors() {
            EcdsaSighashType::SinglePlusAnyoneCanPay
        } else {
            EcdsaSighashType::All
        };
        let mut out = vec![];
        for htlc in ctx.htlcs() {
            let htx = build_htlc_transaction(
                &txid,
                build_feerate,
                contest_delay,
                htlc,
                &features,
                &keys.broadcaster_delayed_payment_key,
                &keys.revocation_key,
            );
            let rs = get_htlc_redeemscript(htlc, &features, keys);
            let sh = SighashCache::new(&htx)
                .p2wsh_signature_hash(0, &rs, Amount::from_sat(htlc.amount_msat / 1000), sht)
                .unwrap();
            out.push((htx, SecpMessage::from_digest(sh.to_byte_array())));
        }
        out
    }

    /// Counterparty signatures over the holder's commitment n with content c.
    pub fn cp_sign_holder_commitment(
        &self,
        cp: &Cp,
        n: u64,
        holder_point: &PublicKey,
        c: &Content,
    ) -> (Signature, Vec<Signature>) {
        let s = secp();
        let (ctx, keys) = self.holder_commitment(n, holder_point, c);
        let tx = ctx.trust().built_transaction().transaction.clone();
        let sig = s.sign_ecdsa(&self.commitment_sighash(&tx), &cp.funding);
        let htlc_key = derive_private_key(&s, holder_point, &cp.htlc_base);
        let hs = self
            .htlc_sighashes(&ctx, &keys, self.setup.counterparty_selected_contest_delay, c.feerate)
            .iter()
            .map(|(_, m)| s.sign_ecdsa(m, &htlc_key))
            .collect();
        (sig, hs)
    }
}

// ------------------------------------------------------------------------------------------
// World
// ------------------------------------------------------------------------------------------

/// height of the older checkpoint of `WorldCfg::old_checkpoint`
pub const OLD_CHECKPOINT_HEIGHT: u32 = 2_000_000;

#[derive(Clone)]
pub struct WorldCfg {
    pub pv: u32,
    pub policy: Option<SimplePolicy>,
    pub seed: [u8; 32],
    pub network: Network,
    pub oracle_pubkeys: Vec<PublicKey>,
    pub positive_approver: bool,
    pub allowlist: Vec<String>,
    /// wrap the simple validator in the on-chain validator
    pub onchain: bool,
    /// run over the transactional CloudKVVStore<MemoryKVVStore>
    pub cloud: bool,
    /// setup_channel gives every channel a permanent id that differs from its original id (the
    /// LDK flow); the channel is then in the channel map under both ids
    pub permanent_ids: bool,
    /// the signer writes through vls-persist's BackupPersister (a main and a backup store)
    pub backup: bool,
    /// the store was initialised when the network's newest built-in checkpoint was an older one: the
    /// tracker of the new node is re-based (height, tip, nothing remembered below) at a height
    /// between genesis and the newest checkpoint and stored; only meaningful on a network that has
    /// checkpoints (testnet)
    pub old_checkpoint: bool,
    /// two further ready channels that never see a transaction (ids 8 and 9), with funding outpoints
    /// that sort before and after every real one: the tracker then notifies several monitors per
    /// block, and the one a block matters to is neither the first nor the last
    pub bystanders: bool,
}

/// A persister that can be handed to the composite `BackupPersister` by value while the harness
/// keeps a handle on it.
pub struct SharedPersister(pub Arc<MemPersister>);
impl lightning_signer::SendSync for SharedPersister {}
impl Persist for SharedPersister {
    fn enter(&self) -> Result<(), lightning_signer::persist::Error> {
        self.0.enter()
    }
    fn prepare(&self) -> lightning_signer::persist::Mutations {
        self.0.prepare()
    }
    fn commit(&self) -> Result<(), lightning_signer::persist::Error> {
        self.0.commit()
    }
    fn put_batch_unlogged(&self, m: lightning_signer::persist::Mutations) -> Result<(), lightning_signer::persist::Error> {
        self.0.put_batch_unlogged(m)
    }
    fn new_node(&self, node_id: &PublicKey, config: &lightning_signer::node::NodeConfig, state: &lightning_signer::node::NodeState) -> Result<(), lightning_signer::persist::Error> {
        self.0.new_node(node_id, config, state)
    }
    fn update_node(&self, node_id: &PublicKey, state: &lightning_signer::node::NodeState) -> Result<(), lightning_signer::persist::Error> {
        self.0.update_node(node_id, state)
    }
    fn delete_node(&self, node_id: &PublicKey) -> Result<(), lightning_signer::persist::Error> {
        self.0.delete_node(node_id)
    }
    fn new_channel(&self, node_id: &PublicKey, stub: &lightning_signer::channel::ChannelStub) -> Result<(), lightning_signer::persist::Error> {
        self.0.new_channel(node_id, stub)
    }
    fn delete_channel(&self, node_id: &PublicKey, channel: &ChannelId) -> Result<(), lightning_signer::persist::Error> {
        self.0.delete_channel(node_id, channel)
    }
    fn new_tracker(&self, node_id: &PublicKey, tracker: &lightning_signer::chain::tracker::ChainTracker<lightning_signer::monitor::ChainMonitor>) -> Result<(), lightning_signer::persist::Error> {
        self.0.new_tracker(node_id, tracker)
    }
    fn update_tracker(&self, node_id: &PublicKey, tracker: &lightning_signer::chain::tracker::ChainTracker<lightning_signer::monitor::ChainMonitor>) -> Result<(), lightning_signer::persist::Error> {
        self.0.update_tracker(node_id, tracker)
    }
    fn get_tracker(
        &self,
        node_id: PublicKey,
        validator_factory: Arc<dyn ValidatorFactory>,
    ) -> Result<(lightning_signer::chain::tracker::ChainTracker<lightning_signer::monitor::ChainMonitor>, Vec<lightning_signer::persist::ChainTrackerListenerEntry>), lightning_signer::persist::Error> {
        self.0.get_tracker(node_id, validator_factory)
    }
    fn update_channel(&self, node_id: &PublicKey, channel: &Channel) -> Result<(), lightning_signer::persist::Error> {
        self.0.update_channel(node_id, channel)
    }
    fn get_channel(&self, node_id: &PublicKey, channel_id: &ChannelId) -> Result<lightning_signer::persist::model::ChannelEntry, lightning_signer::persist::Error> {
        self.0.get_channel(node_id, channel_id)
    }
    fn get_node_channels(&self, node_id: &PublicKey) -> Result<Vec<(ChannelId, lightning_signer::persist::model::ChannelEntry)>, lightning_signer::persist::Error> {
        self.0.get_node_channels(node_id)
    }
    fn update_node_allowlist(&self, node_id: &PublicKey, allowlist: Vec<String>) -> Result<(), lightning_signer::persist::Error> {
        self.0.update_node_allowlist(node_id, allowlist)
    }
    fn get_node_allowlist(&self, node_id: &PublicKey) -> Result<Vec<String>, lightning_signer::persist::Error> {
        self.0.get_node_allowlist(node_id)
    }
    fn get_nodes(&self) -> Result<Vec<(PublicKey, lightning_signer::persist::model::NodeEntry)>, lightning_signer::persist::Error> {
        self.0.get_nodes()
    }
    fn clear_database(&self) -> Result<(), lightning_signer::persist::Error> {
        self.0.clear_database()
    }
    fn on_initial_restore(&self) -> bool {
        self.0.on_initial_restore()
    }
    fn recovery_required(&self) -> bool {
        self.0.recovery_required()
    }
    fn begin_replication(&self) -> Result<lightning_signer::persist::Mutations, lightning_signer::persist::Error> {
        self.0.begin_replication()
    }
    fn signer_id(&self) -> lightning_signer::persist::SignerId {
        self.0.signer_id()
    }
}

impl Default for WorldCfg {
    fn default() -> Self {
        WorldCfg {
            pv: 6,
            policy: None,
            seed: [0x42; 32],
            network: Network::Regtest,
            oracle_pubkeys: vec![],
            positive_approver: false,
            allowlist: vec![],
            onchain: false,
            cloud: false,
            permanent_ids: false,
            backup: false,
            old_checkpoint: false,
            bystanders: false,
        }
    }
}

pub fn strict_policy(network: Network) -> SimplePolicy {
    let mut p = make_default_simple_policy(network);
    p.enforce_balance = true;
    p
}

pub struct World {
    pub cfg: WorldCfg,
    pub persister: Arc<MemPersister>,
    /// the backup store behind vls-persist's BackupPersister (cfg.backup)
    pub backup: Option<Arc<MemPersister>>,
    pub clock: Arc<ManualClock>,
    pub root: RootHandler,
    pub node: Arc<Node>,
}

pub type Dump = BTreeMap<String, (u64, Vec<u8>)>;

pub fn dump_persister(p: &MemPersister) -> Dump {
    p.0.get_prefix("").unwrap().map(|kvv| kvv.into_inner()).collect()
}

pub fn persister_from_dump(d: &Dump) -> Arc<MemPersister> {
    persister_from_dump_as(d, false)
}

pub fn persister_from_dump_as(d: &Dump, cloud: bool) -> Arc<MemPersister> {
    let store = HStore::new(cloud);
    // straight into the local store (as the daemon does when it syncs from the cloud)
    store
        .put_batch_unlogged(d.iter().map(|(k, (ver, v))| KVV(k.clone(), (*ver, v.clone()))).collect())
        .unwrap();
    Arc::new(KVVPersister(store, JsonFormat))
}

#[derive(Clone, Debug, PartialEq, Eq, Serialize, Deserialize)]
pub enum Outcome<T> {
    Ok(T),
    /// error code name + policy tag if any
    Err(String),
    Panic(String),
}

impl<T> Outcome<T> {
    pub fn is_ok(&self) -> bool {
        matches!(self, Outcome::Ok(_))
    }
    pub fn is_err(&self) -> bool {
        matches!(self, Outcome::Err(_))
    }
    pub fn is_panic(&self) -> bool {
        matches!(self, Outcome::Panic(_))
    }
    pub fn ok(&self) -> Option<&T> {
        match self {
            Outcome::Ok(t) => Some(t),
            _ => None,
        }
    }
    pub fn tag(&self) -> String {
        match self {
            Outcome::Ok(_) => "ok".into(),
            Outcome::Err(e) => format!("err:{}", e),
            Outcome::Panic(_) => "panic".into(),
        }
    }
}

thread_local! {
    pub static LAST_ERR: std::cell::RefCell<String> = std::cell::RefCell::new(String::new());
}

pub fn last_err() -> String {
    LAST_ERR.with(|c| c.borrow().clone())
}

pub fn status_kind(s: &Status) -> String {
    LAST_ERR.with(|c| *c.borrow_mut() = s.message().to_string());
    // code + policy tag (first token of the message when it looks like a policy tag)
    let msg = s.message();
    let tag = msg.split(|c: char| c == ':' || c == ' ').find(|t| t.starts_with("policy-")).unwrap_or("");
    format!("{:?}/{}", s.code(), tag)
}

pub fn herror_kind(e: &HError) -> String {
    match e {
        HError::Protocol(p) => format!("Protocol/{:?}", p).chars().take(40).collect(),
        HError::Signing(s) => status_kind(s),
        HError::Temporary(s) => format!("Temporary:{}", status_kind(s)),
    }
}

/// Call into the subject, catching panics.
pub fn call<T>(f: impl FnOnce() -> Result<T, String>) -> Outcome<T> {
    match crate::ev::catch(f) {
        Ok(Ok(t)) => Outcome::Ok(t),
        Ok(Err(e)) => Outcome::Err(e),
        Err(p) => Outcome::Panic(format!("{} at {}", p, crate::ev::last_panic_loc())),
    }
}

impl World {
    pub fn new(cfg: WorldCfg) -> World {
        let store = HStore::new(cfg.cloud);
        let persister = Arc::new(KVVPersister(store, JsonFormat));
        let backup = if cfg.backup { Some(Arc::new(KVVPersister(HStore::new(false), JsonFormat))) } else { None };
        let old = cfg.old_checkpoint;
        let bystanders = cfg.bystanders;
        let w = Self::build_with_backup(cfg, persister, backup, START_TIME);
        if bystanders {
            for (dbid, fill) in [(8u64, 0x00u8), (9, 0xff)] {
                let cp = Cp::new(120 + dbid as u8);
                assert!(w.new_channel(dbid).is_ok());
                let mut setup = w.default_setup(&cp, dbid, true, CommitmentType::StaticRemoteKey);
                setup.funding_outpoint = OutPoint { txid: Txid::from_slice(&[fill; 32]).unwrap(), vout: 1 };
                assert!(w.setup_channel(dbid, &setup).is_ok(), "bystander channel {}", dbid);
            }
            w.end_request();
        }
        if old {
            let node = w.node.clone();
            let mut t = node.get_tracker();
            assert!(t.height() > OLD_CHECKPOINT_HEIGHT, "the network has no newer checkpoint than the old one");
            let mut header = t.tip.0;
            header.nonce = 4242;
            t.height = OLD_CHECKPOINT_HEIGHT;
            t.tip = lightning_signer::chain::tracker::Headers(header, lightning_signer::bitcoin::hash_types::FilterHeader::from_byte_array([9; 32]));
            t.headers.clear();
            node.get_persister().update_tracker(&node.get_id(), &t).expect("store the re-based tracker");
            drop(t);
            w.end_request();
        }
        w
    }

    pub fn validator_factory(cfg: &WorldCfg) -> Arc<dyn ValidatorFactory> {
        let simple = match &cfg.policy {
            Some(p) => SimpleValidatorFactory::new_with_policy(p.clone()),
            None => SimpleValidatorFactory::new(),
        };
        if cfg.onchain {
            Arc::new(lightning_signer::policy::onchain_validator::OnchainValidatorFactory::new_with_simple_factory(simple))
        } else {
            Arc::new(simple)
        }
    }

    pub fn build(cfg: WorldCfg, persister: Arc<MemPersister>, now: u64) -> World {
        Self::build_with_backup(cfg, persister, None, now)
    }

    pub fn build_with_backup(cfg: WorldCfg, persister: Arc<MemPersister>, backup: Option<Arc<MemPersister>>, now: u64) -> World {
        let clock = Arc::new(ManualClock::new(Duration::from_secs(now)));
        let node_persister: Arc<dyn Persist> = match &backup {
            Some(b) => Arc::new(vls_persist::backup_persister::BackupPersister::new(SharedPersister(persister.clone()), SharedPersister(b.clone()))),
            None => persister.clone() as Arc<dyn Persist>,
        };
        let services = NodeServices {
            validator_factory: Self::validator_factory(&cfg),
            starting_time_factory: FixedStartingTimeFactory::new(START_TIME, 0),
            persister: node_persister,
            clock: clock.clone(),
            trusted_oracle_pubkeys: cfg.oracle_pubkeys.clone(),
        };
        let approver: Arc<dyn Approve> =
            if cfg.positive_approver { Arc::new(PositiveApprover()) } else { Arc::new(NegativeApprover()) };
        let mut init = HandlerBuilder::new(cfg.network, 0, services, cfg.seed)
            .allowlist(cfg.allowlist.clone())
            .approver(approver)
            .max_protocol_version(cfg.pv)
            .build()
            .expect("handler build");
        let init_msg = msgs::HsmdInit {
            key_version: model::Bip32KeyVersion { pubkey_version: 0, privkey_version: 0 },
            chain_params: lightning_signer::bitcoin::BlockHash::all_zeros(),
            encryption_key: None,
            dev_privkey: None,
            dev_bip32_seed: None,
            dev_channel_secrets: None,
            dev_channel_secrets_shaseed: None,
            hsm_wire_min_version: 2,
            hsm_wire_max_version: cfg.pv,
        };
        let (done, _) = init.handle(Message::HsmdInit(init_msg)).expect("init");
        assert!(done);
        let root: RootHandler = init.into();
        let node = Arc::clone(root.node());
        // building (or restoring) the node is one transaction of its own
        let _ = persister.0.prepare_request();
        persister.0.commit_request();
        World { cfg, persister, backup, clock, root, node }
    }

    /// Restart: a new signer restored from a deep copy of the store (the live one is dropped).
    pub fn restart(self) -> World {
        let now = self.now();
        let d = dump_persister(&self.persister);
        let db = self.backup.as_ref().map(|b| dump_persister(b));
        let cfg = self.cfg.clone();
        drop(self);
        let cloud = cfg.cloud;
        World::build_with_backup(cfg, persister_from_dump_as(&d, cloud), db.map(|d| persister_from_dump_as(&d, false)), now)
    }

    /// A second signer restored from a deep copy of the *backup* store alone (the main store is
    /// lost); the live one keeps running.
    pub fn clone_restored_from_backup(&self) -> Option<World> {
        let b = self.backup.as_ref()?;
        let d = dump_persister(b);
        let mut cfg = self.cfg.clone();
        cfg.backup = false;
        Some(World::build(cfg, persister_from_dump_as(&d, false), self.now()))
    }

    /// A second signer restored from a deep copy of the store; the live one keeps running.
    pub fn clone_restored(&self) -> World {
        let d = dump_persister(&self.persister);
        World::build(self.cfg.clone(), persister_from_dump_as(&d, self.cfg.cloud), self.now())
    }

    /// A second signer restored from a copy of the local store with `muts` applied on top: what a
    /// restart finds when the crash came after the mutations reached the cloud store and before
    /// the local commit (the daemon then syncs the local store from the cloud).
    pub fn clone_restored_with(&self, muts: &[(String, (u64, Vec<u8>))]) -> World {
        let mut d = dump_persister(&self.persister);
        for (k, (ver, v)) in muts {
            d.insert(k.clone(), (*ver, v.clone()));
        }
        World::build(self.cfg.clone(), persister_from_dump_as(&d, self.cfg.cloud), self.now())
    }

    /// End of a request in cloud mode: prepare (returns the mutations) ... commit.
    pub fn prepare_request(&self) -> Option<Vec<(String, (u64, Vec<u8>))>> {
        self.persister.0.prepare_request()
    }
    pub fn commit_request(&self) {
        self.persister.0.commit_request()
    }
    pub fn end_request(&self) -> Option<Vec<(String, (u64, Vec<u8>))>> {
        let m = self.prepare_request();
        self.commit_request();
        m
    }

    pub fn now(&self) -> u64 {
        use lightning_signer::util::clock::Clock;
        self.clock.now().as_secs()
    }

    pub fn peer_id(&self) -> [u8; 33] {
        PublicKey::from_secret_key(&secp(), &sk(200)).serialize()
    }

    pub fn channel_id(&self, dbid: u64) -> ChannelId {
        ChannelId::new_from_peer_id_and_oid(&self.peer_id(), dbid)
    }

    pub fn chan_handler(&self, dbid: u64) -> ChannelHandler {
        self.root.for_new_client(dbid, PubKey(self.peer_id()), dbid)
    }

    /// send a message to the root handler, decode the reply through the wire codec
    pub fn root_msg(&self, m: Message) -> Outcome<Message> {
        call(|| match self.root.handle(m) {
            Ok(r) => Ok(msgs::from_vec(r.as_vec()).expect("reply decodes")),
            Err(e) => Err(herror_kind(&e)),
        })
    }

    pub fn chan_msg(&self, dbid: u64, m: Message) -> Outcome<Message> {
        let h = self.chan_handler(dbid);
        call(|| match h.handle(m) {
            Ok(r) => Ok(msgs::from_vec(r.as_vec()).expect("reply decodes")),
            Err(e) => Err(herror_kind(&e)),
        })
    }

    pub fn new_channel(&self, dbid: u64) -> Outcome<Message> {
        self.root_msg(Message::NewChannel(msgs::NewChannel { peer_id: PubKey(self.peer_id()), dbid }))
    }

    pub fn forget_channel(&self, dbid: u64) -> Outcome<Message> {
        self.root_msg(Message::ForgetChannel(msgs::ForgetChannel {
            node_id: PubKey(self.peer_id()),
            dbid,
        }))
    }

    pub fn holder_basepoints(&self, dbid: u64) -> Option<ChannelPublicKeys> {
        self.node.with_channel_base(&self.channel_id(dbid), |b| Ok(b.get_channel_basepoints())).ok()
    }

    pub fn default_setup(&self, cp: &Cp, dbid: u64, outbound: bool, ctype: CommitmentType) -> ChannelSetup {
        ChannelSetup {
            is_outbound: outbound,
            channel_value_sat: CHANNEL_VALUE,
            push_value_msat: 0,
            funding_outpoint: OutPoint {
                txid: Txid::from_slice(&[dbid as u8 + 0x20; 32]).unwrap(),
                vout: 0,
            },
            holder_selected_contest_delay: 6,
            holder_shutdown_script: None,
            counterparty_points: cp.pubkeys(),
            counterparty_selected_contest_delay: 7,
            counterparty_shutdown_script: None,
            commitment_type: ctype,
        }
    }

    pub fn setup_channel(&self, dbid: u64, setup: &ChannelSetup) -> Outcome<()> {
        let id = self.channel_id(dbid);
        let node = self.node.clone();
        let setup = setup.clone();
        let perm = if self.cfg.permanent_ids { Some(ChannelId::new(&[0xc0u8.wrapping_add(dbid as u8); 32])) } else { None };
        call(move || {
            node.setup_channel(id, perm, setup, &DerivationPath::master())
                .map(|_| ())
                .map_err(|e| status_kind(&e))
        })
    }

    /// the channel is set up by the protocol message SetupChannel through the channel handler: the
    /// message is assembled here field by field from the setup (BOLT-9 feature vector for the
    /// channel type), the handler maps it back
    pub fn setup_channel_wire(&self, dbid: u64, setup: &ChannelSetup) -> Outcome<()> {
        use vls_protocol::serde_bolt::Octets;
        let mut bits: Vec<usize> = vec![];
        match setup.commitment_type {
            CommitmentType::Legacy => {}
            CommitmentType::StaticRemoteKey => bits.push(12),
            CommitmentType::Anchors => bits.extend([12, 20]),
            CommitmentType::AnchorsZeroFeeHtlc => bits.extend([12, 22]),
        }
        // feature bit i is bit i % 8 of the byte i / 8 counted from the end
        let len = bits.iter().map(|b| b / 8 + 1).max().unwrap_or(0);
        let mut channel_type = vec![0u8; len];
        for b in bits {
            channel_type[len - 1 - b / 8] |= 1 << (b % 8);
        }
        let cp = &setup.counterparty_points;
        let pk = |k: &PublicKey| PubKey(k.serialize());
        let m = msgs::SetupChannel {
            is_outbound: setup.is_outbound,
            channel_value: setup.channel_value_sat,
            push_value: setup.push_value_msat,
            funding_txid: setup.funding_outpoint.txid,
            funding_txout: setup.funding_outpoint.vout as u16,
            to_self_delay: setup.holder_selected_contest_delay,
            local_shutdown_script: Octets(setup.holder_shutdown_script.as_ref().map(|s| s.to_bytes()).unwrap_or_default()),
            local_shutdown_wallet_index: None,
            remote_basepoints: model::Basepoints {
                revocation: pk(&cp.revocation_basepoint.to_public_key()),
                payment: pk(&cp.payment_point),
                htlc: pk(&cp.htlc_basepoint.to_public_key()),
                delayed_payment: pk(&cp.delayed_payment_basepoint.to_public_key()),
            },
            remote_funding_pubkey: pk(&cp.funding_pubkey),
            remote_to_self_delay: setup.counterparty_selected_contest_delay,
            remote_shutdown_script: Octets(setup.counterparty_shutdown_script.as_ref().map(|s| s.to_bytes()).unwrap_or_default()),
            channel_type: Octets(channel_type),
        };
        match self.chan_msg(dbid, Message::SetupChannel(m)) {
            Outcome::Ok(Message::SetupChannelReply(_)) => Outcome::Ok(()),
            Outcome::Ok(_) => Outcome::Err("wire-reply-of-another-type".into()),
            Outcome::Err(e) => Outcome::Err(e),
            Outcome::Panic(p) => Outcome::Panic(p),
        }
    }

    pub fn with_chan<T>(&self, dbid: u64, f: impl Fn(&mut Channel) -> Result<T, Status>) -> Outcome<T> {
        let id = self.channel_id(dbid);
        let node = self.node.clone();
        call(move || node.with_channel(&id, f).map_err(|e| status_kind(&e)))
    }

    pub fn with_base<T>(
        &self,
        dbid: u64,
        f: impl Fn(&mut dyn ChannelBase) -> Result<T, Status>,
    ) -> Outcome<T> {
        let id = self.channel_id(dbid);
        let node = self.node.clone();
        call(move || node.with_channel_base(&id, f).map_err(|e| status_kind(&e)))
    }

    /// read-only peek at a ready channel (None for stubs / unknown)
    pub fn peek_chan<T>(&self, dbid: u64, f: impl FnOnce(&Channel) -> T) -> Option<T> {
        let slot = self.node.get_channel(&self.channel_id(dbid)).ok()?;
        let g = slot.lock().unwrap();
        match &*g {
            ChannelSlot::Ready(c) => Some(f(c)),
            ChannelSlot::Stub(_) => None,
        }
    }

    /// The holder's BOLT-3 per-commitment secrets, read from the channel key material directly
    /// (pure function of the keys; never through the policy path).
    pub fn holder_secret_raw(&self, dbid: u64, n: u64) -> Option<SecretKey> {
        use lightning_signer::lightning::sign::ChannelSigner;
        let slot = self.node.get_channel(&self.channel_id(dbid)).ok()?;
        let g = slot.lock().unwrap();
        let keys = match &*g {
            ChannelSlot::Ready(c) => &c.keys,
            ChannelSlot::Stub(s) => &s.keys,
        };
        let b = keys.release_commitment_secret(INITIAL_COMMITMENT_NUMBER - n).ok()?;
        SecretKey::from_slice(&b).ok()
    }

    pub fn holder_point_raw(&self, dbid: u64, n: u64) -> Option<PublicKey> {
        self.holder_secret_raw(dbid, n).map(|s| PublicKey::from_secret_key(&secp(), &s))
    }

    // ---------------- snapshots ----------------

    /// Canonical JSON of the live state (channels, node state, tracker).
    pub fn snapshot_live(&self) -> Value {
        let mut chans = serde_json::Map::new();
        {
            let channels = self.node.get_channels();
            for (id, slot) in channels.iter() {
                let g = slot.lock().unwrap();
                let v = match &*g {
                    ChannelSlot::Stub(s) => json!({"kind": "stub", "id0": s.id0.to_string(), "blockheight": s.blockheight}),
                    ChannelSlot::Ready(c) => json!({
                        "kind": "ready",
                        "id0": c.id0.to_string(),
                        "id": c.id.as_ref().map(|i| i.to_string()),
                        "setup": serde_json::to_value(&c.setup).unwrap(),
                        "estate": serde_json::to_value(&c.enforcement_state).unwrap(),
                    }),
                };
                chans.insert(id.to_string(), v);
            }
        }
        let node_state = {
            let st = self.node.get_state();
            let entry: NodeStateEntry = (&*st).into();
            let mut v = serde_json::to_value(&entry).unwrap();
            canon_node_state(&mut v, self.now());
            let mut payments: Vec<Value> = st
                .payments
                .iter()
                .map(|(h, p)| {
                    let mut inc: Vec<String> = p.incoming.iter().map(|(c, a)| format!("{}:{}", c, a)).collect();
                    let mut out: Vec<String> = p.outgoing.iter().map(|(c, a)| format!("{}:{}", c, a)).collect();
                    inc.sort();
                    out.sort();
                    json!({"hash": hex::encode(h.0), "incoming": inc, "outgoing": out, "preimage": p.preimage.map(|x| hex::encode(x.0))})
                })
                .collect();
            payments.sort_by_key(|p| p.to_string());
            let excess = st.excess_amount;
            // read from the live object, not through the storage model (see the tracker below)
            let hwm = st.dbid_high_water_mark;
            let mut invs: Vec<String> = st.invoices.iter().map(|(h, p)| format!("{}:{}:{}:{}", hex::encode(h.0), hex::encode(p.invoice_hash), p.amount_msat, p.is_fulfilled)).collect();
            invs.sort();
            let now = self.now();
            let vel = |c: &lightning_signer::util::velocity::VelocityControl| {
                let mut c = c.clone();
                if now >= c.start_sec {
                    c.insert(now, 0);
                }
                json!({"state": c.get_state(), "limit": c.limit, "bucket_interval": c.bucket_interval})
            };
            let vels = json!([vel(&st.velocity_control), vel(&st.fee_velocity_control)]);
            drop(st);
            let allow: Vec<String> = self.node.allowlist().unwrap_or_default();
            json!({"entry": v, "payments": payments, "excess_amount": excess, "allowlist": allow, "direct": {"dbid_high_water_mark": hwm, "invoices": invs, "velocity": vels}})
        };
        let tracker = {
            let t = self.node.get_tracker();
            let e: ChainTrackerEntry = (&*t).into();
            let mut v = serde_json::to_value(&e).unwrap();
            // the same fields read from the live object itself: the storage model's own conversion
            // is code under test, and a field it drops would otherwise be invisible on both sides
            // of every live / restored comparison
            use lightning_signer::bitcoin::hashes::Hash as _;
            let hdr = |h: &lightning_signer::chain::tracker::Headers| format!("{}:{}", h.0.block_hash(), hex::encode(h.1.to_byte_array()));
            v["direct"] = json!({
                "tip": hdr(&t.tip),
                "height": t.height,
                "headers": t.headers.iter().map(|h| hdr(h)).collect::<Vec<_>>(),
                "listeners": t.listeners.len(),
            });
            v
        };
        json!({"channels": chans, "node": node_state, "tracker": tracker})
    }

    /// Canonical JSON of the store: key -> parsed value (versions dropped, see DESIGN 2.2)
    pub fn snapshot_store(&self) -> Value {
        store_to_value(&dump_persister(&self.persister), self.now())
    }

    /// The velocity controls exactly as they are held live and in the store (not normalised to
    /// the current time).  Not part of the state comparison of C10 -- the pure passage of time
    /// may re-shape them -- but part of the search key of the velocity engine, because an
    /// implementation whose future depends on the stale representation must not be merged away.
    pub fn raw_velocity(&self) -> String {
        let live = {
            let st = self.node.get_state();
            let entry: NodeStateEntry = (&*st).into();
            let v = serde_json::to_value(&entry).unwrap();
            let raw = |c: &lightning_signer::util::velocity::VelocityControl| json!({"state": c.get_state(), "limit": c.limit, "bucket_interval": c.bucket_interval});
            json!([v["velocity_control"], v["fee_velocity_control"], raw(&st.velocity_control), raw(&st.fee_velocity_control)])
        };
        let mut stored = vec![];
        for (k, (_ver, v)) in dump_persister(&self.persister).iter() {
            if k.starts_with("node/state") {
                if let Ok(j) = serde_json::from_slice::<Value>(v) {
                    stored.push(json!([j["velocity_control"], j["fee_velocity_control"]]));
                }
            }
        }
        json!([live, stored]).to_string()
    }

    pub fn snapshot(&self) -> Value {
        json!({"live": self.snapshot_live(), "store": self.snapshot_store()})
    }
}

pub fn store_to_value(d: &Dump, now: u64) -> Value {
    let mut m = serde_json::Map::new();
    for (k, (_ver, v)) in d.iter() {
        let mut val = match serde_json::from_slice::<Value>(v) {
            Ok(j) => j,
            Err(_) => json!({"raw": hex::encode(v)}),
        };
        if k.starts_with("node/state") {
            canon_node_state(&mut val, now);
        }
        m.insert(k.clone(), val);
    }
    Value::Object(m)
}

/// Sort the lists that come from hash-map iteration, and normalise the velocity controls to the
/// current time (a zero-amount insert), so that pure passage of time is not a state change.
pub fn canon_node_state(v: &mut Value, now: u64) {
    if let Some(o) = v.as_object_mut() {
        for k in ["invoices", "issued_invoices", "preimages"] {
            if let Some(Value::Array(a)) = o.get_mut(k) {
                a.sort_by_key(|x| x.to_string());
            }
        }
        for k in ["velocity_control", "fee_velocity_control"] {
            if let Some(vc) = o.get_mut(k) {
                if let Ok(m) = serde_json::from_value::<vls_persist::model::VelocityControl>(vc.clone()) {
                    let mut c: lightning_signer::util::velocity::VelocityControl = m.into();
                    if now >= c.start_sec {
                        c.insert(now, 0);
                    }
                    let back: vls_persist::model::VelocityControl = c.into();
                    *vc = serde_json::to_value(&back).unwrap();
                }
            }
        }
    }
}

/// first difference between two JSON values, as a path
pub fn json_diff(a: &Value, b: &Value) -> Option<String> {
    fn rec(a: &Value, b: &Value, path: &mut Vec<String>) -> Option<String> {
        match (a, b) {
            (Value::Object(x), Value::Object(y)) => {
                for (k, va) in x {
                    match y.get(k) {
                        None => return Some(format!("{}/{}: present -> absent", path.join("/"), k)),
                        Some(vb) => {
                            path.push(k.clone());
                            let r = rec(va, vb, path);
                            path.pop();
                            if r.is_some() {
                                return r;
                            }
                        }
                    }
                }
                for k in y.keys() {
                    if !x.contains_key(k) {
                        return Some(format!("{}/{}: absent -> present", path.join("/"), k));
                    }
                }
                None
            }
            (Value::Array(x), Value::Array(y)) => {
                if x.len() != y.len() {
                    return Some(format!("{}: array length {} -> {}", path.join("/"), x.len(), y.len()));
                }
                for (i, (va, vb)) in x.iter().zip(y.iter()).enumerate() {
                    path.push(i.to_string());
                    let r = rec(va, vb, path);
                    path.pop();
                    if r.is_some() {
                        return r;
                    }
                }
                None
            }
            _ =>
                if a != b {
                    let sa: String = a.to_string().chars().take(80).collect();
                    let sb: String = b.to_string().chars().take(80).collect();
                    Some(format!("{}: {} -> {}", path.join("/"), sa, sb))
                } else {
                    None
                },
        }
    }
    rec(a, b, &mut vec![])
}

pub fn fp(v: &Value) -> String {
    let h = Sha256Hash::hash(v.to_string().as_bytes());
    hex::encode(&h.to_byte_array()[..12])
}

pub fn verify_sig(msg: &SecpMessage, sig: &Signature, pk: &PublicKey) -> bool {
    secp().verify_ecdsa(msg, sig, pk).is_ok()
}

pub fn sig_from_wire(s: &model::BitcoinSignature) -> Option<Signature> {
    Signature::from_compact(&s.signature.0).ok()
}

pub fn sig_to_wire(s: &Signature, sighash: EcdsaSighashType) -> model::BitcoinSignature {
    model::BitcoinSignature { signature: model::Signature(s.serialize_compact()), sighash: sighash as u8 }
}

pub fn locktime_zero() -> LockTime {
    LockTime::ZERO
}

pub fn unused() -> (secp256k1::Secp256k1<All>, bitcoin::Network) {
    (secp(), Network::Regtest)
}
