//! C07: mutual close pays the holder its due to an owned or allowlisted destination (DESIGN 4.3).
//!
//! Bases: channel states reached by commitment updates (balances equal in both views / differing
//! by around epsilon / an HTLC pending in one or both current commitments) x direction x upfront
//! shutdown script x entry point.  Deviations: the non-fee-payer's value around both commitments
//! +- epsilon, the fee at the edges of the range (incl. 2^32 wrap candidates), holder script
//! kind, derivation path, allowlist changes *between setup and signing*, output order, dropped
//! outputs, raw transaction fields.  Reference predicate in u128 and an independently built
//! closing transaction.

use crate::ev::*;
use crate::scenario::wallet_path;
use crate::txbase::*;
use crate::world::*;
use lightning_signer::bitcoin::absolute::LockTime;
use lightning_signer::bitcoin::bip32::DerivationPath;
use lightning_signer::bitcoin::hashes::Hash;
use lightning_signer::bitcoin::sighash::{EcdsaSighashType, SighashCache};
use lightning_signer::bitcoin::transaction::Version;
use lightning_signer::bitcoin::{Amount, ScriptBuf, Sequence, Transaction, TxIn, TxOut, Witness};
use lightning_signer::lightning::ln::chan_utils::ClosingTransaction;
use serde::{Deserialize, Serialize};
use serde_json::{json, Value};
use std::collections::BTreeSet;

pub const EPS: u64 = 1_000;

#[derive(Clone, Copy, Debug, PartialEq, Eq, Hash, Serialize, Deserialize)]
pub enum St {
    /// both sides at commitment 0
    Initial,
    /// both at 1, same balances in both views
    Equal,
    /// counterparty's view gives the counterparty d more than the holder's view
    Skew(i64),
    HtlcHolderOnly,
    HtlcCpOnly,
    HtlcBoth,
}

#[derive(Clone, Copy, Debug, PartialEq, Eq, Hash, Serialize, Deserialize)]
pub enum ScriptK {
    /// wallet address at path 5, presented with path 5
    Wallet,
    /// wallet address at path 5, presented with path 6
    WalletWrongPath,
    /// wallet address at path 5, presented without a path
    WalletNoPath,
    /// foreign script that is on the allowlist
    Allowlisted,
    /// foreign script that is not on the allowlist
    Foreign,
    /// the script fixed at channel setup (wallet path 7 or the allowlisted foreign script)
    Upfront,
    /// no holder output
    Absent,
}

#[derive(Clone, Debug, PartialEq, Eq, Hash, Serialize, Deserialize)]
pub enum Dev {
    /// non-fee-payer's value = its commitment value + delta
    NonPayer(i64),
    /// non-fee-payer gets nothing
    NonPayerZero,
    /// each side is paid what the other side is owed
    SwapValues,
    /// fee at this rate (sat per kw x estimated weight), paid by the funder
    FeeRate(u64),
    /// fee in sat
    Fee(u64),
    Script(ScriptK),
    NoCpScript,
    /// the counterparty's output pays a script the holder could claim as its own (raw entry
    /// point: the outputs may then be assigned to the parties either way round)
    CpScript(CpK),
    /// allowlist edited after setup and before signing: remove everything
    AllowlistCleared,
    /// the allowlisted script is removed (in one request with an address that was never listed)
    /// and the signer restarted before signing
    AllowlistRemovedRestart,
    /// phase 1 only: outputs in the other order
    Swap,
    /// raw tx fields (phase 1)
    TxVersion(i32),
    TxLocktime(u32),
    TxSequence(u32),
    TxPrevVout,
    ExtraOutput,
    /// phase 1: derivation paths attached to the other output
    PathsSwapped,
}

fn dev_kind(d: &Dev) -> String {
    match d {
        Dev::Script(k) => format!("Script{:?}", k),
        Dev::CpScript(k) => format!("CpScript{:?}", k),
        _ => format!("{:?}", d).split('(').next().unwrap().to_string(),
    }
}

#[derive(Clone, Copy, Debug, PartialEq, Eq, Hash, Serialize, Deserialize)]
pub enum CpK {
    /// wallet address at path 8, presented with path 8
    Wallet,
    /// wallet address at path 8, presented without a path
    WalletNoPath,
    /// the allowlisted foreign script
    Allowlisted,
}

#[derive(Clone, Debug, PartialEq, Eq, Hash, Serialize, Deserialize)]
pub struct Case {
    pub st: St,
    pub outbound: bool,
    pub anchors: bool,
    pub upfront: u8,
    pub phase1: bool,
    pub devs: Vec<Dev>,
    /// under the chain-aware validator (funding confirmed)
    #[serde(default)]
    pub onchain: bool,
    /// the policy carries a filter that demotes every tag family except the mutual-close and on-chain-format ones to a
    /// warning (the policy stays non-permissive for everything C07 names)
    #[serde(default)]
    pub filtered: bool,
    /// the request travels as the protocol message (SignMutualCloseTx2, or SignMutualCloseTx with
    /// the wallet paths as BIP-32 derivations on the PSBT outputs) through the channel handler
    #[serde(default)]
    pub wire: bool,
}

fn wire_close_sig(o: Outcome<vls_protocol::msgs::Message>) -> Outcome<lightning_signer::bitcoin::secp256k1::ecdsa::Signature> {
    match o {
        Outcome::Ok(vls_protocol::msgs::Message::SignTxReply(r)) =>
            if r.signature.sighash != EcdsaSighashType::All as u8 {
                Outcome::Err(format!("wire-reply-sighash-type:{}", r.signature.sighash))
            } else {
                match sig_from_wire(&r.signature) {
                    Some(s) => Outcome::Ok(s),
                    None => Outcome::Err("wire-reply-signature-unparsable".into()),
                }
            },
        Outcome::Ok(_) => Outcome::Err("wire-reply-of-another-type".into()),
        Outcome::Err(e) => Outcome::Err(e),
        Outcome::Panic(p) => Outcome::Panic(p),
    }
}

fn pol(filtered: bool) -> lightning_signer::policy::simple_validator::SimplePolicy {
    policy_with(|p| {
        p.epsilon_sat = EPS;
        p.min_feerate_per_kw = 500;
        p.max_feerate_per_kw = 20_000;
        if filtered {
            // the canonical-form comparison of the raw entry point reports under policy-onchain-format-standard
            p.filter = unrelated_filter(&["policy-mutual", "policy-onchain"]);
        }
    })
}

struct Views {
    /// holder commitment (holder's view) and counterparty commitment (counterparty's view)
    hc: Content,
    cc: Content,
}

fn views(v: &SetupV, st: St) -> Views {
    let ht = if v.outbound { v.value - 1_000_000 } else { 1_000_000 };
    let plain = balanced(v, ht, vec![], vec![], 1000);
    let with_htlc = balanced(v, ht, vec![H { value_sat: 20_000, hash: 2, cltv: 60 }], vec![H { value_sat: 25_000, hash: 1, cltv: 50 }], 1000);
    match st {
        St::Initial => {
            let c = balanced(v, initial_holder_total(v), vec![], vec![], 1000);
            Views { hc: c.clone(), cc: c }
        }
        St::Equal => Views { hc: plain.clone(), cc: plain },
        St::Skew(d) => {
            let mut cc = plain.clone();
            cc.to_cp = (cc.to_cp as i64 + d) as u64;
            cc.to_holder = (cc.to_holder as i64 - d) as u64;
            Views { hc: plain, cc }
        }
        St::HtlcHolderOnly => Views { hc: with_htlc, cc: plain },
        St::HtlcCpOnly => Views { hc: plain, cc: with_htlc },
        St::HtlcBoth => Views { hc: with_htlc.clone(), cc: with_htlc },
    }
}

fn cp_close_script() -> ScriptBuf {
    foreign_script(20)
}

struct Built {
    to_holder: u64,
    to_cp: u64,
    holder_script: Option<ScriptBuf>,
    cp_script: Option<ScriptBuf>,
    path: DerivationPath,
    script_kind: ScriptK,
    cleared: bool,
    upfront_script: Option<ScriptBuf>,
    cp_kind: Option<CpK>,
}

const CLOSE_WITNESS_WEIGHT: u64 = 2 + 1 + 4 + 72 + 72 + 1 + 1 + 33 + 1 + 33 + 1 + 1;

/// The closing transaction, built from first principles (BOLT-3: version 2, locktime 0, sequence
/// 0xffffffff, outputs for non-zero values ordered by value then script).
fn closing_tx(setup_outpoint: lightning_signer::bitcoin::OutPoint, to_holder: u64, hs: &Option<ScriptBuf>, to_cp: u64, cs: &Option<ScriptBuf>) -> Transaction {
    let mut outs: Vec<TxOut> = vec![];
    if to_holder > 0 {
        outs.push(TxOut { value: Amount::from_sat(to_holder), script_pubkey: hs.clone().unwrap_or_default() });
    }
    if to_cp > 0 {
        outs.push(TxOut { value: Amount::from_sat(to_cp), script_pubkey: cs.clone().unwrap_or_default() });
    }
    outs.sort_by(|a, b| a.value.cmp(&b.value).then(a.script_pubkey.as_bytes().cmp(b.script_pubkey.as_bytes())));
    Transaction {
        version: Version::TWO,
        lock_time: LockTime::ZERO,
        input: vec![TxIn { previous_output: setup_outpoint, script_sig: ScriptBuf::new(), sequence: Sequence::MAX, witness: Witness::new() }],
        output: outs,
    }
}

#[derive(Default, Debug)]
struct Res {
    class: String,
    accepted: bool,
    refused: bool,
    panic: bool,
    skipped: bool,
    ref_why: String,
    vio: Option<(String, String)>,
    calls: u64,
    cross: u64,
    mon: Vec<crate::vmc::Vio>,
}

fn run_case(case: &Case) -> Res {
    let mut r = Res::default();
    let mut v = SetupV::basic(case.anchors, case.outbound);
    v.upfront = case.upfront;
    v.onchain = case.onchain;
    let mut cfg = WorldCfg::default();
    cfg.policy = Some(pol(case.filtered));
    // allowlist at setup time: the foreign script 1 (used as upfront script and as "allowlisted")
    cfg.allowlist = vec![foreign_address(1, cfg.network)];
    let ch = match open(cfg, &v) {
        Ok(c) => c,
        Err(e) => {
            r.skipped = true;
            r.class = format!("open:{}", e);
            return r;
        }
    };
    if let Err(e) = ch.start() {
        r.skipped = true;
        r.class = format!("start:{}", e);
        return r;
    }
    let vw = views(&v, case.st);
    if case.st != St::Initial {
        let prep = ch.approve_out(&vw.hc).and_then(|_| ch.approve_out(&vw.cc)).and_then(|_| ch.holder_to_one(&vw.hc)).and_then(|_| ch.cp_to_one(&vw.cc));
        if let Err(e) = prep {
            r.skipped = true;
            r.class = format!("prefix:{}", e);
            return r;
        }
    }
    // the base close: balances of the commitments, the funder pays 1000 sat/kw
    let payer_is_holder = v.outbound;
    let (h_hc, h_cc) = (vw.hc.to_holder, vw.cc.to_holder);
    let (c_hc, c_cc) = (vw.hc.to_cp, vw.cc.to_cp);
    let mut script_kind = match case.upfront {
        0 => ScriptK::Wallet,
        _ => ScriptK::Upfront,
    };
    let mut nonpayer: i128 = if payer_is_holder { c_cc as i128 } else { h_hc as i128 };
    let mut fee: Option<u64> = None;
    let mut fee_rate: u64 = 1000;
    let mut no_cp_script = false;
    let mut cp_kind: Option<CpK> = None;
    let mut cleared = false;
    let mut removed_restart = false;
    for d in &case.devs {
        match d {
            Dev::NonPayer(x) => nonpayer += *x as i128,
            Dev::NonPayerZero => nonpayer = 0,
            Dev::FeeRate(x) => fee_rate = *x,
            Dev::Fee(x) => fee = Some(*x),
            Dev::Script(k) => script_kind = *k,
            Dev::NoCpScript => no_cp_script = true,
            Dev::CpScript(k) => cp_kind = Some(*k),
            Dev::AllowlistCleared => cleared = true,
            Dev::AllowlistRemovedRestart => {
                cleared = true;
                removed_restart = true;
            }
            _ => {}
        }
    }
    if nonpayer < 0 {
        r.skipped = true;
        r.class = "negative-value".into();
        return r;
    }
    let nonpayer = nonpayer as u64;
    let (holder_script, path) = match script_kind {
        ScriptK::Wallet => (Some(wallet_script(&ch.w, 5)), wallet_path(5)),
        ScriptK::WalletWrongPath => (Some(wallet_script(&ch.w, 5)), wallet_path(6)),
        ScriptK::WalletNoPath => (Some(wallet_script(&ch.w, 5)), DerivationPath::master()),
        ScriptK::Allowlisted => (Some(foreign_script(1)), DerivationPath::master()),
        ScriptK::Foreign => (Some(foreign_script(2)), DerivationPath::master()),
        ScriptK::Upfront => match case.upfront {
            1 => (Some(wallet_script(&ch.w, 7)), wallet_path(7)),
            2 => (Some(foreign_script(1)), DerivationPath::master()),
            _ => {
                r.skipped = true;
                r.class = "no-upfront".into();
                return r;
            }
        },
        ScriptK::Absent => (None, DerivationPath::master()),
    };
    let (cp_script, cp_path) = if no_cp_script {
        (None, DerivationPath::master())
    } else {
        match cp_kind {
            None => (Some(cp_close_script()), DerivationPath::master()),
            Some(CpK::Wallet) => (Some(wallet_script(&ch.w, 8)), wallet_path(8)),
            Some(CpK::WalletNoPath) => (Some(wallet_script(&ch.w, 8)), DerivationPath::master()),
            Some(CpK::Allowlisted) => (Some(foreign_script(1)), DerivationPath::master()),
        }
    };
    let cp_kind = if no_cp_script { None } else { cp_kind };
    // estimated weight of the two-output close (the reference uses its own weight below)
    let est_weight = 4 * (10 + 41 + 2 * 31) as u64 + CLOSE_WITNESS_WEIGHT;
    let fee = fee.unwrap_or(fee_rate * est_weight / 1000);
    let payer = match v.value.checked_sub(nonpayer).and_then(|x| x.checked_sub(fee)) {
        Some(x) => x,
        None => {
            r.skipped = true;
            r.class = "fee-exceeds-channel".into();
            return r;
        }
    };
    let (mut to_holder, mut to_cp) = if payer_is_holder { (payer, nonpayer) } else { (nonpayer, payer) };
    if case.devs.contains(&Dev::SwapValues) {
        std::mem::swap(&mut to_holder, &mut to_cp);
    }
    if holder_script.is_none() {
        // no holder output at all: the holder's share becomes fee
        to_holder = 0;
    }
    let upfront_script = ch.setup.holder_shutdown_script.clone();
    let b = Built { to_holder, to_cp, holder_script: holder_script.clone(), cp_script: cp_script.clone(), path: path.clone(), script_kind, cleared, upfront_script, cp_kind };
    let ch = if removed_restart {
        let node = ch.w.node.clone();
        let net = ch.w.cfg.network;
        let gone = vec![foreign_address(1, net), foreign_address(9, net)];
        let _ = call(move || node.remove_allowlist(&gone).map_err(|e| status_kind(&e)));
        let Chan { w, cp, setup, params, v } = ch;
        Chan { w: w.restart(), cp, setup, params, v }
    } else {
        if cleared {
            let node = ch.w.node.clone();
            let _ = call(move || node.set_allowlist(&[]).map_err(|e| status_kind(&e)));
        }
        ch
    };
    // ---------------- reference ----------------
    let refr = reference(case, &v, &vw, &b, (h_hc, h_cc, c_hc, c_cc));
    if let Err(w) = &refr {
        r.ref_why = w.clone();
    }
    // ---------------- request ----------------
    let canon = closing_tx(ch.setup.funding_outpoint, b.to_holder, &b.holder_script, b.to_cp, &b.cp_script);
    // cross-check the from-first-principles builder against LDK's on every case
    {
        let l = ClosingTransaction::new(b.to_holder, b.to_cp, b.holder_script.clone().unwrap_or_default(), b.cp_script.clone().unwrap_or_default(), ch.setup.funding_outpoint);
        r.cross += 1;
        if *l.trust().built_transaction() != canon {
            r.vio = Some(("C07:machinery:builders-disagree".into(), format!("{:?}", case)));
            return r;
        }
    }
    r.calls += 1;
    let before = if crate::monitors::grid_monitors() { Some(ch.w.snapshot()) } else { None };
    let o = if !case.phase1 {
        let (hs, cs, pth) = (b.holder_script.clone(), b.cp_script.clone(), b.path.clone());
        let (th, tc) = (b.to_holder, b.to_cp);
        if case.wire {
            use vls_protocol::serde_bolt::{ArrayBE, Octets};
            let hint: Vec<u32> = pth.into_iter().map(|c| u32::from(*c)).collect();
            wire_close_sig(ch.w.chan_msg(
                DBID,
                vls_protocol::msgs::Message::SignMutualCloseTx2(vls_protocol::msgs::SignMutualCloseTx2 {
                    to_local_value_sat: th,
                    to_remote_value_sat: tc,
                    local_script: Octets(hs.map(|s| s.to_bytes()).unwrap_or_default()),
                    remote_script: Octets(cs.map(|s| s.to_bytes()).unwrap_or_default()),
                    local_wallet_path_hint: ArrayBE(hint),
                }),
            ))
        } else {
            ch.w.with_chan(DBID, move |c| c.sign_mutual_close_tx_phase2(th, tc, &hs, &cs, &pth))
        }
    } else {
        // raw transaction with one derivation path per output
        let mut tx = canon.clone();
        let mut paths: Vec<DerivationPath> = tx
            .output
            .iter()
            .map(|o| {
                if Some(&o.script_pubkey) == b.holder_script.as_ref() && o.value.to_sat() == b.to_holder {
                    b.path.clone()
                } else if Some(&o.script_pubkey) == b.cp_script.as_ref() {
                    cp_path.clone()
                } else {
                    DerivationPath::master()
                }
            })
            .collect();
        for d in &case.devs {
            match d {
                Dev::Swap =>
                    if tx.output.len() == 2 {
                        tx.output.swap(0, 1);
                        paths.swap(0, 1);
                    } else {
                        r.skipped = true;
                    },
                Dev::PathsSwapped =>
                    if paths.len() == 2 {
                        paths.swap(0, 1);
                    } else {
                        r.skipped = true;
                    },
                Dev::TxVersion(x) => tx.version = Version(*x),
                Dev::TxLocktime(x) => tx.lock_time = LockTime::from_consensus(*x),
                Dev::TxSequence(x) => tx.input[0].sequence = Sequence(*x),
                Dev::TxPrevVout => tx.input[0].previous_output.vout += 1,
                Dev::ExtraOutput => {
                    tx.output.push(TxOut { value: Amount::from_sat(1000), script_pubkey: foreign_script(4) });
                    paths.push(DerivationPath::master());
                }
                _ => {}
            }
        }
        if r.skipped {
            r.class = "not-applicable".into();
            return r;
        }
        let tx2 = tx.clone();
        let out = if case.wire {
            use vls_protocol::serde_bolt::WithSize;
            let mut psbt = lightning_signer::bitcoin::psbt::Psbt::from_unsigned_tx(tx.clone()).expect("psbt");
            let dummy = lightning_signer::bitcoin::secp256k1::PublicKey::from_secret_key(&secp(), &sk(97));
            for (i, o) in psbt.outputs.iter_mut().enumerate() {
                if !paths[i].is_empty() {
                    o.bip32_derivation.insert(dummy, (lightning_signer::bitcoin::bip32::Fingerprint::default(), paths[i].clone()));
                }
            }
            wire_close_sig(ch.w.chan_msg(
                DBID,
                vls_protocol::msgs::Message::SignMutualCloseTx(vls_protocol::msgs::SignMutualCloseTx {
                    tx: WithSize(tx2),
                    psbt: WithSize(vls_protocol::psbt::PsbtWrapper { inner: psbt }),
                    remote_funding_key: vls_protocol::model::PubKey(ch.cp.pubkeys().funding_pubkey.serialize()),
                }),
            ))
        } else {
            ch.w.with_chan(DBID, move |c| c.sign_mutual_close_tx(&tx2, &paths))
        };
        // raw-entry clause: acceptance requires the submitted bytes to be a canonical closing
        // transaction spending the funding outpoint
        if out.is_ok() {
            let ok_form = tx.version == Version::TWO
                && tx.lock_time == LockTime::ZERO
                && tx.input.len() == 1
                && tx.input[0].previous_output == ch.setup.funding_outpoint
                && tx.input[0].sequence == Sequence::MAX
                && tx.output.len() <= 2
                && {
                    let mut s = tx.output.clone();
                    s.sort_by(|a, b| a.value.cmp(&b.value).then(a.script_pubkey.as_bytes().cmp(b.script_pubkey.as_bytes())));
                    s == tx.output
                };
            if !ok_form {
                r.vio = Some((
                    format!("C07:raw-entry-accepts-non-canonical-closing-tx:{}", case.devs.iter().map(dev_kind).collect::<Vec<_>>().join("+")),
                    format!("{:?}: sign_mutual_close_tx signed for a transaction that is not the canonical closing transaction", case),
                ));
            }
        }
        out
    };
    crate::monitors::around(&ch.w, &before, &o, if case.phase1 { "sign_mutual_close_tx" } else { "sign_mutual_close_tx_phase2" }, &mut r.mon);
    match o {
        Outcome::Ok(sig) => {
            r.accepted = true;
            r.class = "accepted".into();
            if r.vio.is_none() {
                if let Err(w) = &refr {
                    r.vio = Some((
                        format!("C07:{}:signed-although:{}", if case.phase1 { "raw" } else { "phase2" }, w),
                        format!("{:?}: close with to_holder {} ({:?}, path {}) to_counterparty {} fee {} signed although {}; commitments: holder view (holder {}, cp {}), counterparty view (holder {}, cp {})", case, b.to_holder, b.script_kind, b.path, b.to_cp, fee, w, h_hc, c_hc, h_cc, c_cc),
                    ));
                }
            }
            // the signature is over the canonical closing transaction
            let redeem = ch.params.funding_redeemscript();
            let sh = SighashCache::new(&canon).p2wsh_signature_hash(0, &redeem, Amount::from_sat(ch.setup.channel_value_sat), EcdsaSighashType::All).unwrap();
            let msg = lightning_signer::bitcoin::secp256k1::Message::from_digest(sh.to_byte_array());
            if r.vio.is_none() && !verify_sig(&msg, &sig, &ch.params.holder_pubkeys.funding_pubkey) {
                r.vio = Some(("C07:signature-not-over-canonical-closing-tx".into(), format!("{:?}: the returned signature does not verify against the closing transaction spending the funding outpoint", case)));
            }
            // closed flag, live and stored
            let live = ch.w.peek_chan(DBID, |c| c.enforcement_state.channel_closed).unwrap_or(false);
            let w2 = ch.w.clone_restored();
            let stored = w2.peek_chan(DBID, |c| c.enforcement_state.channel_closed).unwrap_or(false);
            if r.vio.is_none() && !(live && stored) {
                r.vio = Some(("C07:not-marked-closed".into(), format!("{:?}: after a successful mutual close signature channel_closed is live={} stored={}", case, live, stored)));
            }
        }
        Outcome::Err(e) => {
            r.refused = true;
            r.class = format!("refused:{}", e);
        }
        Outcome::Panic(p) => {
            r.panic = true;
            r.class = format!("panic:{}", p.chars().take(50).collect::<String>());
        }
    }
    r
}

fn within(a: u64, b: u64) -> bool {
    let d = if a > b { a - b } else { b - a };
    d <= EPS
}

/// The statement, for an explicit assignment of outputs to parties.
fn ref_assignment(v: &SetupV, vw: &Views, to_holder: u64, to_cp: u64, hs: &Option<ScriptBuf>, script_ok: bool, upfront: &Option<ScriptBuf>, weight: u128, vals: (u64, u64, u64, u64)) -> Result<(), String> {
    let p = pol(false);
    if !vw.hc.out.is_empty() || !vw.hc.inc.is_empty() || !vw.cc.out.is_empty() || !vw.cc.inc.is_empty() {
        return Err("htlc-pending".into());
    }
    let outputs = to_holder as u128 + to_cp as u128;
    if outputs > v.value as u128 {
        return Err("outputs-exceed-channel-value".into());
    }
    let fee = v.value as u128 - outputs;
    if fee * 1000 / weight > p.max_feerate_per_kw as u128 {
        return Err("fee-above-range".into());
    }
    if (fee * 1000 + 999) / weight + 1 < p.min_feerate_per_kw as u128 {
        return Err("fee-below-range".into());
    }
    let (h_hc, h_cc, c_hc, c_cc) = vals;
    if v.outbound {
        if !within(to_cp, c_cc) || !within(to_cp, c_hc) {
            return Err("counterparty-value-outside-epsilon".into());
        }
    } else if !within(to_holder, h_hc) || !within(to_holder, h_cc) {
        return Err("holder-value-outside-epsilon".into());
    }
    if to_holder > 0 && hs.is_none() {
        return Err("holder-value-without-output".into());
    }
    if hs.is_some() {
        if !script_ok {
            return Err("holder-output-not-wallet-or-allowlisted".into());
        }
        if to_holder > 0 && upfront.is_some() && hs != upfront {
            return Err("holder-output-not-upfront-script".into());
        }
    }
    Ok(())
}

fn reference(case: &Case, v: &SetupV, vw: &Views, b: &Built, vals: (u64, u64, u64, u64)) -> Result<(), String> {
    // wallet-derivable or allowlisted *now*
    let script_ok = |kind: ScriptK, upfront: u8, cleared: bool, path_given: bool| -> bool {
        let _ = path_given;
        match kind {
            ScriptK::Wallet => true,
            ScriptK::WalletWrongPath | ScriptK::WalletNoPath => false,
            ScriptK::Allowlisted => !cleared,
            ScriptK::Foreign => false,
            ScriptK::Upfront => match upfront {
                1 => true,
                _ => !cleared,
            },
            ScriptK::Absent => true,
        }
    };
    let upfront_script = b.upfront_script.clone();
    // weight of the closing transaction as it would be signed (an absent counterparty script
    // becomes an empty script in the raw transaction)
    let unsigned = closing_tx(lightning_signer::bitcoin::OutPoint::null(), b.to_holder, &b.holder_script, b.to_cp, &b.cp_script);
    let weight = (unsigned.weight().to_wu() + CLOSE_WITNESS_WEIGHT) as u128;
    let ok = script_ok(b.script_kind, case.upfront, b.cleared, true);
    let explicit = ref_assignment(v, vw, b.to_holder, b.to_cp, &b.holder_script, ok, &upfront_script, weight, vals);
    if !case.phase1 {
        return explicit;
    }
    if explicit.is_ok() {
        return explicit;
    }
    // raw entry point: the statement holds if SOME assignment of the outputs to the parties
    // satisfies it.  The other assignment gives the holder the counterparty's output and vice versa.
    let swapped_holder_script = b.cp_script.clone().filter(|_| b.to_cp > 0);
    // the counterparty's ordinary close script is neither in the wallet nor allowlisted
    let swapped_ok = match b.cp_kind {
        None => false,
        Some(CpK::Wallet) => true,
        Some(CpK::WalletNoPath) => false,
        Some(CpK::Allowlisted) => !b.cleared,
    };
    let other = ref_assignment(v, vw, b.to_cp, b.to_holder, &swapped_holder_script, swapped_ok, &upfront_script, weight, vals);
    if other.is_ok() {
        return other;
    }
    explicit
}

fn alphabet(case: &Case) -> Vec<Dev> {
    let p = pol(false);
    let mut v = vec![];
    let e = EPS as i64;
    for d in [-e - 1, -e, -1, 1, e, e + 1] {
        v.push(Dev::NonPayer(d));
    }
    v.push(Dev::NonPayerZero);
    v.push(Dev::SwapValues);
    for r in [p.min_feerate_per_kw as u64 - 2, p.min_feerate_per_kw as u64, p.max_feerate_per_kw as u64, p.max_feerate_per_kw as u64 + 2, 0] {
        v.push(Dev::FeeRate(r));
    }
    v.push(Dev::Fee(900_000));
    for k in [ScriptK::Wallet, ScriptK::WalletWrongPath, ScriptK::WalletNoPath, ScriptK::Allowlisted, ScriptK::Foreign, ScriptK::Upfront, ScriptK::Absent] {
        if k == ScriptK::Upfront && case.upfront == 0 {
            continue;
        }
        if (case.upfront == 0 && k == ScriptK::Wallet) || (case.upfront != 0 && k == ScriptK::Upfront) {
            continue;
        }
        v.push(Dev::Script(k));
    }
    v.push(Dev::NoCpScript);
    for k in [CpK::Wallet, CpK::WalletNoPath, CpK::Allowlisted] {
        v.push(Dev::CpScript(k));
    }
    v.push(Dev::AllowlistCleared);
    v.push(Dev::AllowlistRemovedRestart);
    if case.phase1 {
        v.push(Dev::Swap);
        v.push(Dev::PathsSwapped);
        v.push(Dev::TxVersion(1));
        v.push(Dev::TxLocktime(1));
        v.push(Dev::TxSequence(0xffff_fffd));
        v.push(Dev::TxPrevVout);
        v.push(Dev::ExtraOutput);
    }
    v
}

fn all_cases(tier: Tier) -> (Vec<Case>, Vec<Case>) {
    let e = EPS as i64;
    let states = vec![St::Initial, St::Equal, St::Skew(e - 1), St::Skew(e), St::Skew(e + 1), St::Skew(-e - 1), St::Skew(2 * e + 1), St::HtlcHolderOnly, St::HtlcCpOnly, St::HtlcBoth];
    let mut bases = vec![];
    for st in &states {
        for outbound in [true, false] {
            for anchors in [false, true] {
                if anchors && (tier == Tier::Quick) && !matches!(st, St::Equal | St::HtlcCpOnly) {
                    continue;
                }
                for upfront in 0..3u8 {
                    for phase1 in [false, true] {
                        bases.push(Case { st: *st, outbound, anchors, upfront, phase1, devs: vec![], onchain: false, filtered: false, wire: false });
                        // the same as the protocol message through the channel handler
                        if tier == Tier::Thorough || (!anchors && upfront < 2 && matches!(st, St::Initial | St::Equal | St::Skew(_) | St::HtlcCpOnly) && !matches!(st, St::Skew(x) if *x != EPS as i64 + 1 && *x != EPS as i64)) {
                            bases.push(Case { st: *st, outbound, anchors, upfront, phase1, devs: vec![], onchain: false, filtered: false, wire: true });
                        }
                        // the same with the other tag families demoted to warnings
                        if !anchors && (tier == Tier::Thorough || upfront == 0) && matches!(st, St::Equal | St::Skew(_) | St::HtlcCpOnly) {
                            bases.push(Case { st: *st, outbound, anchors, upfront, phase1, devs: vec![], onchain: false, filtered: true, wire: false });
                        }
                        // the same under the chain-aware validator (quick: two states, no upfront script)
                        if !anchors && (tier == Tier::Thorough || (upfront == 0 && matches!(st, St::Equal | St::HtlcCpOnly))) {
                            bases.push(Case { st: *st, outbound, anchors, upfront, phase1, devs: vec![], onchain: true, filtered: false, wire: false });
                        }
                    }
                }
            }
        }
    }
    let d = tier.pick(1, 2);
    let mut cases = vec![];
    for b in &bases {
        let a = alphabet(b);
        // quick: pairs of deviations for the states whose base close is signable and one type
        let dd = if b.wire && tier == Tier::Quick { 1 } else if tier == Tier::Quick && !b.anchors && matches!(b.st, St::Equal | St::Skew(_)) { 2 } else { d };
        for s in dev_sets(a.len(), dd) {
            if s.len() == 2 && dev_kind(&a[s[0]]).chars().take(6).collect::<String>() == dev_kind(&a[s[1]]).chars().take(6).collect::<String>() {
                continue;
            }
            let mut c = b.clone();
            c.devs = s.iter().map(|i| a[*i].clone()).collect();
            cases.push(c);
        }
    }
    (bases, cases)
}

/// the quick-tier cases with the C10 / C11 monitors around every request
pub fn monitored(wall_s: f64) -> (u64, Vec<(crate::vmc::Vio, Value)>) {
    let t0 = std::time::Instant::now();
    let (_, cases) = all_cases(Tier::Quick);
    let mut out = vec![];
    let mut n = 0u64;
    for chunk in cases.chunks(2048) {
        if t0.elapsed().as_secs_f64() > wall_s {
            break;
        }
        let rs = par_map(chunk, nthreads(), |c| run_case(c));
        for (c, r) in chunk.iter().zip(rs.into_iter()) {
            n += r.calls;
            for v in r.mon {
                out.push((v, json!({"engine": "c07", "case": c})));
            }
        }
    }
    (n, out)
}

pub fn main(tier: Tier) -> i32 {
    let mut run = Run::new("C07", tier, "model_checking", "txgrid-c07");
    let t0 = std::time::Instant::now();
    let d = tier.pick(1, 2);
    let (bases, cases) = all_cases(tier);
    let budget = tier.pick(45.0, 1500.0);
    let (mut evals, mut calls, mut acc, mut refu, mut panics, mut skipped, mut cross, mut base_acc) = (0u64, 0u64, 0u64, 0u64, 0u64, 0u64, 0u64, 0u64);
    let mut classes: BTreeSet<String> = BTreeSet::new();
    let mut skip_classes: BTreeSet<String> = BTreeSet::new();
    let mut complete = true;
    let mut done = 0usize;
    let mut samples: Vec<Value> = vec![];
    for chunk in cases.chunks(4096) {
        if t0.elapsed().as_secs_f64() > budget {
            complete = false;
            break;
        }
        let rs = par_map(chunk, nthreads(), |c| run_case(c));
        for (c, r) in chunk.iter().zip(rs.iter()) {
            done += 1;
            if r.skipped {
                skipped += 1;
                skip_classes.insert(r.class.clone());
                if r.class.starts_with("open:") || r.class.starts_with("start:") || r.class.starts_with("prefix:") {
                    machinery_failure(&format!("state prefix could not be built for {:?}: {}", c, r.class));
                }
                continue;
            }
            evals += 1;
            calls += r.calls;
            cross += r.cross;
            if r.accepted {
                acc += 1;
                if c.devs.is_empty() {
                    base_acc += 1;
                }
                if samples.len() < 3 && !c.devs.is_empty() {
                    samples.push(json!({"accepted": c}));
                }
            }
            if r.refused {
                refu += 1;
            }
            if r.panic {
                panics += 1;
            }
            classes.insert(format!("{:?}|{}|{}|{}|{}|{}|{}", c.st, c.outbound, c.upfront, c.phase1, c.devs.iter().map(dev_kind).collect::<Vec<_>>().join("+"), r.class, r.ref_why));
            if let Some((k, w)) = &r.vio {
                if k.starts_with("C07:machinery") {
                    machinery_failure(&format!("{} {}", k, w));
                }
                run.violation(k, w, json!({"engine": "c07", "case": c}));
            }
        }
    }
    if base_acc == 0 {
        run.vacuous("no base close was accepted");
    }
    if samples.is_empty() {
        samples.push(json!({"base": bases.first()}));
    }
    run.assume("policy: epsilon 1000 sat, fee range 500..20000 sat/kw; the counterparty's close script is foreign; wallet scripts are native addresses at paths 5 and 7; the allowlist holds one foreign script at setup time");
    run.assume("reference: no HTLC in either current commitment, fee rate within range (rounded in the accepting direction, weight = serialized size x 4 + 222), the non-fee-payer's value within epsilon of both commitments, holder output wallet-derivable at the presented path or allowlisted when the request is made and equal to the upfront script if one was fixed; for the raw entry point some assignment of outputs to parties must satisfy it");
    let cov = json!({
        "states": evals,
        "transitions": calls,
        "traces_validated_against_impl": evals,
        "evaluations": evals,
        "distinct_nontrivial": classes.len(),
        "disagreements_checked": cross,
        "exhaustive": complete,
        "bases": bases.len(),
        "bases_accepted": base_acc,
        "cases_generated": cases.len(),
        "cases_run": done,
        "not_applicable": skipped,
        "not_applicable_kinds": skip_classes,
        "accepted": acc,
        "refused": refu,
        "panics": panics,
        "deviation_bound": d,
        "samples": samples,
        "rule": "bases (channel state x direction x type x upfront script x entry point) x every set of <= d deviations; distinct = (state, direction, upfront, entry, deviation kinds, outcome class, first broken clause of the reference)",
    });
    run.finish(cov)
}

pub fn replay(v: &Value) {
    let c: Case = serde_json::from_value(v["replay"]["case"].clone()).unwrap_or_else(|e| machinery_failure(&format!("{}", e)));
    for round in 0..2 {
        let r = run_case(&c);
        println!("round {}: {:?}", round, r);
    }
}
