//! Shared base for the input-shape engines (C04, C05, C07, C09): a channel opened through the
//! public API under a chosen setup variant, contents that are balanced against the channel value,
//! and the deviation-bounded case enumeration (DESIGN 2.3).

use crate::scenario::wallet_path;
use crate::world::*;
use lightning_signer::bitcoin::hashes::Hash;
use lightning_signer::bitcoin::secp256k1::PublicKey;
use lightning_signer::bitcoin::{OutPoint, ScriptBuf, Txid};
use lightning_signer::channel::{ChannelSetup, CommitmentType};
use lightning_signer::policy::simple_validator::SimplePolicy;
use lightning_signer::wallet::Wallet;
use serde::{Deserialize, Serialize};

pub const DBID: u64 = 1;

#[derive(Clone, Debug, PartialEq, Eq, Hash, Serialize, Deserialize)]
pub struct SetupV {
    pub anchors: bool,
    pub outbound: bool,
    /// delay the holder imposes on the counterparty's to-self output
    pub hdelay: u16,
    /// delay the counterparty imposes on the holder
    pub cdelay: u16,
    pub funding_alt: bool,
    pub value: u64,
    pub push_msat: u64,
    /// 0 none, 1 wallet script (path 7), 2 foreign script that is allowlisted at setup time
    pub upfront: u8,
    /// the chain-aware validator (as vlsd installs it) instead of the simple one; the funding
    /// transaction is confirmed right after the set-up
    #[serde(default)]
    pub onchain: bool,
    /// the channel is set up by the protocol message SetupChannel through the channel handler
    /// (not with a wallet upfront script: the message carries no path for it)
    #[serde(default)]
    pub wire: bool,
}

impl SetupV {
    pub fn basic(anchors: bool, outbound: bool) -> SetupV {
        SetupV {
            anchors,
            outbound,
            hdelay: 6,
            cdelay: 7,
            funding_alt: false,
            value: CHANNEL_VALUE,
            push_msat: if outbound { 0 } else { 1_000_000_000 },
            onchain: false,
            upfront: 0,
            wire: false,
        }
    }
}

pub struct Chan {
    pub w: World,
    pub cp: Cp,
    pub setup: ChannelSetup,
    pub params: ChanParams,
    pub v: SetupV,
}

pub fn foreign_script(i: u8) -> ScriptBuf {
    // a P2WPKH to a key the wallet does not own
    let pk = PublicKey::from_secret_key(&secp(), &sk(230u8.wrapping_add(i)));
    let cpk = lightning_signer::bitcoin::CompressedPublicKey(pk);
    ScriptBuf::new_p2wpkh(&cpk.wpubkey_hash())
}

pub fn foreign_address(i: u8, network: lightning_signer::bitcoin::Network) -> String {
    lightning_signer::bitcoin::Address::from_script(&foreign_script(i), network).unwrap().to_string()
}

pub fn wallet_script(w: &World, i: u32) -> ScriptBuf {
    w.node.get_native_address(&wallet_path(i)).unwrap().script_pubkey()
}

pub fn make_setup(w: &World, cp: &Cp, v: &SetupV) -> ChannelSetup {
    let ct = if v.anchors { CommitmentType::AnchorsZeroFeeHtlc } else { CommitmentType::StaticRemoteKey };
    let mut setup = w.default_setup(cp, DBID, v.outbound, ct);
    setup.channel_value_sat = v.value;
    setup.push_value_msat = v.push_msat;
    setup.holder_selected_contest_delay = v.hdelay;
    setup.counterparty_selected_contest_delay = v.cdelay;
    if v.funding_alt {
        setup.funding_outpoint = OutPoint { txid: Txid::from_slice(&[0x5a; 32]).unwrap(), vout: 3 };
    }
    match v.upfront {
        1 => setup.holder_shutdown_script = Some(wallet_script(w, 7)),
        2 => setup.holder_shutdown_script = Some(foreign_script(1)),
        _ => {}
    }
    setup
}

/// new_channel + setup_channel through the public API
pub fn open(cfg: WorldCfg, v: &SetupV) -> Result<Chan, String> {
    let mut cfg = cfg;
    if v.onchain {
        cfg.onchain = true;
        cfg.oracle_pubkeys = vec![crate::chain::oracle_pub(0)];
    }
    let w = World::new(cfg);
    let cp = Cp::new(110);
    match w.new_channel(DBID) {
        Outcome::Ok(_) => {}
        o => return Err(format!("new_channel: {}", o.tag())),
    }
    let holder_pubkeys = w.holder_basepoints(DBID).ok_or("no basepoints")?;
    let mut setup = make_setup(&w, &cp, v);
    let mut onchain_funding = None;
    if v.onchain {
        // a first block (proofs are checked from then on) and a funding transaction that can
        // really be confirmed
        let mut chain = w.new_sim_chain();
        let b = crate::chain::make_block(&chain.tip().0, chain.height() + 1, 0, vec![]);
        if !w.connect(&mut chain, b, crate::chain::Delivery::Compact).is_ok() {
            return Err("first block refused".into());
        }
        let script = ChanParams { setup: setup.clone(), holder_pubkeys: holder_pubkeys.clone() }.funding_redeemscript().to_p2wsh();
        let ftx = crate::chain::simple_tx(vec![OutPoint { txid: Txid::from_slice(&[0x71; 32]).unwrap(), vout: if v.funding_alt { 3 } else { 0 } }], vec![(setup.channel_value_sat, script)], 0);
        setup.funding_outpoint = OutPoint { txid: ftx.compute_txid(), vout: 0 };
        onchain_funding = Some((ftx, chain));
    }
    let id = w.channel_id(DBID);
    let node = w.node.clone();
    let s2 = setup.clone();
    let path = if v.upfront == 1 { wallet_path(7) } else { lightning_signer::bitcoin::bip32::DerivationPath::master() };
    let so = if v.wire && v.upfront != 1 { w.setup_channel_wire(DBID, &setup) } else { call(move || node.setup_channel(id, None, s2, &path).map(|_| ()).map_err(|e| status_kind(&e))) };
    match so {
        Outcome::Ok(_) => {}
        o => return Err(format!("setup_channel: {}", o.tag())),
    }
    if let Some((ftx, mut chain)) = onchain_funding {
        let b = crate::chain::make_block(&chain.tip().0, chain.height() + 1, 1, vec![ftx]);
        if !w.connect(&mut chain, b, crate::chain::Delivery::Compact).is_ok() {
            return Err("funding block refused".into());
        }
    }
    let params = ChanParams { setup: setup.clone(), holder_pubkeys };
    Ok(Chan { w, cp, setup, params, v: v.clone() })
}

pub fn commitment_weight(anchors: bool, n_htlcs: usize) -> u64 {
    (if anchors { 1124 } else { 724 }) + 172 * n_htlcs as u64
}

/// A content whose outputs add up to the channel value minus a fee at `feerate` (and the two
/// anchors), the funder paying the fee.  `holder_total` is the holder's balance before fees,
/// including what it offers in HTLCs.
pub fn balanced(v: &SetupV, holder_total: u64, out: Vec<H>, inc: Vec<H>, feerate: u32) -> Content {
    let n = out.len() + inc.len();
    let fee = feerate as u64 * commitment_weight(v.anchors, n) / 1000 + if v.anchors { 660 } else { 0 };
    let out_sum: u64 = out.iter().map(|h| h.value_sat).sum();
    let inc_sum: u64 = inc.iter().map(|h| h.value_sat).sum();
    let cp_total = v.value.saturating_sub(holder_total);
    let (mut to_holder, mut to_cp) = (holder_total.saturating_sub(out_sum), cp_total.saturating_sub(inc_sum));
    if v.outbound {
        to_holder = to_holder.saturating_sub(fee);
    } else {
        to_cp = to_cp.saturating_sub(fee);
    }
    Content { to_holder, to_cp, feerate, out, inc }
}

pub fn initial_holder_total(v: &SetupV) -> u64 {
    if v.outbound {
        v.value.saturating_sub(v.push_msat / 1000)
    } else {
        v.push_msat / 1000
    }
}

impl Chan {
    pub fn initial_content(&self) -> Content {
        balanced(&self.v, initial_holder_total(&self.v), vec![], vec![], 1000)
    }

    /// holder commitment 0 validated and activated, counterparty commitment 0 signed
    pub fn start(&self) -> Result<(), String> {
        let c0 = self.initial_content();
        let p0 = self.w.holder_point_raw(DBID, 0).ok_or("no point")?;
        let (sig, hs) = self.params.cp_sign_holder_commitment(&self.cp, 0, &p0, &c0);
        match self.w.with_chan(DBID, |ch| {
            ch.validate_holder_commitment_tx_phase2(0, c0.feerate, c0.to_holder, c0.to_cp, c0.out_info(), c0.inc_info(), &sig, &hs)?;
            ch.activate_initial_commitment()
        }) {
            Outcome::Ok(_) => {}
            o => return Err(format!("validate holder 0: {} {}", o.tag(), last_err())),
        }
        let cpp0 = self.cp.point(0);
        match self.w.with_chan(DBID, |ch| ch.sign_counterparty_commitment_tx_phase2(&cpp0, 0, c0.feerate, c0.to_holder, c0.to_cp, c0.inc_info(), c0.out_info())) {
            Outcome::Ok(_) => Ok(()),
            o => Err(format!("sign cp 0: {} {}", o.tag(), last_err())),
        }
    }

    /// approve the outgoing payments of a content (keysend), so that the payment policies hold
    pub fn approve_out(&self, c: &Content) -> Result<(), String> {
        for h in &c.out {
            let node = self.w.node.clone();
            let (hash, amt) = (pay_hash(h.hash), h.value_sat.saturating_mul(1000));
            let payee = PublicKey::from_secret_key(&secp(), &sk(201));
            match call(move || node.add_keysend(payee, hash, amt).map_err(|e| status_kind(&e))) {
                Outcome::Ok(_) => {}
                o => return Err(format!("keysend: {}", o.tag())),
            }
        }
        Ok(())
    }

    /// holder moves to commitment 1 with content c (validate 1, revoke 0)
    pub fn holder_to_one(&self, c: &Content) -> Result<(), String> {
        let p1 = self.w.holder_point_raw(DBID, 1).ok_or("no point")?;
        let (sig, hs) = self.params.cp_sign_holder_commitment(&self.cp, 1, &p1, c);
        match self.w.with_chan(DBID, |ch| {
            ch.validate_holder_commitment_tx_phase2(1, c.feerate, c.to_holder, c.to_cp, c.out_info(), c.inc_info(), &sig, &hs)?;
            ch.revoke_previous_holder_commitment(1)
        }) {
            Outcome::Ok(_) => Ok(()),
            o => Err(format!("holder to 1: {} {}", o.tag(), last_err())),
        }
    }

    /// counterparty moves to commitment 1 with content c (sign 1, counterparty revokes 0)
    pub fn cp_to_one(&self, c: &Content) -> Result<(), String> {
        let cpp1 = self.cp.point(1);
        match self.w.with_chan(DBID, |ch| ch.sign_counterparty_commitment_tx_phase2(&cpp1, 1, c.feerate, c.to_holder, c.to_cp, c.inc_info(), c.out_info())) {
            Outcome::Ok(_) => {}
            o => return Err(format!("sign cp 1: {} {}", o.tag(), last_err())),
        }
        let s0 = self.cp.secret(0);
        match self.w.with_chan(DBID, |ch| ch.validate_counterparty_revocation(0, &s0)) {
            Outcome::Ok(_) => Ok(()),
            o => Err(format!("cp revokes 0: {} {}", o.tag(), last_err())),
        }
    }
}

pub fn policy_with(f: impl FnOnce(&mut SimplePolicy)) -> SimplePolicy {
    let mut p = lightning_signer::policy::simple_validator::make_default_simple_policy(lightning_signer::bitcoin::Network::Regtest);
    f(&mut p);
    p
}

/// A policy filter that is *not* permissive for the tag families in `keep`: every other family of
/// policy tags is demoted to a warning (prefix rules), and for the kept families there are decoy
/// rules that must not match anything (an exact rule for the bare family prefix, and a warn rule
/// placed *after* an error rule for the same prefix: the first match decides).
pub fn unrelated_filter(keep: &[&str]) -> lightning_signer::policy::filter::PolicyFilter {
    use lightning_signer::policy::filter::{FilterResult, FilterRule, PolicyFilter};
    let families = ["policy-commitment", "policy-channel", "policy-funding", "policy-mutual", "policy-onchain", "policy-sweep", "policy-htlc", "policy-routing", "policy-revoke", "policy-invoice", "policy-chain"];
    let mut rules = vec![];
    for k in keep {
        rules.push(FilterRule { tag: k.to_string(), is_prefix: false, action: FilterResult::Warn });
        rules.push(FilterRule { tag: format!("{}-", k), is_prefix: false, action: FilterResult::Warn });
        rules.push(FilterRule { tag: k.to_string(), is_prefix: true, action: FilterResult::Error });
        rules.push(FilterRule { tag: k.to_string(), is_prefix: true, action: FilterResult::Warn });
    }
    for f in families {
        if !keep.contains(&f) {
            rules.push(FilterRule { tag: f.to_string(), is_prefix: true, action: FilterResult::Warn });
        }
    }
    PolicyFilter { rules }
}

// ------------------------------------------------------------------------------------------
// Deviation-bounded enumeration
// ------------------------------------------------------------------------------------------

/// All index sets of size <= d over n deviation slots: (), (i), (i<j)
pub fn dev_sets(n: usize, d: usize) -> Vec<Vec<usize>> {
    let mut v = vec![vec![]];
    if d >= 1 {
        for i in 0..n {
            v.push(vec![i]);
        }
    }
    if d >= 2 {
        for i in 0..n {
            for j in i + 1..n {
                v.push(vec![i, j]);
            }
        }
    }
    v
}

/// boundary alphabet around a bound
pub fn around(b: u64) -> Vec<u64> {
    let mut v = vec![b.saturating_sub(1), b, b.saturating_add(1)];
    v.dedup();
    v
}
