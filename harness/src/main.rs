use vmc::ev::*;

fn usage() -> ! {
    eprintln!("usage: vmc <engine> <quick|thorough> | vmc replay <file>");
    std::process::exit(2)
}

fn main() {
    let args: Vec<String> = std::env::args().collect();
    if args.len() < 3 {
        usage();
    }
    quiet_panics();
    if args[1] == "replay" {
        let s = std::fs::read_to_string(&args[2]).unwrap_or_else(|e| machinery_failure(&format!("{}", e)));
        let v: serde_json::Value = serde_json::from_str(&s).unwrap_or_else(|e| machinery_failure(&format!("{}", e)));
        match v["engine"].as_str().unwrap_or("") {
            "kvvmc" => vmc::kvvmc::replay(&v),
            e => machinery_failure(&format!("no replay for engine {}", e)),
        }
        return;
    }
    let tier = match args[2].as_str() {
        "quick" => Tier::Quick,
        "thorough" => Tier::Thorough,
        _ => usage(),
    };
    let code = match args[1].as_str() {
        "c16" => vmc::kvvmc::main(tier),
        _ => usage(),
    };
    std::process::exit(code)
}
