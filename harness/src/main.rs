use vmc::ev::*;

fn usage() -> ! {
    eprintln!("usage: vmc <engine> <quick|thorough> | vmc replay <file>");
    std::process::exit(2)
}

fn main() {
    let args: Vec<String> = std::env::args().collect();
    if args.len() < 3 {
        usage();
    }
    quiet_panics();
    if args[1] == "replay" {
        let s = std::fs::read_to_string(&args[2]).unwrap_or_else(|e| machinery_failure(&format!("{}", e)));
        let v: serde_json::Value = serde_json::from_str(&s).unwrap_or_else(|e| machinery_failure(&format!("{}", e)));
        vmc::props::replay(&v);
        return;
    }
    let tier = match args[2].as_str() {
        "quick" => Tier::Quick,
        "thorough" => Tier::Thorough,
        _ => usage(),
    };
    let code = match args[1].as_str() {
        "c01" => vmc::props::c01(tier),
        "c02" => vmc::props::c02(tier),
        "c03" => vmc::props::c03(tier),
        "c06" => vmc::props::c06(tier),
        "c10" => vmc::props::c10(tier),
        "c11" => vmc::props::c11(tier),
        "c12" => vmc::props::c12(tier),
        "c13" => vmc::props::c13(tier),
        "c14" => vmc::props::c14(tier),
        "c15" => vmc::props::c15(tier),
        "c16" => vmc::props::c16(tier),
        #[cfg(vls_verif)]
        "c20" => vmc::concur::main(tier),
        #[cfg(vls_verif)]
        "c20-child" => vmc::concur::child(args[3].parse().unwrap(), tier, args[4].parse().unwrap(), args[5].parse().unwrap()),
        #[cfg(not(vls_verif))]
        "c20" | "c20-child" => machinery_failure("C20 needs the --cfg vls_verif build"),
        "c04" => vmc::c04::main(tier),
        "c05" => vmc::c05::main(tier),
        "c07" => vmc::c07::main(tier),
        "c08" => vmc::c08::main(tier),
        "c09" => vmc::c09::main(tier),
        "c19" => vmc::wirert::main(tier),
        "c17" => vmc::macenum::main(tier),
        "c18" => vmc::keysrel::main(tier),
        x if x.starts_with("dump-") => vmc::props::dump(&x[5..], tier),
        _ => usage(),
    };
    std::process::exit(code)
}
