//! C04: counterparty commitment signatures bind to the BOLT-3 transaction of the validated
//! content (DESIGN 4.1).
//!
//! For every base (setup variant x content) the semantic entry point signs on world A, the raw
//! entry point signs the canonical transaction on a twin world B, and every single-field (thorough:
//! every pair of) mutation of the transaction, of the witness scripts and of the semantic
//! arguments is presented to the raw entry point on its own fresh world.  The oracle never uses
//! Channel's helpers: the canonical transaction is assembled by the harness from the setup, the
//! basepoints and the content, and signatures are verified with secp256k1 against sighashes the
//! harness computes.

use crate::ev::*;
use crate::txbase::*;
use crate::world::*;
use lightning_signer::bitcoin::absolute::LockTime;
use lightning_signer::bitcoin::hashes::Hash;
use lightning_signer::bitcoin::secp256k1::ecdsa::Signature;
use lightning_signer::bitcoin::secp256k1::PublicKey;
use lightning_signer::bitcoin::transaction::Version;
use lightning_signer::bitcoin::{Amount, OutPoint, ScriptBuf, Sequence, Transaction, TxIn, Txid, Witness};
use lightning_signer::lightning::ln::chan_utils::TxCreationKeys;
use lightning_signer::util::test_utils::build_tx_scripts;
use serde::{Deserialize, Serialize};
use serde_json::{json, Value};
use std::collections::BTreeSet;

#[derive(Clone, Debug, PartialEq, Eq, Hash, Serialize, Deserialize)]
pub enum ContentK {
    NoHtlc,
    Offered,
    Received,
    TwoSameReceived,
    Both,
    /// an HTLC whose value is just above the trim limit
    EdgeAbove,
    /// an HTLC whose value is below the trim limit (must be refused: outputs-trimmed)
    EdgeBelow,
    /// two offered with different expiries, one received
    Three,
    /// a claimed fee rate of 10 sat/kw, at which the trim limit is 337 sat, and a received HTLC
    /// of 345 sat: below every fixed "dust" constant one might confuse the limit with
    SmallAtLowRate,
}

#[derive(Clone, Debug, PartialEq, Eq, Hash, Serialize, Deserialize)]
pub enum Mut {
    Version(i32),
    LockTime(i64),
    Sequence(i64),
    PrevTxid,
    PrevVout,
    Value(usize, i64),
    ScriptFlip(usize, usize),
    ScriptTruncate(usize),
    SwapOutputs(usize),
    DropOutput(usize),
    DupOutput(usize),
    ExtraInput,
    ExtraOutput,
    /// non-empty witness on the funding input (not covered by the txid)
    InputWitness,
    /// non-empty script_sig on the funding input
    InputScriptSig,
    WsFlip(usize, usize),
    WsEmpty(usize),
    WsSwap(usize),
    // semantic arguments
    Feerate(i64),
    CommitNum(i64),
    OtherPoint,
    HtlcDrop(usize),
    HtlcValue(usize, i64),
    HtlcCltv(usize, i64),
    HtlcHash(usize),
    HtlcSide(usize),
}

#[derive(Clone, Debug, Serialize, Deserialize)]
pub struct Case {
    pub v: SetupV,
    pub k: ContentK,
    pub muts: Vec<Mut>,
}

fn content_for(v: &SetupV, k: &ContentK) -> Content {
    // both sides own a million or more, so that either can offer HTLCs
    let ht = if v.outbound { v.value - 1_000_000 } else { 1_000_000 };
    let h = |value_sat, hash, cltv| H { value_sat, hash, cltv };
    // trim limits at feerate 1000: offered 330 + 663 = 993 (non-anchors), received 330 + 703 = 1033; anchors 354
    let (edge_above, edge_below) = if v.anchors { (354, 353) } else { (1033, 1032) };
    match k {
        ContentK::NoHtlc => balanced(v, ht, vec![], vec![], 1000),
        ContentK::Offered => balanced(v, ht, vec![h(20_000, 2, 60)], vec![], 1000),
        ContentK::Received => balanced(v, ht, vec![], vec![h(25_000, 1, 50)], 1000),
        ContentK::TwoSameReceived => balanced(v, ht, vec![], vec![h(25_000, 1, 50), h(25_000, 1, 50)], 1000),
        ContentK::Both => balanced(v, ht, vec![h(20_000, 2, 60)], vec![h(25_000, 1, 50)], 1000),
        ContentK::EdgeAbove => balanced(v, ht, vec![], vec![h(edge_above, 1, 50)], 1000),
        ContentK::EdgeBelow => balanced(v, ht, vec![], vec![h(edge_below, 1, 50)], 1000),
        ContentK::Three => balanced(v, ht, vec![h(20_000, 2, 60), h(21_000, 3, 61)], vec![h(30_000, 1, 55)], 2000),
        ContentK::SmallAtLowRate => {
            // the fee that is actually paid stays in the policy range; only the claimed rate is low
            let mut c = balanced(v, ht, vec![], vec![h(345, 1, 50)], 1000);
            c.feerate = 10;
            c
        }
    }
}

struct Canon {
    tx: Transaction,
    scripts: Vec<ScriptBuf>,
    keys: TxCreationKeys,
    htlc: Vec<(Transaction, lightning_signer::bitcoin::secp256k1::Message)>,
}

/// The canonical counterparty commitment, assembled by the harness (LDK's BOLT-3 builder fed with
/// parameters the harness derives from the setup and the basepoints).
fn canonical(ch: &Chan, n: u64, point: &PublicKey, c: &Content) -> Canon {
    let (ctx, keys) = ch.params.counterparty_commitment(n, point, c);
    let tx = ctx.trust().built_transaction().transaction.clone();
    let txp = ch.params.tx_params();
    let scripts = build_tx_scripts(
        &keys,
        c.to_cp,
        c.to_holder,
        ctx.htlcs(),
        &txp.as_counterparty_broadcastable(),
        &ch.setup.counterparty_points.funding_pubkey,
        &ch.params.holder_pubkeys.funding_pubkey,
    )
    .unwrap_or_default();
    let htlc = ch.params.htlc_sighashes(&ctx, &keys, ch.setup.holder_selected_contest_delay, c.feerate);
    Canon { tx, scripts, keys, htlc }
}

fn prepare(case_v: &SetupV, k: &ContentK) -> Result<(Chan, Content), String> {
    prepare_r(case_v, k, false)
}

/// `restart`: the signer is restarted from its store after the prefix, before the request
fn prepare_r(case_v: &SetupV, k: &ContentK, restart: bool) -> Result<(Chan, Content), String> {
    let mut ch = open(WorldCfg::default(), case_v)?;
    ch.start()?;
    let c = content_for(case_v, k);
    ch.approve_out(&c)?;
    if restart {
        let Chan { w, cp, setup, params, v } = ch;
        let w = crate::ev::catch(move || w.restart()).map_err(|p| format!("restart panicked: {}", p))?;
        ch = Chan { w, cp, setup, params, v };
    }
    Ok((ch, c))
}

struct Args {
    tx: Transaction,
    ws: Vec<Vec<u8>>,
    n: u64,
    point: PublicKey,
    c: Content,
}

fn apply_mut(a: &mut Args, m: &Mut, ch: &Chan) -> bool {
    let no = a.tx.output.len();
    match m {
        Mut::Version(v) => a.tx.version = Version(*v),
        Mut::LockTime(d) => {
            let l = a.tx.lock_time.to_consensus_u32() as i64 + d;
            a.tx.lock_time = LockTime::from_consensus(l as u32);
        }
        Mut::Sequence(d) => {
            let s = a.tx.input[0].sequence.0 as i64 + d;
            a.tx.input[0].sequence = Sequence(s as u32);
        }
        Mut::PrevTxid => {
            let mut b = a.tx.input[0].previous_output.txid.to_byte_array();
            b[0] ^= 1;
            a.tx.input[0].previous_output.txid = Txid::from_byte_array(b);
        }
        Mut::PrevVout => a.tx.input[0].previous_output.vout += 1,
        Mut::Value(i, d) => {
            if *i >= no {
                return false;
            }
            let v = a.tx.output[*i].value.to_sat() as i64 + d;
            if v < 0 {
                return false;
            }
            a.tx.output[*i].value = Amount::from_sat(v as u64);
        }
        Mut::ScriptFlip(i, pos) => {
            if *i >= no {
                return false;
            }
            let mut b = a.tx.output[*i].script_pubkey.to_bytes();
            let p = match pos {
                0 => 0,
                1 => 1,
                2 => b.len() / 2,
                _ => b.len() - 1,
            };
            b[p] ^= 0x01;
            a.tx.output[*i].script_pubkey = ScriptBuf::from_bytes(b);
        }
        Mut::ScriptTruncate(i) => {
            if *i >= no {
                return false;
            }
            let mut b = a.tx.output[*i].script_pubkey.to_bytes();
            b.pop();
            a.tx.output[*i].script_pubkey = ScriptBuf::from_bytes(b);
        }
        Mut::SwapOutputs(i) => {
            if *i + 1 >= no {
                return false;
            }
            a.tx.output.swap(*i, *i + 1);
            a.ws.swap(*i, *i + 1);
        }
        Mut::DropOutput(i) => {
            if *i >= no {
                return false;
            }
            a.tx.output.remove(*i);
            a.ws.remove(*i);
        }
        Mut::DupOutput(i) => {
            if *i >= no {
                return false;
            }
            let o = a.tx.output[*i].clone();
            let w = a.ws[*i].clone();
            a.tx.output.insert(*i, o);
            a.ws.insert(*i, w);
        }
        Mut::ExtraInput => {
            a.tx.input.push(TxIn {
                previous_output: OutPoint { txid: Txid::from_slice(&[0x66; 32]).unwrap(), vout: 0 },
                script_sig: ScriptBuf::new(),
                sequence: Sequence(0xffff_fffd),
                witness: Witness::new(),
            });
        }
        Mut::InputWitness => {
            let mut w = Witness::new();
            w.push(Vec::<u8>::new());
            a.tx.input[0].witness = w;
        }
        Mut::InputScriptSig => a.tx.input[0].script_sig = ScriptBuf::from_bytes(vec![0x51]),
        Mut::ExtraOutput => {
            a.tx.output.push(lightning_signer::bitcoin::TxOut { value: Amount::from_sat(1000), script_pubkey: foreign_script(3) });
            a.ws.push(vec![]);
        }
        Mut::WsFlip(i, pos) => {
            if *i >= no || a.ws[*i].is_empty() {
                return false;
            }
            let l = a.ws[*i].len();
            let p = match pos {
                0 => 0,
                1 => l / 2,
                _ => l - 1,
            };
            a.ws[*i][p] ^= 0x01;
        }
        Mut::WsEmpty(i) => {
            if *i >= no || a.ws[*i].is_empty() {
                return false;
            }
            a.ws[*i] = vec![];
        }
        Mut::WsSwap(i) => {
            if *i + 1 >= no || a.ws[*i] == a.ws[*i + 1] {
                return false;
            }
            a.ws.swap(*i, *i + 1);
        }
        Mut::Feerate(d) => a.c.feerate = (a.c.feerate as i64 + d) as u32,
        Mut::CommitNum(d) => {
            let n = a.n as i64 + d;
            if n < 0 {
                return false;
            }
            a.n = n as u64;
        }
        Mut::OtherPoint => a.point = ch.cp.rogue_point(a.n),
        Mut::HtlcDrop(i) => {
            let nout = a.c.out.len();
            if *i < nout {
                a.c.out.remove(*i);
            } else if *i - nout < a.c.inc.len() {
                a.c.inc.remove(*i - nout);
            } else {
                return false;
            }
        }
        Mut::HtlcValue(i, d) | Mut::HtlcCltv(i, d) => {
            let nout = a.c.out.len();
            let h = if *i < nout {
                &mut a.c.out[*i]
            } else if *i - nout < a.c.inc.len() {
                &mut a.c.inc[*i - nout]
            } else {
                return false;
            };
            if matches!(m, Mut::HtlcValue(..)) {
                h.value_sat = (h.value_sat as i64 + d) as u64;
            } else {
                h.cltv = (h.cltv as i64 + d) as u32;
            }
        }
        Mut::HtlcHash(i) => {
            let nout = a.c.out.len();
            let h = if *i < nout {
                &mut a.c.out[*i]
            } else if *i - nout < a.c.inc.len() {
                &mut a.c.inc[*i - nout]
            } else {
                return false;
            };
            h.hash = h.hash.wrapping_add(40);
        }
        Mut::HtlcSide(i) => {
            let nout = a.c.out.len();
            if *i < nout {
                let h = a.c.out.remove(*i);
                a.c.inc.push(h);
            } else if *i - nout < a.c.inc.len() {
                let h = a.c.inc.remove(*i - nout);
                a.c.out.push(h);
            } else {
                return false;
            }
        }
    }
    true
}

fn all_muts(n_out: usize, n_htlc: usize) -> Vec<Mut> {
    let mut v = vec![
        Mut::Version(1),
        Mut::Version(3),
        Mut::LockTime(1),
        Mut::LockTime(-1),
        Mut::LockTime(1 << 24),
        Mut::Sequence(1),
        Mut::Sequence(-1),
        Mut::Sequence(1 << 24),
        Mut::PrevTxid,
        Mut::PrevVout,
        Mut::ExtraInput,
        Mut::ExtraOutput,
        Mut::InputWitness,
        Mut::InputScriptSig,
        Mut::Feerate(1),
        Mut::Feerate(-1),
        Mut::Feerate(1000),
        Mut::CommitNum(1),
        Mut::CommitNum(-1),
        Mut::OtherPoint,
    ];
    for i in 0..n_out {
        v.push(Mut::Value(i, 1));
        v.push(Mut::Value(i, -1));
        v.push(Mut::Value(i, 1000));
        for p in 0..4 {
            v.push(Mut::ScriptFlip(i, p));
        }
        v.push(Mut::ScriptTruncate(i));
        v.push(Mut::SwapOutputs(i));
        v.push(Mut::DropOutput(i));
        v.push(Mut::DupOutput(i));
        for p in 0..3 {
            v.push(Mut::WsFlip(i, p));
        }
        v.push(Mut::WsEmpty(i));
        v.push(Mut::WsSwap(i));
    }
    for i in 0..n_htlc {
        v.push(Mut::HtlcDrop(i));
        v.push(Mut::HtlcValue(i, 1));
        v.push(Mut::HtlcValue(i, -1));
        v.push(Mut::HtlcCltv(i, 1));
        v.push(Mut::HtlcHash(i));
        v.push(Mut::HtlcSide(i));
    }
    v
}

#[derive(Default)]
struct Res {
    accepted: bool,
    refused: bool,
    panic: Option<String>,
    skipped: bool,
    vio: Option<(String, String)>,
    /// outcome class for the non-triviality count
    class: String,
    calls: u64,
    ldk_cross: u64,
}

fn verify_commit_sig(ch: &Chan, tx: &Transaction, sig: &Signature) -> bool {
    verify_sig(&ch.params.commitment_sighash(tx), sig, &ch.params.holder_pubkeys.funding_pubkey)
}

/// base case: semantic entry point, then raw entry point on a twin world
fn run_base(v: &SetupV, k: &ContentK, restart: bool) -> Res {
    let mut r = Res::default();
    let (ch, c) = match prepare_r(v, k, restart) {
        Ok(x) => x,
        Err(e) => {
            r.skipped = true;
            r.class = format!("prep-failed:{}", e);
            return r;
        }
    };
    let n = 1u64;
    let point = ch.cp.point(n);
    let canon = canonical(&ch, n, &point, &c);
    r.calls += 1;
    let o = ch.w.with_chan(DBID, |chn| chn.sign_counterparty_commitment_tx_phase2(&point, n, c.feerate, c.to_holder, c.to_cp, c.inc_info(), c.out_info()));
    let (sig, hsigs) = match o {
        Outcome::Ok(x) => x,
        Outcome::Err(e) => {
            r.refused = true;
            r.class = format!("phase2-refused:{}", e);
            return r;
        }
        Outcome::Panic(p) => {
            r.class = format!("phase2-panic:{}", p);
            r.panic = Some(p);
            return r;
        }
    };
    r.accepted = true;
    r.class = "accepted".into();
    if !verify_commit_sig(&ch, &canon.tx, &sig) {
        r.vio = Some(("C04:phase2:signature-not-over-canonical-tx".into(), format!("setup {:?} content {:?}: the signature returned by sign_counterparty_commitment_tx_phase2 does not verify against the BOLT-3 transaction of the content under the channel's funding key", v, k)));
        return r;
    }
    if hsigs.len() != canon.htlc.len() {
        r.vio = Some(("C04:phase2:htlc-signature-count".into(), format!("setup {:?} content {:?}: {} HTLC signatures for {} HTLC outputs", v, k, hsigs.len(), canon.htlc.len())));
        return r;
    }
    for (i, ((_, msg), hs)) in canon.htlc.iter().zip(hsigs.iter()).enumerate() {
        if !verify_sig(msg, hs, &canon.keys.countersignatory_htlc_key.to_public_key()) {
            r.vio = Some(("C04:phase2:htlc-signature-not-over-canonical-tx".into(), format!("setup {:?} content {:?}: HTLC signature {} does not verify against the BOLT-3 HTLC transaction under the holder's HTLC key", v, k, i)));
            return r;
        }
    }
    // a signature for this commitment must not verify for a neighbouring content
    let mut c2 = c.clone();
    c2.to_holder += 1;
    c2.to_cp = c2.to_cp.saturating_sub(1);
    let other = canonical(&ch, n, &point, &c2);
    r.ldk_cross += 1;
    if other.tx != canon.tx && verify_commit_sig(&ch, &other.tx, &sig) {
        r.vio = Some(("C04:phase2:signature-verifies-for-other-content".into(), "signature verifies against a different transaction".into()));
        return r;
    }
    // raw entry point on the twin world: must accept the canonical tx and return the same signature
    let (ch2, _) = match prepare_r(v, k, restart) {
        Ok(x) => x,
        Err(e) => {
            r.vio = Some(("C04:machinery".into(), e));
            return r;
        }
    };
    let ws: Vec<Vec<u8>> = canon.scripts.iter().map(|s| s.to_bytes()).collect();
    r.calls += 1;
    let o = ch2.w.with_chan(DBID, |chn| chn.sign_counterparty_commitment_tx(&canon.tx, &ws, &point, n, c.feerate, c.inc_info(), c.out_info()));
    match o {
        Outcome::Ok(s1) => {
            if s1 != sig {
                r.vio = Some(("C04:phase1-differs-from-phase2:signature".into(), format!("setup {:?} content {:?}: raw entry point returns a different signature for the canonical transaction", v, k)));
            }
        }
        Outcome::Err(e) => {
            r.vio = Some((format!("C04:phase1-refuses-canonical-tx:{}", e), format!("setup {:?} content {:?}: the semantic entry point accepted the content but the raw entry point refused the canonical transaction: {}", v, k, last_err())));
        }
        Outcome::Panic(p) => {
            r.panic = Some(p);
        }
    }
    r
}

/// mutated case through the raw entry point
fn run_mut(case: &Case) -> Res {
    let mut r = Res::default();
    let (ch, c) = match prepare(&case.v, &case.k) {
        Ok(x) => x,
        Err(e) => {
            r.skipped = true;
            r.class = format!("prep-failed:{}", e);
            return r;
        }
    };
    let n = 1u64;
    let point = ch.cp.point(n);
    let canon = canonical(&ch, n, &point, &c);
    let mut a = Args { tx: canon.tx.clone(), ws: canon.scripts.iter().map(|s| s.to_bytes()).collect(), n, point, c: c.clone() };
    for m in &case.muts {
        if !apply_mut(&mut a, m, &ch) {
            r.skipped = true;
            r.class = "mutation-not-applicable".into();
            return r;
        }
    }
    r.calls += 1;
    let (tx, ws, pn, pp, pc) = (a.tx.clone(), a.ws.clone(), a.n, a.point, a.c.clone());
    let o = ch.w.with_chan(DBID, |chn| chn.sign_counterparty_commitment_tx(&tx, &ws, &pp, pn, pc.feerate, pc.inc_info(), pc.out_info()));
    match o {
        Outcome::Err(e) => {
            r.refused = true;
            r.class = format!("refused:{}", e);
        }
        Outcome::Panic(p) => {
            r.class = "panic".into();
            r.panic = Some(p);
        }
        Outcome::Ok(sig) => {
            r.accepted = true;
            r.class = "accepted".into();
            // the content the accepted transaction implies: balances read from the outputs that
            // carry the canonical to-local / to-remote scripts for the presented point, HTLCs,
            // fee rate, number and point as presented
            let (probe, _) = ch.params.counterparty_commitment(pn, &pp, &Content { to_holder: 1_000_000, to_cp: 1_000_001, feerate: pc.feerate, out: vec![], inc: vec![] });
            let ptx = probe.trust().built_transaction().transaction.clone();
            let script_of = |val: u64| ptx.output.iter().find(|o| o.value.to_sat() == val).map(|o| o.script_pubkey.clone());
            let (s_holder, s_cp) = (script_of(1_000_000), script_of(1_000_001));
            let val_of = |s: &Option<ScriptBuf>| -> u64 {
                match s {
                    Some(s) => a.tx.output.iter().filter(|o| &o.script_pubkey == s).map(|o| o.value.to_sat()).sum(),
                    None => 0,
                }
            };
            let implied = Content { to_holder: val_of(&s_holder), to_cp: val_of(&s_cp), feerate: pc.feerate, out: pc.out.clone(), inc: pc.inc.clone() };
            let re = canonical(&ch, pn, &pp, &implied);
            r.ldk_cross += 1;
            if re.tx != a.tx {
                r.vio = Some((
                    format!("C04:raw-entry-accepts-non-canonical-tx:{}", mut_kinds(&case.muts)),
                    format!("setup {:?} content {:?} mutation {:?}: sign_counterparty_commitment_tx accepted a transaction that is not the BOLT-3 transaction of the content it implies", case.v, case.k, case.muts),
                ));
            } else if !verify_commit_sig(&ch, &re.tx, &sig) {
                r.vio = Some((
                    format!("C04:raw-entry-signature-not-over-canonical-tx:{}", mut_kinds(&case.muts)),
                    format!("setup {:?} content {:?} mutation {:?}: returned signature does not verify against the canonical transaction", case.v, case.k, case.muts),
                ));
            }
        }
    }
    r
}

fn mut_kinds(m: &[Mut]) -> String {
    let mut v: Vec<String> = m.iter().map(|x| format!("{:?}", x).split('(').next().unwrap().to_string()).collect();
    v.sort();
    v.join("+")
}

pub fn main(tier: Tier) -> i32 {
    let mut run = Run::new("C04", tier, "model_checking", "txgrid-c04");
    let mut setups = vec![];
    for anchors in [false, true] {
        for outbound in [true, false] {
            // (6,7) and (20,12) inside the policy range; (2016,4) and (4,2016) on its two edges
            for (hd, cd) in [(6u16, 7u16), (20, 12), (2016, 4), (4, 2016)] {
                for alt in [false, true] {
                    if tier == Tier::Quick && alt && hd != 6 {
                        continue;
                    }
                    if alt && (hd == 2016 || cd == 2016) {
                        continue;
                    }
                    let mut v = SetupV::basic(anchors, outbound);
                    v.hdelay = hd;
                    v.cdelay = cd;
                    v.funding_alt = alt;
                    setups.push(v.clone());
                    // set up by the SetupChannel message through the channel handler (the two
                    // delay pairs inside the range, so that a swapped pair shows)
                    if !alt && hd < 100 && cd < 100 {
                        let mut vw = v.clone();
                        vw.wire = true;
                        setups.push(vw);
                    }
                    // the base delays also under the chain-aware validator
                    if hd == 6 && !alt {
                        v.onchain = true;
                        setups.push(v);
                    }
                }
            }
        }
    }
    let kinds: Vec<ContentK> = match tier {
        Tier::Quick => vec![ContentK::NoHtlc, ContentK::Offered, ContentK::Received, ContentK::TwoSameReceived, ContentK::Both, ContentK::EdgeAbove, ContentK::EdgeBelow, ContentK::SmallAtLowRate],
        Tier::Thorough => vec![ContentK::NoHtlc, ContentK::Offered, ContentK::Received, ContentK::TwoSameReceived, ContentK::Both, ContentK::EdgeAbove, ContentK::EdgeBelow, ContentK::Three, ContentK::SmallAtLowRate],
    };
    // every base without and with a restart of the signer between the prefix and the request
    let bases: Vec<(SetupV, ContentK, bool)> = setups.iter().flat_map(|v| kinds.iter().flat_map(move |k| [false, true].into_iter().map(move |r| (v.clone(), k.clone(), r)))).collect();
    let t0 = std::time::Instant::now();
    let base_res = par_map(&bases, nthreads(), |(v, k, r)| run_base(v, k, *r));
    let mut accepted_bases = vec![];
    let mut stats: std::collections::BTreeMap<String, u64> = Default::default();
    let (mut evals, mut calls, mut cross, mut panics) = (0u64, 0u64, 0u64, 0u64);
    let mut classes: BTreeSet<String> = BTreeSet::new();
    for ((v, k, restarted), r) in bases.iter().zip(base_res.iter()) {
        evals += 1;
        calls += r.calls;
        cross += r.ldk_cross;
        *stats.entry(format!("base:{}", r.class.split(':').next().unwrap())).or_insert(0) += 1;
        if let Some(p) = &r.panic {
            panics += 1;
            run.violation("C04:panic:base", &format!("setup {:?} content {:?}: {}", v, k, p), json!({"setup": v, "content": k}));
        }
        if let Some((key, what)) = &r.vio {
            if key == "C04:machinery" {
                machinery_failure(what);
            }
            let key = if *restarted { format!("{}:after-restart", key) } else { key.clone() };
            run.violation(&key, what, json!({"engine": "c04", "setup": v, "content": k, "restart": restarted, "muts": []}));
        }
        if r.skipped {
            machinery_failure(&format!("base {:?} {:?} could not be prepared: {}", v, k, r.class));
        }
        if r.accepted {
            if !*restarted {
                accepted_bases.push((v.clone(), k.clone()));
            }
        } else if *k != ContentK::EdgeBelow && !(*k == ContentK::SmallAtLowRate && v.anchors) {
            run.vacuous(&format!("base {:?} {:?} was not accepted by the semantic entry point ({})", v, k, r.class));
        }
    }
    // mutations around every accepted base
    let d = tier.pick(1, 2);
    let mut cases: Vec<Case> = vec![];
    for (v, k) in &accepted_bases {
        let c = content_for(v, k);
        let n_htlc = c.out.len() + c.inc.len();
        let n_out = n_htlc + 2 + if v.anchors { 2 } else { 0 };
        let muts = all_muts(n_out, n_htlc);
        // thorough: pairs only for one setup per commitment type (the pair space is quadratic)
        let dd = if d == 2 && v.hdelay == 6 && !v.funding_alt { 2 } else { 1 };
        for s in dev_sets(muts.len(), dd) {
            if s.is_empty() {
                continue;
            }
            cases.push(Case { v: v.clone(), k: k.clone(), muts: s.iter().map(|i| muts[*i].clone()).collect() });
        }
    }
    let budget = tier.pick(45.0, 1500.0);
    let mut done = 0usize;
    let mut complete = true;
    let mut accepted_mut = 0u64;
    let mut refused_mut = 0u64;
    let mut skipped_mut = 0u64;
    let mut samples: Vec<Value> = vec![];
    for chunk in cases.chunks(2048) {
        if t0.elapsed().as_secs_f64() > budget {
            complete = false;
            break;
        }
        let rs = par_map(chunk, nthreads(), |c| run_mut(c));
        for (c, r) in chunk.iter().zip(rs.iter()) {
            done += 1;
            if r.skipped {
                skipped_mut += 1;
                continue;
            }
            evals += 1;
            calls += r.calls;
            cross += r.ldk_cross;
            if r.accepted {
                accepted_mut += 1;
                if samples.len() < 4 {
                    samples.push(json!({"accepted_mutation": c}));
                }
            }
            if r.refused {
                refused_mut += 1;
            }
            classes.insert(format!("{:?}|{}|{}", c.k, mut_kinds(&c.muts), r.class));
            if r.panic.is_some() {
                // a panic is neither an acceptance nor a refusal (DESIGN 2.5): counted, not a C04 violation
                panics += 1;
            }
            if let Some((key, what)) = &r.vio {
                run.violation(key, what, json!({"engine": "c04", "case": c}));
            }
        }
    }
    if samples.len() < 2 {
        if let Some(c) = cases.first() {
            samples.push(json!({"case": c}));
        }
    }
    run.assume("canonical transaction = LDK's BOLT-3 builder fed with parameters the harness assembles from the setup, the basepoints and the content (never Channel's helpers); signatures verified with secp256k1 against harness-computed sighashes");
    run.assume("mutations act on the decoded fields of the transaction (version, locktime, sequence, prevout, output values/scripts/order/count) and on witness scripts and semantic arguments; d=1 everywhere, d=2 (thorough) for the base setups");
    let cov = json!({
        "states": evals,
        "transitions": calls,
        "traces_validated_against_impl": evals,
        "evaluations": evals,
        "distinct_nontrivial": classes.len(),
        "programs": bases.len(),
        "disagreements_checked": cross,
        "exhaustive": complete,
        "bases": bases.len(),
        "bases_accepted": accepted_bases.len(),
        "mutation_cases_generated": cases.len(),
        "mutation_cases_run": done,
        "mutations_not_applicable": skipped_mut,
        "mutations_accepted": accepted_mut,
        "mutations_refused": refused_mut,
        "panics": panics,
        "base_outcomes": stats,
        "deviation_bound": d,
        "samples": samples,
        "rule": "bases = setup variants x contents; every base through both entry points; every mutation set of size <= d through the raw entry point on a fresh world; a case is distinct-nontrivial by (content kind, mutation kinds, outcome class)",
    });
    run.finish(cov)
}

pub fn replay(v: &Value) {
    let rp = &v["replay"];
    for round in 0..2 {
        if let Ok(c) = serde_json::from_value::<Case>(rp["case"].clone()) {
            let r = run_mut(&c);
            println!("round {}: class={} violation={:?} panic={:?}", round, r.class, r.vio, r.panic);
        } else {
            let sv: SetupV = serde_json::from_value(rp["setup"].clone()).unwrap_or_else(|e| machinery_failure(&format!("{}", e)));
            let k: ContentK = serde_json::from_value(rp["content"].clone()).unwrap_or_else(|e| machinery_failure(&format!("{}", e)));
            let r = run_base(&sv, &k, rp["restart"].as_bool().unwrap_or(false));
            println!("round {}: class={} violation={:?} panic={:?}", round, r.class, r.vio, r.panic);
        }
    }
}
