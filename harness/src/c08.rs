//! C08: on-chain spends lose at most a bounded fee and fund only validated channels (DESIGN 4.4).
//!
//! Bases: a wallet spend, a single-channel funding and a two-channel funding transaction x two
//! policies (max fee rate, fee velocity) x three allowlists (foreign address only / + the change
//! address itself / + an xpub and the node's own xpub) x entry point.  Deviations replace an
//! output's class, add inputs / outputs, flip segwit flags, set the non-beneficial value to the
//! edges of the fee bound (incl. 2^32 / 2^64 wrap candidates), break one funding rule, or repeat
//! the request (fee velocity).  The reference classifies every output independently and
//! evaluates the bound in u128.

use crate::ev::*;
use crate::lsync::Arc;
use crate::scenario::wallet_path;
use crate::txbase::*;
use crate::world::*;
use lightning_signer::bitcoin::absolute::LockTime;
use lightning_signer::bitcoin::bip32::{ChildNumber, DerivationPath, Xpriv, Xpub};
use lightning_signer::bitcoin::hashes::Hash;
use lightning_signer::bitcoin::transaction::Version;
use lightning_signer::bitcoin::{Address, Amount, CompressedPublicKey, Network, OutPoint, ScriptBuf, Sequence, Transaction, TxIn, TxOut, Txid, Witness};
use lightning_signer::channel::CommitmentType;
use lightning_signer::node::Node;
use lightning_signer::policy::error::ValidationErrorKind;
use lightning_signer::util::velocity::{VelocityControlIntervalType, VelocityControlSpec};
use lightning_signer::wallet::Wallet;
use serde::{Deserialize, Serialize};
use serde_json::{json, Value};
use std::collections::BTreeSet;
use vls_protocol_signer::approver::Approve;

const FEE_LIMIT_MSAT: u64 = 3_000_000; // 3000 sat per hour (policy 1)

#[derive(Clone, Copy, Debug, PartialEq, Eq, Hash, Serialize, Deserialize)]
pub enum FundK {
    Good,
    /// channel value differs from the output value
    ValueOff(i64),
    /// output script is a funding script of other keys
    WrongScript,
    Inbound,
    Push,
    /// initial holder commitment not yet counter-signed
    NotValidated,
    /// holder already past the initial commitment
    Advanced,
}

#[derive(Clone, Copy, Debug, PartialEq, Eq, Hash, Serialize, Deserialize)]
pub enum OutK {
    /// wallet address at path 3, presented with path 3 (native / wrapped / taproot)
    Wallet(u8),
    WalletWrongPath,
    WalletNoPath,
    /// the foreign script that is on the allowlist, no path
    Allowlisted,
    /// same, presented with a path
    AllowlistedWithPath,
    /// address derived from the allowlisted foreign xpub at path 4, presented with path 4 / 5 / none
    Xpub,
    XpubWrongPath,
    XpubNoPath,
    Foreign,
    ForeignWithPath,
    /// funding output of channel dbid
    Fund(u64, FundK),
}

#[derive(Clone, Debug, PartialEq, Eq, Hash, Serialize, Deserialize)]
pub struct Out {
    pub k: OutK,
    pub value: u64,
}

#[derive(Clone, Debug, PartialEq, Eq, Hash, Serialize, Deserialize)]
pub enum Dev {
    ReplaceOut(usize, OutK),
    AddOut(OutK, u64),
    DropOut(usize),
    OutValue(usize, u64),
    AddInput(bool),
    NonSegwit(usize),
    Version(i32),
    /// inputs minus beneficial outputs is set to this value (through input 0)
    NonBeneficial(u64),
    InputValue(usize, u64),
    /// the same request a second time
    Repeat,
    /// the request a second time after one hour and a second
    RepeatLater,
    /// the same request again and again one bucket interval later (refusals must not age the fee history)
    RepeatNextBucket,
    /// repeat until the allowance is used up, reload the (unchanged) policy, repeat again
    RepeatAfterReload,
    /// the allowlisted destination is removed again (in one request together with an address that
    /// was never listed) and the signer restarted before the transaction is presented
    AllowRemovedRestart,
}

fn dev_kind(d: &Dev) -> String {
    match d {
        Dev::ReplaceOut(_, k) | Dev::AddOut(k, _) => format!("{}:{}", format!("{:?}", d).split('(').next().unwrap(), format!("{:?}", k).split('(').next().unwrap()),
        _ => format!("{:?}", d).split('(').next().unwrap().to_string(),
    }
}

#[derive(Clone, Debug, PartialEq, Eq, Hash, Serialize, Deserialize)]
pub struct Case {
    pub pol: u8,
    /// 0: foreign address; 1: + the wallet change address; 2: + a foreign xpub and the node's own xpub
    pub allow: u8,
    /// 0 check_onchain_tx, 1 handle_proposed_onchain with a recording approver that declines,
    /// 2 the same with an approver that approves every unknown destination it is asked about,
    /// 3 the protocol message SignWithdrawal through the root handler (declining approver): passing
    /// means that the handler went on to sign
    pub entry: u8,
    pub inputs: Vec<(u64, bool)>,
    pub outputs: Vec<Out>,
    pub devs: Vec<Dev>,
    /// under the chain-aware validator
    #[serde(default)]
    pub onchain: bool,
}

fn pol(id: u8) -> lightning_signer::policy::simple_validator::SimplePolicy {
    policy_with(|p| {
        if id == 2 {
            // the second policy with every tag family except the on-chain one demoted to a warning
            p.filter = unrelated_filter(&["policy-onchain"]);
        }
        if id == 1 || id == 2 {
            p.max_feerate_per_kw = 5_000;
            p.fee_velocity_control = VelocityControlSpec { limit_msat: FEE_LIMIT_MSAT, interval_type: VelocityControlIntervalType::Hourly };
        }
        p.max_channel_size_sat = u64::MAX;
    })
}

fn foreign_xpub() -> Xpub {
    let x = Xpriv::new_master(Network::Regtest, &[0x5c; 32]).unwrap();
    Xpub::from_priv(&secp(), &x)
}

fn xpub_script(i: u32) -> ScriptBuf {
    let p: DerivationPath = vec![ChildNumber::from_normal_idx(i).unwrap()].into();
    let pk = foreign_xpub().derive_pub(&secp(), &p).unwrap().public_key;
    Address::p2wpkh(&CompressedPublicKey(pk), Network::Regtest).script_pubkey()
}

struct Recorder(std::sync::Mutex<Vec<Vec<usize>>>, bool);
impl lightning_signer::SendSync for Recorder {}
impl Approve for Recorder {
    fn approve_invoice(&self, _i: &lightning_signer::invoice::Invoice) -> bool {
        false
    }
    fn approve_keysend(&self, _h: lightning_signer::lightning::types::payment::PaymentHash, _a: u64) -> bool {
        false
    }
    fn approve_onchain(&self, _tx: &Transaction, _p: &[TxOut], idx: &[usize]) -> bool {
        self.0.lock().unwrap().push(idx.to_vec());
        self.1
    }
}

#[derive(Default, Debug)]
struct Res {
    class: String,
    accepted: bool,
    refused: bool,
    unknown_reported: bool,
    panic: bool,
    skipped: bool,
    ref_why: String,
    vio: Option<(String, String)>,
    calls: u64,
    mon: Vec<crate::vmc::Vio>,
}

/// what the reference knows about one output
#[derive(Clone, Debug, PartialEq)]
enum RefOut {
    Beneficial(u128),
    /// a funding output that breaks a rule
    BadFunding(String),
    /// an output presented with a path that matches nothing
    Mismatch,
    Unknown,
}

fn funding_script_for(node: &Arc<Node>, w: &World, dbid: u64, cp: &Cp) -> ScriptBuf {
    let _ = node;
    let hp = w.holder_basepoints(dbid).unwrap();
    lightning_signer::lightning::ln::chan_utils::make_funding_redeemscript(&hp.funding_pubkey, &cp.pubkeys().funding_pubkey).to_p2wsh()
}

fn run_case(case: &Case) -> Res {
    let mut r = Res::default();
    // ---- effective transaction description ----
    let mut inputs = case.inputs.clone();
    let mut outputs = case.outputs.clone();
    let mut version = 2;
    let mut nb_target: Option<u64> = None;
    let mut repeat = 0u8;
    let mut allow_removed = false;
    for d in &case.devs {
        match d {
            Dev::ReplaceOut(i, k) =>
                if *i < outputs.len() {
                    outputs[*i].k = *k;
                } else {
                    r.skipped = true;
                },
            Dev::AddOut(k, v) => outputs.push(Out { k: *k, value: *v }),
            Dev::DropOut(i) =>
                if *i < outputs.len() && outputs.len() > 1 {
                    outputs.remove(*i);
                } else {
                    r.skipped = true;
                },
            Dev::OutValue(i, v) =>
                if *i < outputs.len() {
                    outputs[*i].value = *v;
                } else {
                    r.skipped = true;
                },
            Dev::AddInput(segwit) => inputs.push((50_000, *segwit)),
            Dev::NonSegwit(i) =>
                if *i < inputs.len() {
                    inputs[*i].1 = false;
                } else {
                    r.skipped = true;
                },
            Dev::Version(v) => version = *v,
            Dev::NonBeneficial(x) => nb_target = Some(*x),
            Dev::InputValue(i, v) =>
                if *i < inputs.len() {
                    inputs[*i].0 = *v;
                } else {
                    r.skipped = true;
                },
            Dev::Repeat => repeat = 1,
            Dev::RepeatLater => repeat = 2,
            Dev::RepeatNextBucket => repeat = 3,
            Dev::RepeatAfterReload => repeat = 4,
            Dev::AllowRemovedRestart => allow_removed = true,
        }
    }
    if r.skipped {
        r.class = "not-applicable".into();
        return r;
    }
    // ---- world ----
    let mut cfg = WorldCfg::default();
    cfg.policy = Some(pol(case.pol));
    if case.onchain {
        cfg.onchain = true;
        cfg.oracle_pubkeys = vec![crate::chain::oracle_pub(0)];
    }
    let net = cfg.network;
    let w = World::new(cfg);
    let node = w.node.clone();
    let mut allow = vec![foreign_address(1, net)];
    if case.allow >= 1 {
        allow.push(node.get_native_address(&wallet_path(3)).unwrap().to_string());
    }
    if case.allow >= 2 {
        allow.push(format!("xpub:{}", foreign_xpub()));
        allow.push(format!("xpub:{}", node.get_account_extended_pubkey()));
    }
    {
        let node = node.clone();
        let a = allow.clone();
        if !call(move || node.add_allowlist(&a).map_err(|e| status_kind(&e))).is_ok() {
            r.skipped = true;
            r.class = "allowlist-failed".into();
            return r;
        }
    }
    let (w, node) = if allow_removed {
        if outputs.iter().any(|o| o.k == OutK::AllowlistedWithPath) {
            r.skipped = true;
            r.class = "not-applicable".into();
            return r;
        }
        let n2 = node.clone();
        let gone = vec![foreign_address(1, net), foreign_address(9, net)];
        if !call(move || n2.remove_allowlist(&gone).map_err(|e| status_kind(&e))).is_ok() {
            r.skipped = true;
            r.class = "allowlist-removal-failed".into();
            return r;
        }
        drop(node);
        let w = w.restart();
        let node = w.node.clone();
        (w, node)
    } else {
        (w, node)
    };
    // channels that are to be funded: created first (keys), set up once the txid is known
    let mut chans: Vec<(u64, FundK, Cp)> = vec![];
    for o in &outputs {
        if let OutK::Fund(dbid, fk) = o.k {
            if chans.iter().any(|c| c.0 == dbid) {
                r.skipped = true;
                r.class = "duplicate-channel".into();
                return r;
            }
            if !w.new_channel(dbid).is_ok() {
                r.skipped = true;
                r.class = "new-channel-failed".into();
                return r;
            }
            chans.push((dbid, fk, Cp::new(100 + dbid as u8 * 10)));
        }
    }
    // ---- outputs ----
    let mut txouts: Vec<TxOut> = vec![];
    let mut opaths: Vec<DerivationPath> = vec![];
    let mut refs: Vec<RefOut> = vec![];
    let own_xpub_allowed = case.allow >= 2;
    for o in &outputs {
        let val = o.value;
        let (script, path, rf): (ScriptBuf, DerivationPath, RefOut) = match o.k {
            OutK::Wallet(kind) => {
                let a = match kind {
                    0 => node.get_native_address(&wallet_path(3)).unwrap(),
                    1 => node.get_wrapped_address(&wallet_path(3)).unwrap(),
                    _ => node.get_taproot_address(&wallet_path(3)).unwrap(),
                };
                (a.script_pubkey(), wallet_path(3), RefOut::Beneficial(val as u128))
            }
            OutK::WalletWrongPath => {
                // wallet address of path 3 presented with path 6: not derivable at that path;
                // beneficial only if the script itself is allowlisted -- but an output with a
                // path is never matched against allowlisted scripts... except through
                // allowlist_contains, which does look at scripts first
                let s = node.get_native_address(&wallet_path(3)).unwrap().script_pubkey();
                let rf = if case.allow >= 1 { RefOut::Beneficial(val as u128) } else { RefOut::Mismatch };
                (s, wallet_path(6), rf)
            }
            OutK::WalletNoPath => {
                let s = node.get_native_address(&wallet_path(3)).unwrap().script_pubkey();
                let rf = if case.allow >= 1 { RefOut::Beneficial(val as u128) } else { RefOut::Unknown };
                (s, DerivationPath::master(), rf)
            }
            OutK::Allowlisted => (foreign_script(1), DerivationPath::master(), if allow_removed { RefOut::Unknown } else { RefOut::Beneficial(val as u128) }),
            OutK::AllowlistedWithPath => (foreign_script(1), wallet_path(3), RefOut::Beneficial(val as u128)),
            OutK::Xpub => (xpub_script(4), wallet_path(4), if case.allow >= 2 { RefOut::Beneficial(val as u128) } else { RefOut::Mismatch }),
            OutK::XpubWrongPath => (xpub_script(4), wallet_path(5), RefOut::Mismatch),
            OutK::XpubNoPath => (xpub_script(4), DerivationPath::master(), RefOut::Unknown),
            OutK::Foreign => (foreign_script(2), DerivationPath::master(), RefOut::Unknown),
            OutK::ForeignWithPath => (foreign_script(2), wallet_path(3), RefOut::Mismatch),
            OutK::Fund(dbid, fk) => {
                let cp = &chans.iter().find(|c| c.0 == dbid).unwrap().2;
                let script = match fk {
                    FundK::WrongScript => funding_script_for(&node, &w, dbid, &Cp::new(7)),
                    _ => funding_script_for(&node, &w, dbid, cp),
                };
                let rf = match fk {
                    FundK::Good => RefOut::Beneficial(val as u128),
                    FundK::ValueOff(_) => RefOut::BadFunding("funding-value-mismatch".into()),
                    FundK::WrongScript => RefOut::BadFunding("funding-script-mismatch".into()),
                    FundK::Inbound => RefOut::BadFunding("funding-inbound-channel".into()),
                    FundK::Push => RefOut::BadFunding("funding-with-push".into()),
                    FundK::NotValidated => RefOut::BadFunding("initial-commitment-not-countersigned".into()),
                    FundK::Advanced => RefOut::BadFunding("channel-already-past-initial-commitment".into()),
                };
                (script, DerivationPath::master(), rf)
            }
        };
        let _ = own_xpub_allowed;
        txouts.push(TxOut { value: Amount::from_sat(val), script_pubkey: script });
        opaths.push(path);
        refs.push(rf);
    }
    // ---- inputs; the non-beneficial target is realised through input 0 ----
    let beneficial: u128 = refs.iter().map(|x| if let RefOut::Beneficial(v) = x { *v } else { 0 }).sum();
    if let Some(t) = nb_target {
        let others: u128 = inputs.iter().skip(1).map(|i| i.0 as u128).sum();
        let want = beneficial + t as u128;
        if want < others || want - others > u64::MAX as u128 {
            r.skipped = true;
            r.class = "target-not-representable".into();
            return r;
        }
        inputs[0].0 = (want - others) as u64;
    }
    // through the protocol message, an input counts as segwit only if the previous transaction
    // travels with the PSBT and its output is a witness program: those inputs spend real
    // previous transactions; an input flagged non-segwit comes with a claimed output only
    let prev_txs: Vec<Option<Transaction>> = inputs
        .iter()
        .enumerate()
        .map(|(i, (v, sw))| {
            if case.entry >= 3 && *sw {
                let mut outs: Vec<TxOut> = (0..i).map(|j| TxOut { value: Amount::from_sat(1_000 + j as u64), script_pubkey: foreign_script(8) }).collect();
                outs.push(TxOut { value: Amount::from_sat(*v), script_pubkey: node.get_native_address(&wallet_path(40 + i as u32)).unwrap().script_pubkey() });
                Some(Transaction {
                    version: Version(2),
                    lock_time: LockTime::ZERO,
                    input: vec![TxIn { previous_output: OutPoint { txid: Txid::from_slice(&[0x70 + i as u8; 32]).unwrap(), vout: 0 }, script_sig: ScriptBuf::new(), sequence: Sequence::ZERO, witness: Witness::new() }],
                    output: outs,
                })
            } else {
                None
            }
        })
        .collect();
    let txins: Vec<TxIn> = inputs
        .iter()
        .enumerate()
        .map(|(i, _)| TxIn {
            previous_output: OutPoint { txid: prev_txs[i].as_ref().map(|t| t.compute_txid()).unwrap_or_else(|| Txid::from_slice(&[0x90 + i as u8; 32]).unwrap()), vout: i as u32 },
            script_sig: ScriptBuf::new(),
            sequence: Sequence::ZERO,
            witness: Witness::new(),
        })
        .collect();
    let tx = Transaction { version: Version(version), lock_time: LockTime::ZERO, input: txins, output: txouts };
    let txid = tx.compute_txid();
    let prev_outs: Vec<TxOut> = inputs.iter().enumerate().map(|(i, (v, _))| TxOut { value: Amount::from_sat(*v), script_pubkey: node.get_native_address(&wallet_path(40 + i as u32)).unwrap().script_pubkey() }).collect();
    let segwit: Vec<bool> = inputs.iter().map(|x| x.1).collect();
    // ---- set up the channels on their outpoints ----
    for (dbid, fk, cp) in &chans {
        let vout = outputs.iter().position(|o| matches!(o.k, OutK::Fund(d, _) if d == *dbid)).unwrap();
        let out_value = outputs[vout].value;
        let mut sv = SetupV::basic(false, !matches!(fk, FundK::Inbound));
        sv.value = match fk {
            FundK::ValueOff(d) => (out_value as i128 + *d as i128).clamp(0, u64::MAX as i128) as u64,
            _ => out_value,
        };
        sv.push_msat = match fk {
            FundK::Push => 5_000_000,
            FundK::Inbound => 1_000_000,
            _ => 0,
        };
        if sv.value < 100_000 || sv.value > 1 << 40 {
            r.skipped = true;
            r.class = "channel-value-out-of-harness-range".into();
            return r;
        }
        let mut setup = w.default_setup(cp, *dbid, sv.outbound, CommitmentType::StaticRemoteKey);
        setup.channel_value_sat = sv.value;
        setup.push_value_msat = sv.push_msat;
        setup.funding_outpoint = OutPoint { txid, vout: vout as u32 };
        let id = w.channel_id(*dbid);
        let n2 = node.clone();
        let s2 = setup.clone();
        if !call(move || n2.setup_channel(id, None, s2, &DerivationPath::master()).map(|_| ()).map_err(|e| status_kind(&e))).is_ok() {
            r.skipped = true;
            r.class = "setup-failed".into();
            return r;
        }
        if *fk != FundK::NotValidated {
            let params = ChanParams { setup: setup.clone(), holder_pubkeys: w.holder_basepoints(*dbid).unwrap() };
            let c0 = balanced(&sv, initial_holder_total(&sv), vec![], vec![], 1000);
            let p0 = w.holder_point_raw(*dbid, 0).unwrap();
            let (sig, hs) = params.cp_sign_holder_commitment(cp, 0, &p0, &c0);
            let ok = w.with_chan(*dbid, |ch| {
                ch.validate_holder_commitment_tx_phase2(0, c0.feerate, c0.to_holder, c0.to_cp, c0.out_info(), c0.inc_info(), &sig, &hs)?;
                ch.activate_initial_commitment()
            });
            if !ok.is_ok() {
                r.skipped = true;
                r.class = format!("validate-0-failed:{}", ok.tag());
                return r;
            }
            if *fk == FundK::Advanced {
                let p1 = w.holder_point_raw(*dbid, 1).unwrap();
                let (sig, hs) = params.cp_sign_holder_commitment(cp, 1, &p1, &c0);
                let ok = w.with_chan(*dbid, |ch| {
                    ch.validate_holder_commitment_tx_phase2(1, c0.feerate, c0.to_holder, c0.to_cp, c0.out_info(), c0.inc_info(), &sig, &hs)?;
                    ch.revoke_previous_holder_commitment(1)
                });
                if !ok.is_ok() {
                    r.skipped = true;
                    r.class = format!("advance-failed:{}", ok.tag());
                    return r;
                }
            }
        }
    }
    // ---- reference ----
    let p = pol(case.pol);
    let sum_in: u128 = inputs.iter().map(|i| i.0 as u128).sum();
    let funds_channel = !chans.is_empty();
    let n_in = inputs.len() as u128;
    // generous upper bound of the signed weight: every input with a 73-byte signature, a key and slack
    let w_up = tx.weight().to_wu() as u128 + 2 + n_in * (1 + 1 + 73 + 1 + 33 + 8);
    let unknown_idx: Vec<usize> = refs.iter().enumerate().filter(|(_, x)| **x == RefOut::Unknown).map(|(i, _)| i).collect();
    // outputs presented with a path that matches nothing may be refused outright (as the code
    // does) or reported as unknown as well: both satisfy the statement
    let mismatch_idx: Vec<usize> = refs.iter().enumerate().filter(|(_, x)| **x == RefOut::Mismatch).map(|(i, _)| i).collect();
    let report_ok = |got: &Vec<usize>| -> bool { unknown_idx.iter().all(|i| got.contains(i)) && got.iter().all(|i| unknown_idx.contains(i) || mismatch_idx.contains(i)) };
    let fee_ref = |prior_fees_in_window: u128| -> Result<(), String> {
        if version != 2 {
            return Err("non-standard-version".into());
        }
        for x in &refs {
            match x {
                RefOut::BadFunding(wy) => return Err(wy.clone()),
                RefOut::Mismatch => return Err("output-with-path-matches-nothing".into()),
                RefOut::Unknown => return Err("unknown-destination-not-reported".into()),
                _ => {}
            }
        }
        if funds_channel && segwit.iter().any(|s| !*s) {
            return Err("funding-with-non-segwit-input".into());
        }
        if beneficial > sum_in {
            return Err("beneficial-exceeds-inputs".into());
        }
        let nb = sum_in - beneficial;
        if nb * 1000 / w_up > p.max_feerate_per_kw as u128 {
            return Err("non-beneficial-value-above-max-feerate".into());
        }
        if (prior_fees_in_window + nb) * 1000 > p.fee_velocity_control.limit_msat as u128 {
            return Err("fee-velocity-exceeded".into());
        }
        Ok(())
    };
    // what must still hold when an operator approved the unknown destinations
    let approved_ref = || -> Result<(), String> {
        if version != 2 {
            return Err("non-standard-version".into());
        }
        for x in &refs {
            match x {
                RefOut::BadFunding(wy) => return Err(wy.clone()),
                RefOut::Mismatch => return Err("output-with-path-matches-nothing".into()),
                _ => {}
            }
        }
        if funds_channel && segwit.iter().any(|s| !*s) {
            return Err("funding-with-non-segwit-input".into());
        }
        Ok(())
    };
    // ---- requests ----
    let rounds = match repeat {
        0 => 1,
        3 => 22,
        4 => 10,
        _ => 2,
    };
    let mut prior: u128 = 0;
    let mut advanced = false;
    for round in 0..rounds {
        if round == 1 && repeat == 2 {
            use lightning_signer::util::clock::Clock;
            let now = w.clock.now();
            w.clock.set(now + std::time::Duration::from_secs(3601 + 300));
            prior = 0;
        }
        if repeat == 4 && !advanced && r.refused {
            // the runtime hook for a policy reload, with the policy unchanged: the fees already
            // counted stay counted
            node.update_velocity_controls();
            advanced = true;
        }
        if repeat == 3 && !advanced && r.refused {
            // the request was repeated until the allowance ran out; one bucket (300 s) later
            // everything accepted so far is still inside the hourly window, so it has to stay
            // refused however often it is proposed again
            use lightning_signer::util::clock::Clock;
            let now = w.clock.now();
            w.clock.set(now + std::time::Duration::from_secs(301));
            advanced = true;
        }
        let expect = fee_ref(prior);
        r.calls += 1;
        let (tx2, sw, po, op) = (tx.clone(), segwit.clone(), prev_outs.clone(), opaths.clone());
        let ucks: Vec<Option<(lightning_signer::bitcoin::secp256k1::SecretKey, Vec<Vec<u8>>)>> = vec![None; inputs.len()];
        let n2 = node.clone();
        let before = if crate::monitors::grid_monitors() { Some(w.snapshot()) } else { None };
        if case.entry >= 3 {
            // SignWithdrawal (entry 3) or its alias SignHtlcTxMingle (entry 4): PSBT with the previous transactions (or the claimed outputs), the
            // wallet paths on the outputs and the node's own inputs listed as UTXOs; encoded and
            // decoded through the wire codec, as the segwit flags only exist after decoding
            use lightning_signer::bitcoin::bip32::Fingerprint;
            use lightning_signer::bitcoin::psbt::Psbt;
            use vls_protocol::msgs::{self, Message, SerBolt};
            use vls_protocol::psbt::StreamedPSBT;
            use vls_protocol::serde_bolt::{Array, Octets, WithSize};
            let _ = (n2, sw, ucks);
            let mut psbt = Psbt::from_unsigned_tx(tx2.clone()).expect("psbt");
            for (i, inp) in psbt.inputs.iter_mut().enumerate() {
                match &prev_txs[i] {
                    Some(t) => inp.non_witness_utxo = Some(t.clone()),
                    None => inp.witness_utxo = Some(po[i].clone()),
                }
            }
            let dummy = lightning_signer::bitcoin::secp256k1::PublicKey::from_secret_key(&secp(), &sk(98));
            for (j, o) in psbt.outputs.iter_mut().enumerate() {
                if !op[j].is_empty() {
                    o.bip32_derivation.insert(dummy, (Fingerprint::default(), op[j].clone()));
                }
            }
            let utxos: Vec<vls_protocol::model::Utxo> = tx2
                .input
                .iter()
                .enumerate()
                .map(|(i, ti)| vls_protocol::model::Utxo {
                    txid: ti.previous_output.txid,
                    outnum: ti.previous_output.vout,
                    amount: po[i].value.to_sat(),
                    keyindex: 40 + i as u32,
                    is_p2sh: false,
                    script: Octets(po[i].script_pubkey.to_bytes()),
                    close_info: None,
                    is_in_coinbase: false,
                })
                .collect();
            let mname = if case.entry == 3 { "SignWithdrawal" } else { "SignHtlcTxMingle" };
            let bytes = if case.entry == 3 {
                msgs::SignWithdrawal { utxos: Array(utxos), psbt: WithSize(StreamedPSBT::new(psbt)) }.as_vec()
            } else {
                // the peer / channel named in the request play no part in the validation
                msgs::SignHtlcTxMingle { peer_id: vls_protocol::model::PubKey(dummy.serialize()), dbid: 1, utxos: Array(utxos), psbt: WithSize(StreamedPSBT::new(psbt)) }.as_vec()
            };
            let o = match msgs::from_vec(bytes) {
                Ok(m @ Message::SignWithdrawal(_)) => w.root_msg(m),
                Ok(m @ Message::SignHtlcTxMingle(_)) => w.root_msg(m),
                Ok(_) => Outcome::Err("decoded-as-another-message".into()),
                Err(e) => Outcome::Err(format!("does-not-decode:{:?}", e).chars().take(40).collect()),
            };
            if before.is_some() {
                let as_refusal: Outcome<()> = match &o {
                    Outcome::Ok(_) => Outcome::Ok(()),
                    Outcome::Err(e) => Outcome::Err(e.clone()),
                    Outcome::Panic(p) => Outcome::Panic(p.clone()),
                };
                crate::monitors::around(&w, &before, &as_refusal, mname, &mut r.mon);
            }
            match o {
                Outcome::Ok(Message::SignWithdrawalReply(_)) | Outcome::Ok(Message::SignHtlcTxMingleReply(_)) => {
                    r.accepted = true;
                    r.class = format!("{}accepted", if round == 1 { "2nd-" } else if round > 1 { "nth-" } else { "" });
                    if let Err(wy) = &expect {
                        r.ref_why = wy.clone();
                        r.vio = Some((format!("C08:{}:passed-although:{}", mname, wy), format!("{:?} (request {}): inputs {} beneficial {} weight<= {} max rate {}: {}", case, round + 1, sum_in, beneficial, w_up, p.max_feerate_per_kw, wy)));
                        return r;
                    }
                    prior += sum_in - beneficial;
                }
                Outcome::Ok(_) => {
                    r.refused = true;
                    r.class = "refused:reply-of-another-type".into();
                }
                Outcome::Err(e) => {
                    r.refused = true;
                    r.class = format!("refused:{}", e.split('(').next().unwrap_or(""));
                    if let Err(wy) = &expect {
                        r.ref_why = wy.clone();
                    }
                }
                Outcome::Panic(pn) => {
                    r.panic = true;
                    r.class = format!("panic:{}", pn.chars().take(50).collect::<String>());
                    return r;
                }
            }
        } else if case.entry == 0 {
            let o = call(move || match n2.check_onchain_tx(&tx2, &sw, &po, &ucks, &op) {
                Ok(()) => Ok(None),
                Err(ve) => match ve.kind {
                    ValidationErrorKind::UnknownDestinations(_, ref idx) => Ok(Some(idx.clone())),
                    _ => Err(format!("{:?}", ve.kind).chars().take(40).collect::<String>()),
                },
            });
            // a report of unknown destinations is a refusal as far as state is concerned
            if before.is_some() {
                let as_refusal: Outcome<()> = match &o {
                    Outcome::Ok(None) => Outcome::Ok(()),
                    Outcome::Ok(Some(_)) => Outcome::Err("UnknownDestinations/".into()),
                    Outcome::Err(e) => Outcome::Err(e.clone()),
                    Outcome::Panic(p) => Outcome::Panic(p.clone()),
                };
                crate::monitors::around(&w, &before, &as_refusal, "check_onchain_tx", &mut r.mon);
            }
            match o {
                Outcome::Ok(None) => {
                    r.accepted = true;
                    r.class = format!("{}accepted", if round == 1 { "2nd-" } else if round > 1 { "nth-" } else { "" });
                    if let Err(wy) = &expect {
                        r.ref_why = wy.clone();
                        r.vio = Some((format!("C08:check_onchain_tx:passed-although:{}", wy), format!("{:?} (request {}): inputs {} beneficial {} weight<= {} max rate {}: {}", case, round + 1, sum_in, beneficial, w_up, p.max_feerate_per_kw, wy)));
                        return r;
                    }
                    prior += sum_in - beneficial;
                }
                Outcome::Ok(Some(idx)) => {
                    r.unknown_reported = true;
                    r.class = "unknown-destinations".into();
                    let mut got = idx.clone();
                    got.sort();
                    if !report_ok(&got) {
                        r.vio = Some(("C08:check_onchain_tx:unknown-destinations-misreported".into(), format!("{:?}: reported unknown outputs {:?}, the outputs that are neither wallet, allowlisted nor a node-funded channel are {:?}", case, got, unknown_idx)));
                        return r;
                    }
                }
                Outcome::Err(e) => {
                    r.refused = true;
                    r.class = format!("refused:{}", e.split('(').next().unwrap_or(""));
                    if let Err(wy) = &expect {
                        r.ref_why = wy.clone();
                    }
                }
                Outcome::Panic(pn) => {
                    r.panic = true;
                    r.class = format!("panic:{}", pn.chars().take(50).collect::<String>());
                    return r;
                }
            }
        } else {
            let rec = Recorder(std::sync::Mutex::new(vec![]), case.entry == 2);
            let o = {
                let rec = &rec;
                call(move || rec.handle_proposed_onchain(&n2, &tx2, &sw, &po, &ucks, &op).map_err(|e| status_kind(&e)))
            };
            let consulted = rec.0.lock().unwrap().clone();
            match o {
                Outcome::Ok(true) => {
                    r.accepted = true;
                    r.class = "accepted".into();
                    if !consulted.is_empty() && case.entry == 1 {
                        r.vio = Some(("C08:approver:accepted-after-decline".into(), format!("{:?}: approver declined {:?} but the request passed", case, consulted)));
                        return r;
                    }
                    if !consulted.is_empty() {
                        // the operator approved the unknown destinations: the fee cannot be bounded
                        // any more, but every other rule still has to hold, and the approver must
                        // have been shown exactly the unknown outputs
                        r.class = "accepted-after-approval".into();
                        let mut got = consulted.first().cloned().unwrap_or_default();
                        got.sort();
                        let other = approved_ref();
                        if consulted.len() != 1 || !report_ok(&got) {
                            r.vio = Some(("C08:approver:consulted-with-wrong-outputs".into(), format!("{:?}: approve_onchain consulted with {:?}, unknown outputs are {:?}", case, consulted, unknown_idx)));
                            return r;
                        }
                        if let Err(wy) = other {
                            r.ref_why = wy.clone();
                            r.vio = Some((format!("C08:handle_proposed_onchain:passed-after-approval-although:{}", wy), format!("{:?}: approving the unknown destinations let a transaction pass although {}", case, wy)));
                            return r;
                        }
                        continue;
                    }
                    if let Err(wy) = &expect {
                        r.ref_why = wy.clone();
                        r.vio = Some((format!("C08:handle_proposed_onchain:passed-although:{}", wy), format!("{:?} (request {}): {}", case, round + 1, wy)));
                        return r;
                    }
                    prior += sum_in - beneficial;
                }
                Outcome::Ok(false) => {
                    r.unknown_reported = true;
                    r.class = "declined-by-approver".into();
                    let mut got = consulted.first().cloned().unwrap_or_default();
                    got.sort();
                    if consulted.len() != 1 || !report_ok(&got) {
                        r.vio = Some(("C08:approver:consulted-with-wrong-outputs".into(), format!("{:?}: approve_onchain consulted with {:?}, unknown outputs are {:?}", case, consulted, unknown_idx)));
                        return r;
                    }
                }
                Outcome::Err(e) => {
                    r.refused = true;
                    r.class = format!("refused:{}", e);
                    if !consulted.is_empty() {
                        r.class = format!("refused-after-consulting:{}", e);
                    }
                    if let Err(wy) = &expect {
                        r.ref_why = wy.clone();
                    }
                }
                Outcome::Panic(pn) => {
                    r.panic = true;
                    r.class = format!("panic:{}", pn.chars().take(50).collect::<String>());
                    return r;
                }
            }
        }
    }
    r
}

fn bases() -> Vec<Case> {
    let mut v = vec![];
    for pol in 0..3u8 {
        for allow in 0..3u8 {
            if pol == 2 && allow != 0 {
                continue;
            }
            for entry in 0..5u8 {
                // the protocol messages with the first allowlist only
                if entry >= 3 && allow != 0 {
                    continue;
                }
                // a wallet spend with change and an allowlisted destination
                v.push(Case { pol, allow, entry, inputs: vec![(1_000_600, true)], outputs: vec![Out { k: OutK::Wallet(0), value: 600_000 }, Out { k: OutK::Allowlisted, value: 400_000 }], devs: vec![], onchain: false });
                // single-channel funding with change
                v.push(Case { pol, allow, entry, inputs: vec![(4_000_700, true)], outputs: vec![Out { k: OutK::Fund(1, FundK::Good), value: 3_000_000 }, Out { k: OutK::Wallet(0), value: 1_000_000 }], devs: vec![], onchain: false });
                // funding with change and a payment to an unknown destination (needs approval)
                v.push(Case { pol, allow, entry, inputs: vec![(4_010_700, true)], outputs: vec![Out { k: OutK::Fund(1, FundK::Good), value: 3_000_000 }, Out { k: OutK::Wallet(0), value: 1_000_000 }, Out { k: OutK::Foreign, value: 10_000 }], devs: vec![], onchain: false });
                // two channels funded at once from two inputs
                v.push(Case { pol, allow, entry, inputs: vec![(3_000_000, true), (2_000_900, true)], outputs: vec![Out { k: OutK::Fund(1, FundK::Good), value: 3_000_000 }, Out { k: OutK::Fund(2, FundK::Good), value: 1_500_000 }, Out { k: OutK::Wallet(0), value: 500_000 }], devs: vec![], onchain: false });
            }
        }
    }
    // the same bases under the chain-aware validator (first policy and allowlist)
    let oc: Vec<Case> = v.iter().filter(|c| c.pol == 0 && c.allow == 0).cloned().map(|mut c| {
        c.onchain = true;
        c
    }).collect();
    v.extend(oc);
    v
}

fn alphabet(c: &Case) -> Vec<Dev> {
    let p = pol(c.pol);
    let mut v = vec![];
    let kinds = [
        OutK::Wallet(0),
        OutK::Wallet(1),
        OutK::Wallet(2),
        OutK::WalletWrongPath,
        OutK::WalletNoPath,
        OutK::Allowlisted,
        OutK::AllowlistedWithPath,
        OutK::Xpub,
        OutK::XpubWrongPath,
        OutK::XpubNoPath,
        OutK::Foreign,
        OutK::ForeignWithPath,
    ];
    for i in 0..c.outputs.len() {
        match c.outputs[i].k {
            OutK::Fund(dbid, _) => {
                for fk in [FundK::ValueOff(1), FundK::ValueOff(-1), FundK::ValueOff(100_000), FundK::WrongScript, FundK::Inbound, FundK::Push, FundK::NotValidated, FundK::Advanced] {
                    v.push(Dev::ReplaceOut(i, OutK::Fund(dbid, fk)));
                }
                v.push(Dev::ReplaceOut(i, OutK::Foreign));
            }
            k0 =>
                for k in kinds {
                    if k != k0 {
                        v.push(Dev::ReplaceOut(i, k));
                    }
                },
        }
        v.push(Dev::DropOut(i));
        v.push(Dev::OutValue(i, 0));
        v.push(Dev::OutValue(i, u64::MAX));
        v.push(Dev::OutValue(i, 1 << 63));
    }
    for k in [OutK::Foreign, OutK::Wallet(0), OutK::Allowlisted, OutK::Xpub, OutK::ForeignWithPath, OutK::WalletNoPath] {
        v.push(Dev::AddOut(k, 10_000));
    }
    if !c.outputs.iter().any(|o| matches!(o.k, OutK::Fund(3, _))) {
        v.push(Dev::AddOut(OutK::Fund(3, FundK::Good), 200_000));
        v.push(Dev::AddOut(OutK::Fund(3, FundK::NotValidated), 200_000));
    }
    v.push(Dev::AddInput(true));
    v.push(Dev::AddInput(false));
    for i in 0..c.inputs.len() {
        v.push(Dev::NonSegwit(i));
        v.push(Dev::InputValue(i, u64::MAX));
        v.push(Dev::InputValue(i, 0));
    }
    v.push(Dev::Version(1));
    v.push(Dev::Version(3));
    // non-beneficial value at the edges of the bound; the signer's weight estimate is between
    // the unsigned weight and our upper bound, so probe both
    let n_in = c.inputs.len() as u64;
    let out_len = |k: &OutK| -> u64 {
        9 + match k {
            OutK::Wallet(1) => 23,
            OutK::Wallet(2) | OutK::Fund(..) => 34,
            _ => 22,
        }
    };
    // exact weight of the unsigned transaction, the signer's lower bound (110 per segwit
    // input), and the reference's upper bound
    let w_unsigned = 4 * (10 + 41 * n_in + c.outputs.iter().map(|o| out_len(&o.k)).sum::<u64>());
    let w_low = w_unsigned + 110 * n_in;
    let w_up = w_unsigned + 2 + n_in * 117;
    let maxr = p.max_feerate_per_kw as u64;
    let mut ts = vec![0u64, 1, 500, 700, 3_000, 3_001, 2_400];
    for w in [w_unsigned, w_low, w_up] {
        for d in [-40i64, -1, 0, 1, 40, 400] {
            ts.push(((maxr * w / 1000) as i64 + d).max(0) as u64);
        }
        for k in [1u64, 2] {
            for rr in [0u64, 300, maxr - 10] {
                ts.push(((k << 32) + rr) * w / 1000);
            }
        }
    }
    // a mis-attributed or double-counted output shows up when the non-beneficial value equals
    // an output's value (plus an ordinary fee)
    for o in &c.outputs {
        ts.push(o.value);
        ts.push(o.value + 600);
        ts.push(2 * o.value + 600);
    }
    ts.push(u64::MAX / 1000 + 1);
    ts.push(((1u128 << 64) / 1000 + 200) as u64);
    ts.push(1 << 62);
    ts.sort();
    ts.dedup();
    for t in ts {
        v.push(Dev::NonBeneficial(t));
    }
    v.push(Dev::Repeat);
    v.push(Dev::RepeatLater);
    v.push(Dev::RepeatNextBucket);
    v.push(Dev::RepeatAfterReload);
    v.push(Dev::AllowRemovedRestart);
    v
}

/// the quick-tier cases with the C10 / C11 monitors around every request
pub fn monitored(wall_s: f64) -> (u64, Vec<(crate::vmc::Vio, Value)>) {
    let t0 = std::time::Instant::now();
    let mut cases = vec![];
    for b in bases().into_iter().filter(|b| b.entry == 0) {
        cases.push(b.clone());
        for d in alphabet(&b) {
            let mut c = b.clone();
            c.devs = vec![d];
            cases.push(c);
        }
    }
    let mut out = vec![];
    let mut n = 0u64;
    for chunk in cases.chunks(2048) {
        if t0.elapsed().as_secs_f64() > wall_s {
            break;
        }
        let rs = par_map(chunk, nthreads(), |c| run_case(c));
        for (c, r) in chunk.iter().zip(rs.into_iter()) {
            n += r.calls;
            for v in r.mon {
                out.push((v, json!({"engine": "c08", "case": c})));
            }
        }
    }
    (n, out)
}

pub fn main(tier: Tier) -> i32 {
    let profile = std::env::var("VERIF_PROFILE").unwrap_or_else(|_| "checked".to_string());
    let mut run = Run::new("C08", tier, "model_checking", "txgrid-c08");
    if profile != "checked" {
        run.evidence_name = Some(format!("C08-{}.json", profile));
    }
    let t0 = std::time::Instant::now();
    let bs = bases();
    let d = tier.pick(1, 2);
    let mut cases = vec![];
    for b in &bs {
        let a = alphabet(b);
        // pairs: thorough, check_onchain_tx entry only (the approver path shares the validation)
        // quick: pairs for the wallet-spend and single-funding bases under the default policy
        let dd = if (d == 2 && b.entry == 0) || (tier == Tier::Quick && b.entry == 0 && b.pol == 0 && b.allow == 0 && b.outputs.len() == 2) { 2 } else { 1 };
        for s in dev_sets(a.len(), dd) {
            if s.len() == 2 && dev_kind(&a[s[0]]) == dev_kind(&a[s[1]]) && !matches!(a[s[0]], Dev::ReplaceOut(..)) {
                continue;
            }
            let mut c = b.clone();
            c.devs = s.iter().map(|i| a[*i].clone()).collect();
            cases.push(c);
        }
    }
    let budget = tier.pick(45.0, 1500.0);
    let (mut evals, mut calls, mut acc, mut refu, mut unk, mut panics, mut skipped, mut base_acc) = (0u64, 0u64, 0u64, 0u64, 0u64, 0u64, 0u64, 0u64);
    let (mut wire_acc, mut wire_base_acc) = (0u64, 0u64);
    let mut classes: BTreeSet<String> = BTreeSet::new();
    let mut skip_classes: BTreeSet<String> = BTreeSet::new();
    let mut complete = true;
    let mut done = 0usize;
    let mut samples: Vec<Value> = vec![];
    for chunk in cases.chunks(4096) {
        if t0.elapsed().as_secs_f64() > budget {
            complete = false;
            break;
        }
        let rs = par_map(chunk, nthreads(), |c| run_case(c));
        for (c, r) in chunk.iter().zip(rs.iter()) {
            done += 1;
            if r.skipped {
                skipped += 1;
                skip_classes.insert(r.class.split(':').next().unwrap().to_string());
                continue;
            }
            evals += 1;
            calls += r.calls;
            if r.accepted {
                acc += 1;
                if c.devs.is_empty() {
                    base_acc += 1;
                }
                if c.entry >= 3 {
                    wire_acc += 1;
                    if c.devs.is_empty() {
                        wire_base_acc += 1;
                    }
                }
                if samples.len() < 3 && !c.devs.is_empty() {
                    samples.push(json!({"accepted": c}));
                }
            }
            if r.refused {
                refu += 1;
            }
            if r.unknown_reported {
                unk += 1;
            }
            if r.panic {
                panics += 1;
            }
            classes.insert(format!("{}|{}|{}|{}|{}|{}|{}", c.pol, c.allow, c.entry, c.outputs.len(), c.devs.iter().map(dev_kind).collect::<Vec<_>>().join("+"), r.class, r.ref_why));
            if let Some((k, w)) = &r.vio {
                run.violation(k, w, json!({"engine": "c08", "case": c}));
            }
        }
    }
    if base_acc == 0 {
        run.vacuous("no base transaction passed the signer's check");
    }
    if complete && wire_base_acc < 3 {
        run.vacuous(&format!("only {} base transaction(s) were signed through the SignWithdrawal message", wire_base_acc));
    }
    run.assume(&format!("arithmetic profile: {}", profile));
    run.assume("reference: every output is classified independently (wallet-derivable at the presented path in native / wrapped / taproot form, allowlisted script, address derived from an allowlisted xpub at the presented path, funding output of a channel the node funds); passing requires version 2, no unknown / mismatching output, every funding rule, all inputs segwit when a channel is funded, (inputs - beneficial) x 1000 <= max fee rate x an upper bound of the signed weight, and cumulative non-beneficial value within the hourly fee velocity limit; a report of unknown destinations must list exactly the outputs the reference classifies as unknown");
    let cov = json!({
        "states": evals,
        "transitions": calls,
        "traces_validated_against_impl": evals,
        "evaluations": evals,
        "distinct_nontrivial": classes.len(),
        "exhaustive": complete,
        "bases": bs.len(),
        "bases_accepted": base_acc,
        "bases_signed_through_SignWithdrawal": wire_base_acc,
        "cases_signed_through_SignWithdrawal": wire_acc,
        "bases_refused": bs.len() as u64 - base_acc,
        "cases_generated": cases.len(),
        "cases_run": done,
        "not_applicable": skipped,
        "not_applicable_kinds": skip_classes,
        "accepted": acc,
        "refused": refu,
        "unknown_destinations_reported": unk,
        "panics": panics,
        "deviation_bound": d,
        "profile": profile,
        "samples": if samples.is_empty() { vec![json!({"base": bs.first()})] } else { samples },
        "rule": "bases x every set of <= d deviations; distinct = (policy, allowlist, entry, outputs, deviation kinds, outcome class, first broken clause of the reference)",
    });
    // "explicit approval": histories of memorised operator approvals and requests through the
    // approval layer (only in the first arithmetic profile; it has no arithmetic of its own)
    let mut cov = cov;
    if profile != "wrap" {
        let a = crate::approvers::explore(tier, tier.pick(15.0, 300.0));
        for f in &a.found {
            if f.vio.prop == "C08" {
                run.violation(&f.vio.key, &f.vio.what, f.replay.clone());
            }
        }
        if let Some(o) = cov.as_object_mut() {
            o.insert("approval_layer".into(), json!(a.models));
            o.insert("approval_layer_transitions".into(), json!(a.stats.transitions));
        }
    }
    run.finish(cov)
}

pub fn replay(v: &Value) {
    let c: Case = serde_json::from_value(v["replay"]["case"].clone()).unwrap_or_else(|e| machinery_failure(&format!("{}", e)));
    for round in 0..2 {
        let r = run_case(&c);
        println!("round {}: {:?}", round, r);
    }
}
