//! Scripted prefixes shared by the chain / node engines: a funded channel advanced to a state
//! with HTLCs on both current commitments, and the transactions that can hit the chain.

use crate::chain::*;
use crate::world::*;
use lightning_signer::bitcoin::bip32::{ChildNumber, DerivationPath};
use lightning_signer::bitcoin::hashes::Hash;
use lightning_signer::bitcoin::{Amount, OutPoint, ScriptBuf, Transaction, TxOut, Txid};
use lightning_signer::channel::{ChannelSetup, CommitmentType};
use lightning_signer::lightning::types::payment::PaymentPreimage;
use lightning_signer::wallet::Wallet;

pub struct Funded {
    pub dbid: u64,
    pub cp: Cp,
    pub setup: ChannelSetup,
    pub params: ChanParams,
    pub funding_tx: Transaction,
    pub wallet_in: OutPoint,
    pub wallet_in2: OutPoint,
    pub c0: Content,
    pub c1: Content,
    /// holder commitment 1 and counterparty commitment 1 as they would appear on chain
    pub hc1: Option<Transaction>,
    pub cc1: Option<Transaction>,
    pub cc0: Option<Transaction>,
}

pub fn wallet_path(i: u32) -> DerivationPath {
    vec![ChildNumber::from_normal_idx(i).unwrap()].into()
}

pub fn content0() -> Content {
    Content { to_holder: CHANNEL_VALUE - 2_000, to_cp: 0, feerate: 1000, out: vec![], inc: vec![] }
}

pub fn content1() -> Content {
    Content {
        to_holder: 1_953_000,
        to_cp: 1_000_000,
        feerate: 1000,
        out: vec![H { value_sat: 20_000, hash: 2, cltv: 60 }],
        inc: vec![H { value_sat: 25_000, hash: 1, cltv: 50 }],
    }
}

/// like `content1`, with a second part of the offered payment: same hash, same expiry, same
/// direction, hence the same output script as the first part
pub fn content1_two_parts() -> Content {
    let mut c = content1();
    c.out.push(H { value_sat: 20_500, hash: 2, cltv: 60 });
    c.to_holder -= 20_500;
    c
}

fn expect<T>(what: &str, o: Outcome<T>) -> T {
    match o {
        Outcome::Ok(t) => t,
        Outcome::Err(e) => panic!("scenario step {} refused: {} ({})", what, e, last_err()),
        Outcome::Panic(p) => panic!("scenario step {} panicked: {}", what, p),
    }
}

/// Create, fund and (optionally) advance a channel.  Every step goes through the public API.
pub fn fund_channel(w: &World, dbid: u64, anchors: bool, advance: bool) -> Funded {
    fund_channel_with(w, dbid, anchors, advance, content1())
}

pub fn fund_channel_with(w: &World, dbid: u64, anchors: bool, advance: bool, c1: Content) -> Funded {
    let cp = Cp::new(100 + (dbid as u8) * 10);
    expect("new_channel", w.new_channel(dbid));
    let holder_pubkeys = w.holder_basepoints(dbid).unwrap();
    let ct = if anchors { CommitmentType::AnchorsZeroFeeHtlc } else { CommitmentType::StaticRemoteKey };
    let mut setup = w.default_setup(&cp, dbid, true, ct);
    // funding transaction: one wallet input, the channel output and a change output
    let wallet_in = OutPoint { txid: Txid::from_slice(&[0x70 + dbid as u8; 32]).unwrap(), vout: 0 };
    let wallet_in2 = OutPoint { txid: Txid::from_slice(&[0x70 + dbid as u8; 32]).unwrap(), vout: 1 };
    let params0 = ChanParams { setup: setup.clone(), holder_pubkeys: holder_pubkeys.clone() };
    let funding_script = params0.funding_redeemscript().to_p2wsh();
    let change_script = w.node.get_native_address(&wallet_path(dbid as u32)).unwrap().script_pubkey();
    let funding_tx = simple_tx(vec![wallet_in, wallet_in2], vec![(CHANNEL_VALUE, funding_script), (1_000_000, change_script)], 0);
    setup.funding_outpoint = OutPoint { txid: funding_tx.compute_txid(), vout: 0 };
    expect("setup_channel", w.setup_channel(dbid, &setup));
    let params = ChanParams { setup: setup.clone(), holder_pubkeys };
    let c0 = content0();
    // initial holder commitment
    let p0 = w.holder_point_raw(dbid, 0).unwrap();
    let (sig, hs) = params.cp_sign_holder_commitment(&cp, 0, &p0, &c0);
    expect(
        "validate 0",
        w.with_chan(dbid, |ch| {
            ch.validate_holder_commitment_tx_phase2(0, c0.feerate, c0.to_holder, c0.to_cp, c0.out_info(), c0.inc_info(), &sig, &hs)?;
            ch.activate_initial_commitment()
        }),
    );
    // sign the funding transaction (registers the funding inputs with the monitor)
    let wallet_prev2 = TxOut {
        value: Amount::from_sat(500_000),
        script_pubkey: w.node.get_native_address(&wallet_path(200 + dbid as u32)).unwrap().script_pubkey(),
    };
    let wallet_prev = TxOut {
        value: Amount::from_sat(CHANNEL_VALUE + 501_000),
        script_pubkey: w.node.get_native_address(&wallet_path(100 + dbid as u32)).unwrap().script_pubkey(),
    };
    let opaths = vec![DerivationPath::master(), wallet_path(dbid as u32)];
    let node = w.node.clone();
    let ftx = funding_tx.clone();
    let wp = wallet_prev.clone();
    let wp2 = wallet_prev2.clone();
    expect(
        "check+sign funding",
        call(move || {
            node.check_onchain_tx(&ftx, &[true, true], &[wp.clone(), wp2.clone()], &[None, None], &opaths).map_err(|e| format!("{:?}", e))?;
            node.unchecked_sign_onchain_tx(&ftx, &[wallet_path(100 + dbid as u32), wallet_path(200 + dbid as u32)], &[wp.clone(), wp2.clone()], vec![None, None])
                .map(|_| ())
                .map_err(|e| status_kind(&e))
        }),
    );
    let mut f = Funded { dbid, cp, setup, params, funding_tx, wallet_in, wallet_in2, c0, c1, hc1: None, cc1: None, cc0: None };
    if advance {
        advance_to_one(w, &mut f);
    }
    f
}

/// both sides move to commitment 1 (with one offered and one received HTLC); preimage of the
/// received HTLC is made known
pub fn advance_to_one(w: &World, f: &mut Funded) {
    let dbid = f.dbid;
    let (c0, c1) = (f.c0.clone(), f.c1.clone());
    let cp = f.cp.clone();
    let params = f.params.clone();
    let cpp0 = cp.point(0);
    expect(
        "sign cp 0",
        w.with_chan(dbid, |ch| ch.sign_counterparty_commitment_tx_phase2(&cpp0, 0, c0.feerate, c0.to_holder, c0.to_cp, c0.inc_info(), c0.out_info())),
    );
    // the offered HTLCs pay approved keysends (all parts of one hash under one approval)
    let mut per_hash: std::collections::BTreeMap<u8, u64> = Default::default();
    for h in &c1.out {
        *per_hash.entry(h.hash).or_insert(0) += h.value_sat * 1000;
    }
    for (h, amt) in per_hash {
        let node = w.node.clone();
        let (hash, amt) = (pay_hash(h), amt);
        let payee = lightning_signer::bitcoin::secp256k1::PublicKey::from_secret_key(&secp(), &sk(201));
        let ok = expect("keysend", call(move || node.add_keysend(payee, hash, amt).map_err(|e| status_kind(&e))));
        assert!(ok, "keysend not approved");
    }
    let p1 = w.holder_point_raw(dbid, 1).unwrap();
    let (sig, hs) = params.cp_sign_holder_commitment(&cp, 1, &p1, &c1);
    expect(
        "validate 1 + revoke 0",
        w.with_chan(dbid, |ch| {
            ch.validate_holder_commitment_tx_phase2(1, c1.feerate, c1.to_holder, c1.to_cp, c1.out_info(), c1.inc_info(), &sig, &hs)?;
            ch.revoke_previous_holder_commitment(1)
        }),
    );
    let cpp1 = cp.point(1);
    expect(
        "sign cp 1",
        w.with_chan(dbid, |ch| ch.sign_counterparty_commitment_tx_phase2(&cpp1, 1, c1.feerate, c1.to_holder, c1.to_cp, c1.inc_info(), c1.out_info())),
    );
    let s0 = cp.secret(0);
    expect("cp revokes 0", w.with_chan(dbid, |ch| ch.validate_counterparty_revocation(0, &s0)));
    expect(
        "preimage",
        w.with_chan(dbid, |ch| {
            ch.htlcs_fulfilled(vec![PaymentPreimage(preimage(1))]);
            Ok(())
        }),
    );
    let (hctx, _) = params.holder_commitment(1, &p1, &c1);
    f.hc1 = Some(hctx.trust().built_transaction().transaction.clone());
    let (cctx, _) = params.counterparty_commitment(1, &cpp1, &c1);
    f.cc1 = Some(cctx.trust().built_transaction().transaction.clone());
    let (cctx0, _) = params.counterparty_commitment(0, &cpp0, &c0);
    f.cc0 = Some(cctx0.trust().built_transaction().transaction.clone());
}

/// indices of (our output, offered-by-holder HTLC output, received-by-holder HTLC output) in a
/// commitment transaction of content1, identified by value
pub fn commitment_outputs(tx: &Transaction, c: &Content, holder_is_broadcaster: bool) -> (Option<u32>, Option<u32>, Option<u32>) {
    let _ = holder_is_broadcaster;
    let find = |v: u64| tx.output.iter().position(|o| o.value.to_sat() == v).map(|i| i as u32);
    let ours = find(c.to_holder);
    let off = c.out.first().and_then(|h| find(h.value_sat));
    let rec = c.inc.first().and_then(|h| find(h.value_sat));
    (ours, off, rec)
}

pub fn unrelated_script(i: u8) -> ScriptBuf {
    ScriptBuf::from_bytes(vec![0x51, i])
}
