//! Evidence, violations, known findings, exit codes.
//!
//! exit 0: property held on everything explored (KNOWN-FINDING lines possible)
//! exit 1: VIOLATION property=<id> replay=<path>
//! exit 2: machinery failure (never a verdict)

use serde_json::{json, Value};
use std::collections::BTreeMap;
use std::time::Instant;

pub const VERIF_DIR: &str = "/verif";

#[derive(Clone, Copy, PartialEq, Eq, Debug)]
pub enum Tier {
    Quick,
    Thorough,
}

impl Tier {
    pub fn name(&self) -> &'static str {
        match self {
            Tier::Quick => "quick",
            Tier::Thorough => "thorough",
        }
    }
    pub fn pick<T>(&self, q: T, t: T) -> T {
        match self {
            Tier::Quick => q,
            Tier::Thorough => t,
        }
    }
}

pub struct Violation {
    pub key: String,
    pub what: String,
    pub replay: Value,
    pub count: u64,
}

pub struct Run {
    pub prop: String,
    pub tier: Tier,
    pub seed: u64,
    pub level: &'static str,
    pub engine: &'static str,
    start: Instant,
    violations: BTreeMap<String, Violation>,
    order: Vec<String>,
    pub assumptions: Vec<String>,
    /// if set, evidence is written to this file name instead of <prop>.json (used for sub-runs)
    pub evidence_name: Option<String>,
    /// set when the exploration turned out (partly) vacuous, e.g. a base request that must be
    /// accepted was refused: reported as a machinery failure unless a violation explains it
    pub vacuity: Option<String>,
}

pub fn machinery_failure(msg: &str) -> ! {
    eprintln!("MACHINERY-FAILURE: {}", msg);
    println!("MACHINERY-FAILURE: {}", msg);
    std::process::exit(2)
}

impl Run {
    pub fn new(prop: &str, tier: Tier, level: &'static str, engine: &'static str) -> Run {
        let seed = std::env::var("VERIF_SEED").ok().and_then(|s| s.parse().ok()).unwrap_or(0);
        Run {
            prop: prop.to_string(),
            tier,
            seed,
            level,
            engine,
            start: Instant::now(),
            violations: BTreeMap::new(),
            order: vec![],
            assumptions: vec![],
            evidence_name: None,
            vacuity: None,
        }
    }

    pub fn elapsed(&self) -> f64 {
        self.start.elapsed().as_secs_f64()
    }

    pub fn assume(&mut self, s: &str) {
        self.assumptions.push(s.to_string());
    }

    /// Record a violation.  Violations are de-duplicated by key; the first one recorded for a
    /// key is kept (searches are breadth-first / simplest-first, so it is a shortest one).
    pub fn violation(&mut self, key: &str, what: &str, replay: Value) {
        if let Some(v) = self.violations.get_mut(key) {
            v.count += 1;
            return;
        }
        self.order.push(key.to_string());
        self.violations.insert(
            key.to_string(),
            Violation { key: key.to_string(), what: what.to_string(), replay, count: 1 },
        );
    }

    pub fn vacuous(&mut self, msg: &str) {
        if self.vacuity.is_none() {
            self.vacuity = Some(msg.to_string());
        }
    }

    pub fn violation_count(&self) -> usize {
        self.violations.len()
    }

    pub fn has_violation(&self, key: &str) -> bool {
        self.violations.contains_key(key)
    }

    /// Write evidence, print verdict lines, and return the exit code.
    pub fn finish(self, mut coverage: Value) -> i32 {
        let known = load_known_findings();
        let mut open: BTreeMap<String, String> = BTreeMap::new();
        for k in known.iter() {
            if k["property"].as_str() == Some(&self.prop) && k["status"].as_str() == Some("open") {
                open.insert(
                    k["key"].as_str().unwrap_or("").to_string(),
                    k["what"].as_str().unwrap_or("").to_string(),
                );
            }
        }
        let replay_dir = format!("{}/evidence/replays", VERIF_DIR);
        let _ = std::fs::create_dir_all(&replay_dir);
        // replay files name the violations of *this* run: drop those of earlier runs of the same
        // property, tier and arithmetic profile
        let stem = match &self.evidence_name {
            Some(n) => format!("{}-{}", n.trim_end_matches(".json"), self.tier.name()),
            None => format!("{}-{}", self.prop, self.tier.name()),
        };
        if let Ok(rd) = std::fs::read_dir(&replay_dir) {
            for f in rd.flatten() {
                let name = f.file_name().to_string_lossy().to_string();
                if let Some(rest) = name.strip_prefix(&format!("{}-", stem)) {
                    if rest.trim_end_matches(".json").chars().all(|c| c.is_ascii_digit()) {
                        let _ = std::fs::remove_file(f.path());
                    }
                }
            }
        }
        let mut new_count = 0;
        let mut known_hit = vec![];
        let mut lines = vec![];
        let mut vio_list = vec![];
        for (n, key) in self.order.iter().enumerate() {
            let v = &self.violations[key];
            if let Some(what) = open.get(key) {
                known_hit.push(key.clone());
                lines.push(format!("KNOWN-FINDING: property={} key={} {}", self.prop, key, what));
                vio_list.push(json!({"key": key, "known": true, "count": v.count, "what": v.what}));
                continue;
            }
            new_count += 1;
            let path = format!("{}/{}-{}.json", replay_dir, stem, n);
            let body = json!({
                "property": self.prop,
                "engine": self.engine,
                "key": key,
                "what": v.what,
                "occurrences": v.count,
                "replay": v.replay,
            });
            std::fs::write(&path, serde_json::to_string_pretty(&body).unwrap()).ok();
            lines.push(format!("VIOLATION property={} replay={}", self.prop, path));
            lines.push(format!("  key={} :: {}", key, v.what));
            vio_list.push(json!({"key": key, "known": false, "count": v.count, "what": v.what, "replay": path}));
        }
        if let Some(obj) = coverage.as_object_mut() {
            obj.insert("violation_keys".into(), json!(vio_list));
            obj.insert("known_findings_seen".into(), json!(known_hit));
            obj.insert("engine".into(), json!(self.engine));
        }
        let ev = json!({
            "property_id": self.prop,
            "tier": self.tier.name(),
            "seed": self.seed,
            "level": self.level,
            "coverage": coverage,
            "assumptions": self.assumptions,
            "wall_s": self.start.elapsed().as_secs_f64(),
            "violations": new_count,
        });
        let name = self.evidence_name.clone().unwrap_or_else(|| format!("{}.json", self.prop));
        let path = format!("{}/evidence/{}", VERIF_DIR, name);
        if let Err(e) = std::fs::write(&path, serde_json::to_string_pretty(&ev).unwrap()) {
            machinery_failure(&format!("cannot write evidence {}: {}", path, e));
        }
        for l in lines {
            println!("{}", l);
        }
        println!(
            "{} {} {}: {} new violation key(s), {} known finding(s), {:.1}s",
            self.prop,
            self.engine,
            self.tier.name(),
            new_count,
            known_hit.len(),
            self.start.elapsed().as_secs_f64()
        );
        if new_count > 0 {
            1
        } else if let Some(v) = &self.vacuity {
            machinery_failure(&format!("vacuous exploration: {}", v))
        } else {
            0
        }
    }
}

pub fn load_known_findings() -> Vec<Value> {
    let path = format!("{}/known_findings.json", VERIF_DIR);
    match std::fs::read_to_string(&path) {
        Ok(s) => match serde_json::from_str::<Value>(&s) {
            Ok(Value::Array(a)) => a,
            Ok(v) => v["findings"].as_array().cloned().unwrap_or_default(),
            Err(e) => machinery_failure(&format!("known_findings.json unparsable: {}", e)),
        },
        Err(_) => vec![],
    }
}

/// Run a closure catching panics; returns Err(panic message) on panic.
pub fn catch<T>(f: impl FnOnce() -> T) -> Result<T, String> {
    let r = std::panic::catch_unwind(std::panic::AssertUnwindSafe(f));
    match r {
        Ok(v) => Ok(v),
        Err(e) => {
            let msg = if let Some(s) = e.downcast_ref::<&str>() {
                s.to_string()
            } else if let Some(s) = e.downcast_ref::<String>() {
                s.clone()
            } else {
                "panic".to_string()
            };
            Err(msg)
        }
    }
}

thread_local! {
    pub static LAST_PANIC_LOC: std::cell::RefCell<String> = std::cell::RefCell::new(String::new());
}

/// Install a quiet panic hook that records the location instead of printing.
pub fn quiet_panics() {
    std::panic::set_hook(Box::new(|info| {
        let loc = info.location().map(|l| format!("{}:{}", l.file(), l.line())).unwrap_or_default();
        // panics raised by harness code itself are machinery failures: keep them visible
        if loc.starts_with("src/") || std::env::var("VERIF_VERBOSE").map(|v| v == "2").unwrap_or(false) {
            eprintln!("harness panic at {}: {}", loc, info);
        }
        LAST_PANIC_LOC.with(|c| *c.borrow_mut() = loc);
    }));
}

pub fn last_panic_loc() -> String {
    LAST_PANIC_LOC.with(|c| c.borrow().clone())
}

/// Parallel map over items using std threads (no external crates).
pub fn par_map<T: Send + Sync, R: Send>(
    items: &[T],
    threads: usize,
    f: impl Fn(&T) -> R + Send + Sync,
) -> Vec<R> {
    use std::sync::atomic::{AtomicUsize, Ordering};
    use std::sync::Mutex;
    let next = AtomicUsize::new(0);
    let out: Mutex<Vec<(usize, R)>> = Mutex::new(Vec::with_capacity(items.len()));
    std::thread::scope(|s| {
        for _ in 0..threads.max(1) {
            s.spawn(|| {
                let mut local = vec![];
                loop {
                    let i = next.fetch_add(1, Ordering::Relaxed);
                    if i >= items.len() {
                        break;
                    }
                    local.push((i, f(&items[i])));
                }
                out.lock().unwrap().extend(local);
            });
        }
    });
    let mut v = out.into_inner().unwrap();
    v.sort_by_key(|x| x.0);
    v.into_iter().map(|x| x.1).collect()
}

pub fn nthreads() -> usize {
    std::env::var("VERIF_THREADS").ok().and_then(|s| s.parse().ok()).unwrap_or_else(|| {
        std::thread::available_parallelism().map(|n| n.get()).unwrap_or(8)
    })
}
