//! C09: sweep and second-level HTLC signatures only move funds back to the node (DESIGN 4.5).
//!
//! The sweep / HTLC signing requests do not change signer state, so the complete product of the
//! field alphabets is enumerated against one real channel per commitment type:
//! sweeps: kind (delayed, counterparty HTLC offered / received, justice) x version x locktime x
//! sequence of the signed input x sequence of another input x signed index x output pattern;
//! HTLC transactions: side x kind x every single-field mutation (thorough: pairs) of the BOLT-3
//! transaction, the fee, the scripts and the request arguments.

use crate::chain::*;
use crate::ev::*;
use crate::scenario::wallet_path;
use crate::txbase::*;
use crate::world::*;
use lightning_signer::bitcoin::absolute::LockTime;
use lightning_signer::bitcoin::hashes::Hash;
use lightning_signer::bitcoin::secp256k1::PublicKey;
use lightning_signer::bitcoin::sighash::{EcdsaSighashType, SighashCache};
use lightning_signer::bitcoin::transaction::Version;
use lightning_signer::bitcoin::{Amount, OutPoint, ScriptBuf, Sequence, Transaction, TxIn, TxOut, Txid, Witness};
use lightning_signer::lightning::ln::chan_utils::{build_htlc_transaction, get_htlc_redeemscript, get_revokeable_redeemscript, HTLCOutputInCommitment, TxCreationKeys};
use lightning_signer::bitcoin::bip32::Fingerprint;
use lightning_signer::bitcoin::psbt::Psbt;
use serde::{Deserialize, Serialize};
use vls_protocol::model::{DisclosedSecret, PubKey};
use vls_protocol::msgs::{self, Message};
use vls_protocol::psbt::PsbtWrapper;
use vls_protocol::serde_bolt::{Octets, WithSize};
use serde_json::{json, Value};
use std::collections::BTreeSet;

const HEIGHT: u32 = 3;
const CLTV: u32 = 40;
const AMOUNT: u64 = 50_000;

#[derive(Clone, Copy, Debug, PartialEq, Eq, Hash, Serialize, Deserialize)]
pub enum SweepK {
    Delayed,
    CpHtlcOffered,
    CpHtlcReceived,
    Justice,
}

#[derive(Clone, Copy, Debug, PartialEq, Eq, Hash, Serialize, Deserialize)]
pub enum OutP {
    Wallet,
    WalletOtherPath,
    Allowlisted,
    Foreign,
    WalletWallet,
    WalletForeign,
    ForeignWallet,
    AllowlistedForeign,
    WalletAllowlisted,
}

#[derive(Clone, Debug, PartialEq, Eq, Hash, Serialize, Deserialize)]
pub struct Sweep {
    pub anchors: bool,
    pub kind: SweepK,
    pub version: i32,
    pub locktime: u32,
    pub seq: u32,
    /// None: single input; Some((other input's sequence, signed index))
    pub other: Option<(u32, usize)>,
    pub outs: OutP,
    /// the node runs the chain-aware validator (a wrapper that delegates these requests)
    #[serde(default)]
    pub onchain: bool,
    /// the policy demotes the tag families that no sweep / HTLC-transaction rule reports under
    #[serde(default)]
    pub filtered: bool,
    /// the request travels as the protocol message (per-channel message for a single input, the
    /// SignAny* message with an input index otherwise) through the real handler, with the amount,
    /// the wallet path and the input index taken from the PSBT / message as in production
    #[serde(default)]
    pub wire: bool,
}

struct Ctx {
    ch: Chan,
}

fn make_ctx(anchors: bool, onchain: bool, filtered: bool) -> Ctx {
    make_ctx2(anchors, onchain, filtered, false)
}

fn make_ctx2(anchors: bool, onchain: bool, filtered: bool, nonzero: bool) -> Ctx {
    let mut cfg = WorldCfg::default();
    cfg.onchain = onchain;
    cfg.oracle_pubkeys = vec![oracle_pub(0)];
    cfg.policy = Some(policy_with(|p| {
        p.min_feerate_per_kw = 500;
        p.max_feerate_per_kw = 20_000;
        if filtered {
            p.filter = unrelated_filter(&["policy-sweep", "policy-htlc", "policy-onchain"]);
        }
        if nonzero {
            use lightning_signer::policy::filter::{FilterResult, FilterRule, PolicyFilter};
            p.filter = PolicyFilter { rules: vec![FilterRule { tag: "policy-channel-safe-type".into(), is_prefix: false, action: FilterResult::Warn }] };
        }
    }));
    cfg.allowlist = vec![foreign_address(1, cfg.network)];
    let w = World::new(cfg.clone());
    let mut chain = w.new_sim_chain();
    for i in 0..HEIGHT {
        let b = make_block(&chain.tip().0, chain.height() + 1, i, vec![]);
        assert!(w.connect(&mut chain, b, Delivery::Compact).is_ok());
    }
    // open the channel on this world (open() builds its own world, so do it by hand)
    let v = SetupV::basic(anchors, true);
    let cp = Cp::new(110);
    assert!(w.new_channel(DBID).is_ok());
    let holder_pubkeys = w.holder_basepoints(DBID).unwrap();
    let mut setup = make_setup(&w, &cp, &v);
    if nonzero {
        setup.commitment_type = lightning_signer::channel::CommitmentType::Anchors;
    }
    assert!(w.setup_channel(DBID, &setup).is_ok());
    let params = ChanParams { setup: setup.clone(), holder_pubkeys };
    let ch = Chan { w, cp, setup, params, v };
    ch.start().expect("start");
    let hgt = ch.w.peek_chan(DBID, |c| c.monitor.as_chain_state().current_height).unwrap();
    assert_eq!(hgt, HEIGHT, "chain height as the channel sees it");
    Ctx { ch }
}

fn rel_lock(seq: u32) -> Option<u32> {
    // BIP-68: bit 31 disables the relative lock; bit 22 selects 512-second units
    if seq & (1 << 31) != 0 {
        return Some(0);
    }
    let v = seq & 0xffff;
    if seq & (1 << 22) != 0 {
        Some(v * 512 / 600)
    } else if seq & 0x7fff_0000 & !(1 << 22) != 0 {
        // undefined bits set: treat as not a plain height lock
        None
    } else {
        Some(v)
    }
}

fn sweep_reference(s: &Sweep, delay: u16) -> Result<(), String> {
    match s.outs {
        OutP::Wallet | OutP::Allowlisted | OutP::WalletWallet | OutP::WalletAllowlisted => {}
        _ => return Err("output-not-wallet-or-allowlisted".into()),
    }
    if s.version != 2 {
        return Err("version".into());
    }
    // locktime: a height not beyond the envelope, or a timestamp in the past
    let lt = s.locktime;
    let bound = match s.kind {
        SweepK::CpHtlcReceived => CLTV.max(HEIGHT) + 144,
        _ => HEIGHT + 144,
    };
    if lt < 500_000_000 {
        if lt > bound {
            return Err("locktime-beyond-height-envelope".into());
        }
    } else if lt as u64 > START_TIME {
        return Err("locktime-in-the-future".into());
    }
    // sequence of the input that is signed
    let (lo, hi) = match s.kind {
        SweepK::Delayed => (delay as u32, delay as u32 + 144),
        // a revoked output can be claimed at once and a non-anchors HTLC output has no CSV: nothing
        // implies a relative lock there, so none is within bounds (a lock would only give the other
        // side time); with anchors the HTLC outputs carry a one-block CSV
        SweepK::Justice => (0, 0),
        _ =>
            if s.anchors {
                (1, 145)
            } else {
                (0, 0)
            },
    };
    match rel_lock(s.seq) {
        Some(l) if l >= lo && l <= hi => {}
        _ => return Err("signed-input-sequence-outside-delay-envelope".into()),
    }
    if s.kind == SweepK::Delayed && s.seq & (1 << 31) != 0 {
        return Err("signed-input-sequence-outside-delay-envelope".into());
    }
    Ok(())
}

/// PSBT as the node sends it next to a sweep: the spent output on the signed input, and the wallet
/// derivation path (if any) on the outputs
fn sweep_psbt(tx: &Transaction, idx: usize, rs: &ScriptBuf, amount: u64, first_out_path: Option<u32>) -> Psbt {
    let mut psbt = Psbt::from_unsigned_tx(tx.clone()).expect("psbt");
    for (i, inp) in psbt.inputs.iter_mut().enumerate() {
        // the other input spends something unrelated
        let (v, sc) = if i == idx { (amount, rs.to_p2wsh()) } else { (77_000, foreign_script(7)) };
        inp.witness_utxo = Some(TxOut { value: Amount::from_sat(v), script_pubkey: sc });
    }
    if let Some(p) = first_out_path {
        let pk = PublicKey::from_secret_key(&secp(), &sk(99));
        for o in psbt.outputs.iter_mut() {
            o.bip32_derivation.insert(pk, (Fingerprint::default(), wallet_path(p)));
        }
    }
    psbt
}

fn wire_sig(o: Outcome<Message>, want_sighash: Option<EcdsaSighashType>) -> Outcome<lightning_signer::bitcoin::secp256k1::ecdsa::Signature> {
    match o {
        Outcome::Ok(Message::SignTxReply(r)) => {
            if let Some(t) = want_sighash {
                if r.signature.sighash != t as u8 {
                    return Outcome::Err(format!("wire-reply-sighash-type:{}", r.signature.sighash));
                }
            }
            match sig_from_wire(&r.signature) {
                Some(s) => Outcome::Ok(s),
                None => Outcome::Err("wire-reply-signature-unparsable".into()),
            }
        }
        Outcome::Ok(_) => Outcome::Err("wire-reply-of-another-type".into()),
        Outcome::Err(e) => Outcome::Err(e),
        Outcome::Panic(p) => Outcome::Panic(p),
    }
}

fn run_sweep(ctx: &Ctx, s: &Sweep) -> (String, Option<(String, String)>) {
    let ch = &ctx.ch;
    let w = &ch.w;
    let wp = wallet_path(5);
    let ws = wallet_script(w, 5);
    let ws2 = wallet_script(w, 6);
    let outs: Vec<ScriptBuf> = match s.outs {
        OutP::Wallet => vec![ws.clone()],
        OutP::WalletOtherPath => vec![ws2.clone()],
        OutP::Allowlisted => vec![foreign_script(1)],
        OutP::Foreign => vec![foreign_script(2)],
        OutP::WalletWallet => vec![ws.clone(), ws.clone()],
        OutP::WalletForeign => vec![ws.clone(), foreign_script(2)],
        OutP::ForeignWallet => vec![foreign_script(2), ws.clone()],
        OutP::AllowlistedForeign => vec![foreign_script(1), foreign_script(2)],
        OutP::WalletAllowlisted => vec![ws.clone(), foreign_script(1)],
    };
    let n_out = outs.len() as u64;
    let txouts: Vec<TxOut> = outs.into_iter().map(|sc| TxOut { value: Amount::from_sat((AMOUNT - 1000) / n_out), script_pubkey: sc }).collect();
    let mk_in = |i: u8, seq: u32| TxIn { previous_output: OutPoint { txid: Txid::from_slice(&[0xa0 + i; 32]).unwrap(), vout: 0 }, script_sig: ScriptBuf::new(), sequence: Sequence(seq), witness: Witness::new() };
    let (inputs, idx) = match s.other {
        None => (vec![mk_in(0, s.seq)], 0usize),
        Some((oseq, 0)) => (vec![mk_in(0, s.seq), mk_in(1, oseq)], 0),
        Some((oseq, _)) => (vec![mk_in(1, oseq), mk_in(0, s.seq)], 1),
    };
    let tx = Transaction { version: Version(s.version), lock_time: LockTime::from_consensus(s.locktime), input: inputs, output: txouts };
    // the output being swept
    let n = 0u64;
    let cp_point = ch.cp.point(n);
    let holder_point = w.holder_point_raw(DBID, n).unwrap();
    let (_, hkeys) = ch.params.holder_commitment(n, &holder_point, &ch.initial_content());
    let (_, ckeys) = ch.params.counterparty_commitment(n, &cp_point, &ch.initial_content());
    let features = ch.setup.features();
    let swept_rs;
    let o = match s.kind {
        SweepK::Delayed => {
            let rs = get_revokeable_redeemscript(&hkeys.revocation_key, ch.setup.counterparty_selected_contest_delay, &hkeys.broadcaster_delayed_payment_key);
            swept_rs = rs.clone();
            let (tx2, wp2) = (tx.clone(), wp.clone());
            if s.wire {
                let psbt = WithSize(PsbtWrapper { inner: sweep_psbt(&tx, idx, &rs, AMOUNT, Some(5)) });
                let (txw, ws) = (WithSize(tx.clone()), Octets(rs.to_bytes()));
                wire_sig(
                    if s.other.is_none() {
                        w.chan_msg(DBID, Message::SignDelayedPaymentToUs(msgs::SignDelayedPaymentToUs { commitment_number: n, tx: txw, psbt, wscript: ws }))
                    } else {
                        w.root_msg(Message::SignAnyDelayedPaymentToUs(msgs::SignAnyDelayedPaymentToUs { commitment_number: n, tx: txw, psbt, wscript: ws, input: idx as u32, peer_id: PubKey(w.peer_id()), dbid: DBID }))
                    },
                    Some(EcdsaSighashType::All),
                )
            } else {
                w.with_chan(DBID, move |c| c.sign_delayed_sweep(&tx2, idx, n, &rs, AMOUNT, &wp2))
            }
        }
        SweepK::CpHtlcOffered | SweepK::CpHtlcReceived => {
            let htlc = HTLCOutputInCommitment { offered: s.kind == SweepK::CpHtlcOffered, amount_msat: AMOUNT * 1000, cltv_expiry: CLTV, payment_hash: pay_hash(1), transaction_output_index: Some(0) };
            let rs = get_htlc_redeemscript(&htlc, &features, &ckeys);
            swept_rs = rs.clone();
            let (tx2, wp2) = (tx.clone(), wp.clone());
            if s.wire {
                let psbt = WithSize(PsbtWrapper { inner: sweep_psbt(&tx, idx, &rs, AMOUNT, Some(5)) });
                let (txw, ws, pt) = (WithSize(tx.clone()), Octets(rs.to_bytes()), PubKey(cp_point.serialize()));
                wire_sig(
                    if s.other.is_none() {
                        w.chan_msg(DBID, Message::SignRemoteHtlcToUs(msgs::SignRemoteHtlcToUs { remote_per_commitment_point: pt, tx: txw, psbt, wscript: ws, option_anchors: s.anchors }))
                    } else {
                        w.root_msg(Message::SignAnyRemoteHtlcToUs(msgs::SignAnyRemoteHtlcToUs { remote_per_commitment_point: pt, tx: txw, psbt, wscript: ws, option_anchors: s.anchors, input: idx as u32, peer_id: PubKey(w.peer_id()), dbid: DBID }))
                    },
                    Some(EcdsaSighashType::All),
                )
            } else {
                w.with_chan(DBID, move |c| c.sign_counterparty_htlc_sweep(&tx2, idx, &cp_point, &rs, AMOUNT, &wp2))
            }
        }
        SweepK::Justice => {
            let rs = get_revokeable_redeemscript(&ckeys.revocation_key, ch.setup.holder_selected_contest_delay, &ckeys.broadcaster_delayed_payment_key);
            swept_rs = rs.clone();
            let secret = ch.cp.secret(n);
            let (tx2, wp2) = (tx.clone(), wp.clone());
            if s.wire {
                let psbt = WithSize(PsbtWrapper { inner: sweep_psbt(&tx, idx, &rs, AMOUNT, Some(5)) });
                let (txw, ws, sec) = (WithSize(tx.clone()), Octets(rs.to_bytes()), DisclosedSecret(secret.secret_bytes()));
                wire_sig(
                    if s.other.is_none() {
                        w.chan_msg(DBID, Message::SignPenaltyToUs(msgs::SignPenaltyToUs { revocation_secret: sec, tx: txw, psbt, wscript: ws }))
                    } else {
                        w.root_msg(Message::SignAnyPenaltyToUs(msgs::SignAnyPenaltyToUs { revocation_secret: sec, tx: txw, psbt, wscript: ws, input: idx as u32, peer_id: PubKey(w.peer_id()), dbid: DBID }))
                    },
                    Some(EcdsaSighashType::All),
                )
            } else {
                w.with_chan(DBID, move |c| c.sign_justice_sweep(&tx2, idx, &secret, &rs, AMOUNT, &wp2))
            }
        }
    };
    let refr = sweep_reference(s, ch.setup.counterparty_selected_contest_delay);
    match o {
        Outcome::Ok(sig) => {
            let mut vio = match &refr {
                Err(wy) => Some((format!("C09:sweep:{:?}:signed-although:{}", s.kind, wy), format!("{:?}: the sweep was signed although {}", s, wy))),
                Ok(()) => None,
            };
            // what was validated is the whole presented transaction: the signature has to commit
            // to all of it (SIGHASH_ALL over the swept output's script and value) under one of the
            // channel's keys for that commitment
            if vio.is_none() {
                let sh = SighashCache::new(&tx).p2wsh_signature_hash(idx, &swept_rs, Amount::from_sat(AMOUNT), EcdsaSighashType::All).unwrap();
                let msg = lightning_signer::bitcoin::secp256k1::Message::from_digest(sh.to_byte_array());
                let mut keys = vec![];
                for k in [&hkeys, &ckeys] {
                    keys.push(k.revocation_key.to_public_key());
                    keys.push(k.broadcaster_htlc_key.to_public_key());
                    keys.push(k.countersignatory_htlc_key.to_public_key());
                    keys.push(k.broadcaster_delayed_payment_key.to_public_key());
                }
                if !keys.iter().any(|k| verify_sig(&msg, &sig, k)) {
                    vio = Some((
                        format!("C09:sweep:{:?}:signature-does-not-commit-to-the-validated-transaction", s.kind),
                        format!("{:?}: the returned signature does not verify as SIGHASH_ALL over the presented sweep under any of the channel's keys for that commitment", s),
                    ));
                }
            }
            ("accepted".into(), vio)
        }
        Outcome::Err(e) => (format!("refused:{}|{}", e, refr.err().unwrap_or_default()), None),
        Outcome::Panic(p) => (format!("panic:{}", p.chars().take(40).collect::<String>()), None),
    }
}

fn sweeps(tier: Tier) -> Vec<Sweep> {
    let delay = 7u32; // counterparty_selected_contest_delay of the base setup
    let versions = [2, 1, 3];
    let locktimes = [0, HEIGHT, HEIGHT + 2, HEIGHT + 3, HEIGHT + 145, CLTV, CLTV + 1, CLTV + 145, 499_999_999, 500_000_000, 1_600_000_000, 2_000_000_000, u32::MAX];
    let seqs = [delay, delay - 1, delay + 1, 0, 1, 0xffff_fffd, 0xffff_ffff, 0xffff_fffe, 65_535, (1 << 22) | delay, delay + 145];
    let others: Vec<Option<(u32, usize)>> = match tier {
        Tier::Quick => vec![None, Some((delay, 1)), Some((0, 1)), Some((0xffff_fffd, 1)), Some((1, 1)), Some((0, 0))],
        Tier::Thorough => {
            let mut v = vec![None];
            for o in [delay, 0, 1, 0xffff_fffd, 0xffff_ffff, delay + 1] {
                v.push(Some((o, 0)));
                v.push(Some((o, 1)));
            }
            v
        }
    };
    let outs = [OutP::Wallet, OutP::WalletOtherPath, OutP::Allowlisted, OutP::Foreign, OutP::WalletWallet, OutP::WalletForeign, OutP::ForeignWallet, OutP::AllowlistedForeign, OutP::WalletAllowlisted];
    let mut v = vec![];
    for anchors in [false, true] {
        for kind in [SweepK::Delayed, SweepK::CpHtlcOffered, SweepK::CpHtlcReceived, SweepK::Justice] {
            for version in versions {
                for locktime in locktimes {
                    for seq in seqs {
                        for other in &others {
                            for o in outs {
                                // quick: non-base versions only with base outputs
                                if tier == Tier::Quick && version != 2 && o != OutP::Wallet {
                                    continue;
                                }
                                v.push(Sweep { anchors, kind, version, locktime, seq, other: *other, outs: o, onchain: false, filtered: false, wire: false });
                                // every sweep also as the protocol message through the handler (quick:
                                // single-input ones and the two-input ones with the signed input second)
                                if tier == Tier::Thorough || other.is_none() || matches!(other, Some((_, 1))) {
                                    v.push(Sweep { anchors, kind, version, locktime, seq, other: *other, outs: o, onchain: false, filtered: false, wire: true });
                                }
                                if other.is_none() {
                                    // single-input sweeps once more under the chain-aware validator
                                    v.push(Sweep { anchors, kind, version, locktime, seq, other: *other, outs: o, onchain: true, filtered: false, wire: false });
                                    v.push(Sweep { anchors, kind, version, locktime, seq, other: *other, outs: o, onchain: false, filtered: true, wire: false });
                                }
                            }
                        }
                    }
                }
            }
        }
    }
    v
}

// ------------------------------------------------------------------------------------------
// second-level HTLC transactions
// ------------------------------------------------------------------------------------------

#[derive(Clone, Debug, PartialEq, Eq, Hash, Serialize, Deserialize)]
pub enum HMut {
    Version(i32),
    LockTime(i64),
    LockTimeZero,
    Sequence(u32),
    PrevTxid,
    PrevVout,
    /// fee such that the implied rate is this
    FeeRate(u64),
    OutValue(i64),
    /// the output pays a revokeable script with another delay / revocation key / delayed key
    OutDelay(i32),
    OutRevocationKey,
    OutDelayedKey,
    OutForeign,
    ExtraOutput,
    ExtraInput,
    Amount(i64),
    /// redeemscript of the other HTLC kind
    OtherRedeemscript,
    /// redeemscript that is not an HTLC script
    JunkRedeemscript,
    OtherPoint,
}

#[derive(Clone, Debug, PartialEq, Eq, Hash, Serialize, Deserialize)]
pub struct HCase {
    pub anchors: bool,
    pub counterparty: bool,
    pub offered: bool,
    pub muts: Vec<HMut>,
    /// the node runs the chain-aware validator
    #[serde(default)]
    pub onchain: bool,
    /// the policy demotes the tag families that no sweep / HTLC-transaction rule reports under
    #[serde(default)]
    pub filtered: bool,
    /// through the protocol messages SignLocalHtlcTx / SignRemoteHtlcTx (amount and output script
    /// taken from the PSBT by the handler)
    #[serde(default)]
    pub wire: bool,
    /// the channel is of the anchors type whose HTLC transactions still pay their own fee
    /// (`option_anchor_outputs`); the policy demotes only `policy-channel-safe-type`
    #[serde(default)]
    pub nonzero: bool,
}

fn hmuts() -> Vec<HMut> {
    vec![
        HMut::Version(1),
        HMut::Version(3),
        HMut::LockTime(1),
        HMut::LockTime(-1),
        HMut::LockTimeZero,
        HMut::Sequence(0),
        HMut::Sequence(1),
        HMut::Sequence(2),
        HMut::Sequence(0xffff_fffd),
        HMut::PrevTxid,
        HMut::PrevVout,
        HMut::FeeRate(0),
        HMut::FeeRate(498),
        HMut::FeeRate(500),
        HMut::FeeRate(20_000),
        HMut::FeeRate(20_002),
        HMut::FeeRate((1 << 32) + 1000),
        HMut::OutValue(1),
        HMut::OutValue(-1),
        HMut::OutDelay(1),
        HMut::OutDelay(-1),
        HMut::OutRevocationKey,
        HMut::OutDelayedKey,
        HMut::OutForeign,
        HMut::ExtraOutput,
        HMut::ExtraInput,
        HMut::Amount(1),
        HMut::Amount(-1),
        HMut::OtherRedeemscript,
        HMut::JunkRedeemscript,
        HMut::OtherPoint,
    ]
}

fn run_htlc(ctx: &Ctx, c: &HCase) -> (String, Option<(String, String)>) {
    let ch = &ctx.ch;
    let w = &ch.w;
    let n = 0u64;
    let base_rate: u32 = 1000;
    let mut point: PublicKey = if c.counterparty { ch.cp.point(n) } else { w.holder_point_raw(DBID, n).unwrap() };
    let mut other_point = false;
    for m in &c.muts {
        if *m == HMut::OtherPoint {
            point = ch.cp.rogue_point(3);
            other_point = true;
        }
    }
    let keys_for = |p: &PublicKey| -> TxCreationKeys {
        if c.counterparty {
            ch.params.counterparty_commitment(n, p, &ch.initial_content()).1
        } else {
            ch.params.holder_commitment(n, p, &ch.initial_content()).1
        }
    };
    let keys = keys_for(&point);
    let delay = if c.counterparty { ch.setup.holder_selected_contest_delay } else { ch.setup.counterparty_selected_contest_delay };
    let features = ch.setup.features();
    // the HTLC output script of every anchors channel carries the one-block CSV (BOLT-3); LDK's
    // script builder only adds it for the zero-fee flavour, so the script is built with those
    let rs_features = if c.nonzero { lightning_signer::lightning::types::features::ChannelTypeFeatures::anchors_zero_htlc_fee_and_dependencies() } else { features.clone() };
    let zero_fee = ch.setup.is_zero_fee_htlc();
    let mut amount = AMOUNT;
    let mut htlc = HTLCOutputInCommitment { offered: c.offered, amount_msat: amount * 1000, cltv_expiry: CLTV, payment_hash: pay_hash(1), transaction_output_index: Some(2) };
    let commitment_txid = Txid::from_slice(&[0xb7; 32]).unwrap();
    let mut redeem = get_htlc_redeemscript(&htlc, &rs_features, &keys);
    let mut tx = build_htlc_transaction(&commitment_txid, if zero_fee { 0 } else { base_rate }, delay, &htlc, &features, &keys.broadcaster_delayed_payment_key, &keys.revocation_key);
    let weight: u64 = if c.offered {
        lightning_signer::lightning::ln::chan_utils::htlc_timeout_tx_weight(&features)
    } else {
        lightning_signer::lightning::ln::chan_utils::htlc_success_tx_weight(&features)
    };
    let out_ws = get_revokeable_redeemscript(&keys.revocation_key, delay, &keys.broadcaster_delayed_payment_key);
    for m in &c.muts {
        match m {
            HMut::Version(v) => tx.version = Version(*v),
            HMut::LockTime(d) => tx.lock_time = LockTime::from_consensus((tx.lock_time.to_consensus_u32() as i64 + d).max(0) as u32),
            HMut::LockTimeZero => tx.lock_time = LockTime::ZERO,
            HMut::Sequence(s) => tx.input[0].sequence = Sequence(*s),
            HMut::PrevTxid => tx.input[0].previous_output.txid = Txid::from_slice(&[0xb8; 32]).unwrap(),
            HMut::PrevVout => tx.input[0].previous_output.vout += 1,
            HMut::FeeRate(r) => {
                let fee = (*r as u128 * weight as u128 / 1000).min(amount as u128) as u64;
                tx.output[0].value = Amount::from_sat(amount - fee);
            }
            HMut::OutValue(d) => tx.output[0].value = Amount::from_sat((tx.output[0].value.to_sat() as i64 + d).max(0) as u64),
            HMut::OutDelay(d) => tx.output[0].script_pubkey = get_revokeable_redeemscript(&keys.revocation_key, (delay as i32 + d) as u16, &keys.broadcaster_delayed_payment_key).to_p2wsh(),
            HMut::OutRevocationKey => {
                let k2 = keys_for(&ch.cp.rogue_point(9));
                tx.output[0].script_pubkey = get_revokeable_redeemscript(&k2.revocation_key, delay, &keys.broadcaster_delayed_payment_key).to_p2wsh();
            }
            HMut::OutDelayedKey => {
                let k2 = keys_for(&ch.cp.rogue_point(9));
                tx.output[0].script_pubkey = get_revokeable_redeemscript(&keys.revocation_key, delay, &k2.broadcaster_delayed_payment_key).to_p2wsh();
            }
            HMut::OutForeign => tx.output[0].script_pubkey = foreign_script(2),
            HMut::ExtraOutput => tx.output.push(TxOut { value: Amount::from_sat(700), script_pubkey: foreign_script(2) }),
            HMut::ExtraInput => tx.input.push(TxIn { previous_output: OutPoint { txid: Txid::from_slice(&[0xb9; 32]).unwrap(), vout: 1 }, script_sig: ScriptBuf::new(), sequence: Sequence(0xffff_fffd), witness: Witness::new() }),
            HMut::Amount(d) => amount = (amount as i64 + d) as u64,
            HMut::OtherRedeemscript => {
                htlc.offered = !htlc.offered;
                redeem = get_htlc_redeemscript(&htlc, &rs_features, &keys);
                htlc.offered = !htlc.offered;
            }
            HMut::JunkRedeemscript => redeem = out_ws.clone(),
            HMut::OtherPoint => {}
        }
    }
    let (tx2, rs2, ows) = (tx.clone(), redeem.clone(), out_ws.clone());
    struct Ts {
        sig: lightning_signer::bitcoin::secp256k1::ecdsa::Signature,
        typ: EcdsaSighashType,
    }
    let o: Outcome<Ts> = if c.wire {
        let mut psbt = Psbt::from_unsigned_tx(tx.clone()).expect("psbt");
        psbt.inputs[0].witness_utxo = Some(TxOut { value: Amount::from_sat(amount), script_pubkey: redeem.to_p2wsh() });
        for i in psbt.inputs.iter_mut().skip(1) {
            i.witness_utxo = Some(TxOut { value: Amount::from_sat(77_000), script_pubkey: foreign_script(7) });
        }
        psbt.outputs[0].witness_script = Some(out_ws.clone());
        let (txw, pw, ws) = (WithSize(tx.clone()), WithSize(PsbtWrapper { inner: psbt }), Octets(redeem.to_bytes()));
        let r = if c.counterparty {
            w.chan_msg(DBID, Message::SignRemoteHtlcTx(msgs::SignRemoteHtlcTx { tx: txw, psbt: pw, wscript: ws, remote_per_commitment_point: PubKey(point.serialize()), option_anchors: c.anchors }))
        } else {
            w.chan_msg(DBID, Message::SignLocalHtlcTx(msgs::SignLocalHtlcTx { commitment_number: n, tx: txw, psbt: pw, wscript: ws, option_anchors: c.anchors }))
        };
        match r {
            Outcome::Ok(Message::SignTxReply(r)) => match (sig_from_wire(&r.signature), EcdsaSighashType::from_standard(r.signature.sighash as u32)) {
                (Some(sig), Ok(typ)) => Outcome::Ok(Ts { sig, typ }),
                _ => Outcome::Err("wire-reply-unparsable".into()),
            },
            Outcome::Ok(_) => Outcome::Err("wire-reply-of-another-type".into()),
            Outcome::Err(e) => Outcome::Err(e),
            Outcome::Panic(p) => Outcome::Panic(p),
        }
    } else if c.counterparty {
        match w.with_chan(DBID, move |chn| chn.sign_counterparty_htlc_tx(&tx2, &point, &rs2, amount, &ows)) {
            Outcome::Ok(t) => Outcome::Ok(Ts { sig: t.sig, typ: t.typ }),
            Outcome::Err(e) => Outcome::Err(e),
            Outcome::Panic(p) => Outcome::Panic(p),
        }
    } else {
        // with an explicit point only when it deviates
        let op = if other_point { Some(point) } else { None };
        match w.with_chan(DBID, move |chn| chn.sign_holder_htlc_tx(&tx2, n, op, &rs2, amount, &ows)) {
            Outcome::Ok(t) => Outcome::Ok(Ts { sig: t.sig, typ: t.typ }),
            Outcome::Err(e) => Outcome::Err(e),
            Outcome::Panic(p) => Outcome::Panic(p),
        }
    };
    match o {
        Outcome::Err(e) => (format!("refused:{}", e), None),
        Outcome::Panic(p) => (format!("panic:{}", p.chars().take(40).collect::<String>()), None),
        Outcome::Ok(ts) => {
            let kinds: Vec<String> = c.muts.iter().map(|m| format!("{:?}", m).split('(').next().unwrap().to_string()).collect();
            let key = |what: &str| format!("C09:htlc-tx:{}:{}:{}", if c.counterparty { "counterparty" } else { "holder" }, what, kinds.join("+"));
            // the kind the supplied redeemscript denotes
            let offered_rs = redeem == get_htlc_redeemscript(&HTLCOutputInCommitment { offered: true, ..htlc.clone() }, &rs_features, &keys);
            let received_rs = redeem == get_htlc_redeemscript(&HTLCOutputInCommitment { offered: false, ..htlc.clone() }, &rs_features, &keys);
            if !offered_rs && !received_rs {
                return ("accepted".into(), Some((key("signed-with-non-htlc-redeemscript"), format!("{:?}", c))));
            }
            let sht = if ch.setup.is_anchors() { EcdsaSighashType::SinglePlusAnyoneCanPay } else { EcdsaSighashType::All };
            if ts.typ != sht {
                return ("accepted".into(), Some((key("wrong-sighash-type"), format!("{:?}: {:?}", c, ts.typ))));
            }
            if tx.output.is_empty() || tx.input.is_empty() {
                return ("accepted".into(), Some((key("signed-empty-tx"), format!("{:?}", c))));
            }
            let fee = amount as i128 - tx.output[0].value.to_sat() as i128;
            if fee < 0 {
                return ("accepted".into(), Some((key("negative-fee"), format!("{:?}", c))));
            }
            let fee = fee as u128;
            // rates consistent with this fee under BOLT-3's fee formula, intersected with the policy
            // range; the weight is that of the transaction kind the supplied redeemscript denotes
            let wgt = if offered_rs {
                lightning_signer::lightning::ln::chan_utils::htlc_timeout_tx_weight(&features) as u128
            } else {
                lightning_signer::lightning::ln::chan_utils::htlc_success_tx_weight(&features) as u128
            };
            let mut candidates: Vec<u32> = vec![];
            if zero_fee {
                if fee == 0 {
                    candidates.push(0);
                }
            } else {
                // (for the fee-paying anchors type the two libraries' weight constants differ by the
                // three units of the CSV: a rate consistent under either is in range)
                let wgts: Vec<u128> = if c.nonzero { vec![wgt, wgt + 3] } else { vec![wgt] };
                for wgt in wgts {
                    let lo = (fee * 1000 + wgt - 1) / wgt;
                    let hi = (fee * 1000 + 999) / wgt;
                    let mut f = lo;
                    while f <= hi && candidates.len() < 8 {
                        if f * wgt / 1000 == fee && f >= 500 && f <= 20_000 {
                            candidates.push(f as u32);
                        }
                        f += 1;
                    }
                }
            }
            if candidates.is_empty() {
                return ("accepted".into(), Some((key("fee-rate-out-of-range"), format!("{:?}: fee {} on weight {}", c, fee, weight))));
            }
            let h2 = HTLCOutputInCommitment { offered: offered_rs, amount_msat: amount * 1000, cltv_expiry: if offered_rs { tx.lock_time.to_consensus_u32() } else { 0 }, payment_hash: pay_hash(1), transaction_output_index: Some(tx.input[0].previous_output.vout) };
            if offered_rs && h2.cltv_expiry == 0 {
                return ("accepted".into(), Some((key("offered-htlc-without-locktime"), format!("{:?}", c))));
            }
            let sh = |t: &Transaction| SighashCache::new(t).p2wsh_signature_hash(0, &redeem, Amount::from_sat(amount), sht).map(|h| h.to_byte_array());
            let got = sh(&tx);
            let mut matched = None;
            for f in candidates {
                let canon = build_htlc_transaction(&tx.input[0].previous_output.txid, f, delay, &h2, &features, &keys.broadcaster_delayed_payment_key, &keys.revocation_key);
                if sh(&canon).ok() == got.clone().ok() {
                    matched = Some(canon);
                    break;
                }
            }
            let canon = match matched {
                Some(x) => x,
                None => return ("accepted".into(), Some((key("not-the-bolt3-htlc-transaction"), format!("{:?}: the signed transaction is not the BOLT-3 HTLC transaction for the negotiated delay and keys at any in-range fee rate", c)))),
            };
            let msg = lightning_signer::bitcoin::secp256k1::Message::from_digest(sh(&canon).unwrap());
            let htlc_key = if c.counterparty { keys.countersignatory_htlc_key.to_public_key() } else { keys.broadcaster_htlc_key.to_public_key() };
            if !verify_sig(&msg, &ts.sig, &htlc_key) {
                return ("accepted".into(), Some((key("signature-not-over-bolt3-htlc-transaction"), format!("{:?}", c))));
            }
            ("accepted".into(), None)
        }
    }
}

pub fn main(tier: Tier) -> i32 {
    let mut run = Run::new("C09", tier, "model_checking", "txgrid-c09");
    let t0 = std::time::Instant::now();
    let sw = sweeps(tier);
    let mut hc = vec![];
    let ms = hmuts();
    for anchors in [false, true] {
        for counterparty in [false, true] {
            for offered in [false, true] {
                for s in dev_sets(ms.len(), tier.pick(1, 2)) {
                    for onchain in [false, true] {
                        hc.push(HCase { anchors, counterparty, offered, muts: s.iter().map(|i| ms[*i].clone()).collect(), onchain, filtered: false, wire: false, nonzero: false });
                        if !onchain {
                            hc.push(HCase { anchors, counterparty, offered, muts: s.iter().map(|i| ms[*i].clone()).collect(), onchain, filtered: true, wire: false, nonzero: false });
                            // through the protocol message (the holder's message carries no point)
                            let muts: Vec<HMut> = s.iter().map(|i| ms[*i].clone()).collect();
                            if counterparty || !muts.contains(&HMut::OtherPoint) {
                                hc.push(HCase { anchors, counterparty, offered, muts, onchain, filtered: false, wire: true, nonzero: false });
                            }
                        }
                    }
                }
            }
        }
    }
    // the fee-paying anchors type (refused by the default policy; here only that rule is demoted):
    // every single mutation, both sides and kinds, semantic entry point and message
    for counterparty in [false, true] {
        for offered in [false, true] {
            for s in dev_sets(ms.len(), 1) {
                let muts: Vec<HMut> = s.iter().map(|i| ms[*i].clone()).collect();
                hc.push(HCase { anchors: true, counterparty, offered, muts: muts.clone(), onchain: false, filtered: false, wire: false, nonzero: true });
                if counterparty || !muts.contains(&HMut::OtherPoint) {
                    hc.push(HCase { anchors: true, counterparty, offered, muts, onchain: false, filtered: false, wire: true, nonzero: true });
                }
            }
        }
    }
    // one channel per commitment type and worker thread
    let threads = nthreads();
    #[derive(Clone)]
    enum Job {
        S(Sweep),
        H(HCase),
    }
    let mut jobs: Vec<Job> = sw.iter().cloned().map(Job::S).collect();
    jobs.extend(hc.iter().cloned().map(Job::H));
    let chunks: Vec<Vec<Job>> = jobs.chunks((jobs.len() + threads - 1) / threads).map(|c| c.to_vec()).collect();
    let results = par_map(&chunks, threads, |chunk| {
        let ctxs = [make_ctx(false, false, false), make_ctx(true, false, false), make_ctx(false, true, false), make_ctx(true, true, false), make_ctx(false, false, true), make_ctx(true, false, true), make_ctx(false, false, false), make_ctx(false, false, false), make_ctx2(true, false, false, true)];
        let mut out = vec![];
        for j in chunk {
            match j {
                Job::S(s) => {
                    let (class, vio) = run_sweep(&ctxs[s.anchors as usize + 2 * s.onchain as usize + 4 * s.filtered as usize], s);
                    out.push((format!("sweep|{:?}|{}{}|v{}|{}", s.kind, s.anchors, if s.onchain { "|onchain" } else if s.filtered { "|filtered" } else if s.wire { "|wire" } else { "" }, s.version, class), class.starts_with("accepted"), vio, json!({"engine": "c09", "sweep": s})));
                }
                Job::H(h) => {
                    let (class, vio) = run_htlc(&ctxs[if h.nonzero { 8 } else { h.anchors as usize + 2 * h.onchain as usize + 4 * h.filtered as usize }], h);
                    let kinds: Vec<String> = h.muts.iter().map(|m| format!("{:?}", m).split('(').next().unwrap().to_string()).collect();
                    out.push((format!("htlc|{}{}|{}|{}|{}|{}", h.anchors, if h.nonzero && h.wire { "|fee-paying-anchors|wire" } else if h.nonzero { "|fee-paying-anchors" } else if h.onchain { "|onchain" } else if h.filtered { "|filtered" } else if h.wire { "|wire" } else { "" }, h.counterparty, h.offered, kinds.join("+"), class), class.starts_with("accepted"), vio, json!({"engine": "c09", "htlc": h})));
                }
            }
        }
        out
    });
    let mut classes: BTreeSet<String> = BTreeSet::new();
    let (mut evals, mut acc, mut panics, mut base_htlc_acc, mut acc_sweeps) = (0u64, 0u64, 0u64, 0u64, 0u64);
    let (mut wire_htlc_base_acc, mut wire_sweeps_acc) = (0u64, 0u64);
    let mut samples = vec![];
    for chunk in results {
        for (class, accepted, vio, rep) in chunk {
            evals += 1;
            if accepted {
                acc += 1;
                if class.starts_with("sweep") {
                    acc_sweeps += 1;
                    if class.contains("|wire|") {
                        wire_sweeps_acc += 1;
                    }
                }
                if class.starts_with("htlc") && class.contains("|wire|") && class.contains("||accepted") {
                    wire_htlc_base_acc += 1;
                }
                if class.starts_with("htlc") && class.contains("||accepted") {
                    base_htlc_acc += 1;
                }
                if samples.len() < 3 {
                    samples.push(rep.clone());
                }
            }
            if class.contains("panic") {
                panics += 1;
            }
            classes.insert(class);
            if let Some((k, w)) = vio {
                run.violation(&k, &w, rep);
            }
        }
    }
    if base_htlc_acc < 24 {
        run.vacuous(&format!("only {} of 24 unmutated HTLC transactions were signed", base_htlc_acc));
    }
    if acc_sweeps == 0 {
        run.vacuous("no sweep was signed");
    }
    if wire_sweeps_acc == 0 || wire_htlc_base_acc < 8 {
        run.vacuous(&format!("through the protocol messages only {} sweeps and {} of 8 unmutated HTLC transactions were signed", wire_sweeps_acc, wire_htlc_base_acc));
    }
    run.assume("sweep envelope: every output wallet-derivable at the presented path or allowlisted; version 2; locktime a height <= max(height, HTLC expiry for a received-HTLC sweep) + 144 or a timestamp in the past; relative lock of the signed input (BIP-68 decoding) within [contest delay, +144] for delayed sweeps, [1,145] for anchor HTLC sweeps, and no relative lock at all for justice sweeps and non-anchor HTLC sweeps (nothing implies one)");
    run.assume("HTLC transactions: accepted => the supplied redeemscript is the offered / received HTLC script, the implied fee rate under BOLT-3's formula is within the policy range (0 for zero-fee HTLC channels), the transaction's sighash equals that of the BOLT-3 HTLC transaction built by the harness for the negotiated delay and keys, and the signature verifies against it under the node's HTLC key; the outpoint is taken from the request (it cannot be validated there)");
    let _ = t0;
    let cov = json!({
        "states": evals,
        "transitions": evals,
        "traces_validated_against_impl": evals,
        "evaluations": evals,
        "distinct_nontrivial": classes.len(),
        "exhaustive": true,
        "sweep_cases": sw.len(),
        "htlc_cases": hc.len(),
        "accepted": acc,
        "accepted_sweeps": acc_sweeps,
        "unmutated_htlc_accepted": base_htlc_acc,
        "accepted_sweeps_through_protocol_messages": wire_sweeps_acc,
        "unmutated_htlc_accepted_through_protocol_messages": wire_htlc_base_acc,
        "panics": panics,
        "samples": samples,
        "rule": "sweeps: full product of the field alphabets; HTLC transactions: base x every set of <= d mutations; distinct = (request kind, type, mutation kinds / version, outcome class with the first broken clause of the reference)",
    });
    run.finish(cov)
}

pub fn replay(v: &Value) {
    let rp = &v["replay"];
    for round in 0..2 {
        if let Ok(s) = serde_json::from_value::<Sweep>(rp["sweep"].clone()) {
            let ctx = make_ctx(s.anchors, s.onchain, s.filtered);
            println!("round {}: {:?}", round, run_sweep(&ctx, &s));
        } else if let Ok(h) = serde_json::from_value::<HCase>(rp["htlc"].clone()) {
            let ctx = make_ctx2(h.anchors, h.onchain, h.filtered, h.nonzero);
            println!("round {}: {:?}", round, run_htlc(&ctx, &h));
        } else {
            machinery_failure("unrecognised C09 replay");
        }
    }
}
