//! Per-property check entry points: run the engines that serve the property, keep the
//! violations tagged with it, write evidence.

use crate::chanfsm::{self, Side};
use crate::ev::*;
use crate::vmc::*;
use serde_json::{json, Value};

fn add_found(run: &mut Run, prop: &str, found: &[Found]) -> usize {
    let mut others = 0;
    for f in found {
        if f.vio.prop == prop {
            run.violation(&f.vio.key, &f.vio.what, f.replay.clone());
        } else {
            others += 1;
        }
    }
    others
}

fn mc_coverage(stats: &BfsStats, models: &[String], extra: Value) -> Value {
    let mut v = json!({
        "states": stats.states,
        "transitions": stats.transitions,
        "traces_validated_against_impl": stats.transitions,
        "samples": stats.samples,
        "exhaustive": stats.closed || stats.bounded_complete,
        "closed": stats.closed,
        "bounded_complete": stats.bounded_complete,
        "max_depth": stats.max_depth,
        "dead_ends_after_panic": stats.dead_ends,
        "pruned_after_state_corrupting_violation": stats.pruned,
        "models": models,
        "rule": "replay-based explicit-state BFS; every transition is one request executed on a freshly built real signer after replaying the history; 'closed' means the frontier emptied (fixpoint under the counter caps)",
    });
    if let (Some(o), Some(e)) = (v.as_object_mut(), extra.as_object()) {
        for (k, val) in e {
            o.insert(k.clone(), val.clone());
        }
    }
    v
}

pub fn c01(tier: Tier) -> i32 {
    let mut run = Run::new("C01", tier, "model_checking", "chanfsm");
    let r = chanfsm::explore(tier, Side::Holder, false, tier.pick(45.0, 900.0));
    let others = add_found(&mut run, "C01", &r.found);
    run.assume("commitment numbers capped (k=2 quick, k=3 thorough); the code depends on numbers only through comparisons with the counters and the special cases 0/1/2");
    run.assume("secrets are recognised by comparing reply fields with the channel's first k+6 BOLT-3 secrets");
    run.finish(mc_coverage(&r.stats, &r.models, json!({"violations_of_other_properties_seen": others})))
}

pub fn c02(tier: Tier) -> i32 {
    let mut run = Run::new("C02", tier, "model_checking", "chanfsm");
    let r = chanfsm::explore(tier, Side::Holder, false, tier.pick(45.0, 900.0));
    let others = add_found(&mut run, "C02", &r.found);
    run.assume("a released signature is attributed to commitment n by verifying it against the holder commitment transactions the harness builds for n < k+3 and contents A/B/B2");
    run.finish(mc_coverage(&r.stats, &r.models, json!({"violations_of_other_properties_seen": others})))
}

pub fn c03(tier: Tier) -> i32 {
    let mut run = Run::new("C03", tier, "model_checking", "chanfsm+secretstore");
    let r = chanfsm::explore(tier, Side::Cp, false, tier.pick(40.0, 900.0));
    let others = add_found(&mut run, "C03", &r.found);
    let st = crate::secretstore::run_store(&mut run);
    run.assume("counterparty commitment numbers capped (k=3 quick, k=4 thorough)");
    run.assume("secret store: all sequences of provide_secret over the first 6 (8) indices x {tree, rogue, other-tree} up to length 4 (5), plus the in-order run of 40");
    let mut cov = mc_coverage(&r.stats, &r.models, json!({
        "violations_of_other_properties_seen": others,
        "secretstore_sequences": st.sequences,
        "secretstore_steps": st.steps,
        "secretstore_accepted": st.accepted,
        "secretstore_rejected": st.rejected,
        "secretstore_distinct_accept_patterns": st.distinct_outcomes,
    }));
    if let Some(a) = cov["samples"].as_array_mut() {
        a.extend(st.samples.clone());
    }
    run.finish(cov)
}

/// engines whose histories carry the C10 / C11 monitors
fn history_engines(tier: Tier, budget: f64) -> (BfsStats, Vec<Found>, Vec<String>) {
    let mut stats = BfsStats { closed: true, ..Default::default() };
    let mut found = vec![];
    let mut models = vec![];
    // the input-shape grids (commitments and setup, mutual close, on-chain) with the monitors
    // around every request: thousands of refused requests in states the histories do not visit
    {
        crate::monitors::set_grid_monitors(true);
        let t = std::time::Instant::now();
        let slice = tier.pick(5.0, 120.0);
        let mut seen = std::collections::HashSet::new();
        for (name, (n, vs)) in [("c05", crate::c05::monitored(slice)), ("c07", crate::c07::monitored(slice)), ("c08", crate::c08::monitored(slice))] {
            stats.transitions += n;
            stats.states += n;
            models.push(format!("grid {} with monitors: {} requests, {} monitor violation(s)", name, n, vs.len()));
            for (v, rep) in vs {
                if seen.insert(format!("{}|{}", v.prop, v.key)) {
                    found.push(Found { vio: v, replay: rep });
                }
            }
        }
        crate::monitors::set_grid_monitors(false);
        let _ = t;
    }
    for side in [Side::Holder, Side::Cp] {
        let r = chanfsm::explore(tier, side, true, budget / 2.0);
        merge_stats(&mut stats, &r.stats);
        found.extend(r.found);
        models.extend(r.models);
    }
    let r = crate::chain13::explore(tier, budget / 4.0);
    merge_stats(&mut stats, &r.stats);
    found.extend(r.found);
    models.extend(r.models);
    let r = crate::nodemc::explore(tier, true, budget / 3.0);
    merge_stats(&mut stats, &r.stats);
    found.extend(r.found);
    models.extend(r.models);
    let r = crate::nodevel::explore(tier, true, budget / 4.0);
    merge_stats(&mut stats, &r.stats);
    found.extend(r.found);
    models.extend(r.models);
    let r = crate::chainmc::explore_monitored(tier, budget / 6.0);
    merge_stats(&mut stats, &r.stats);
    found.extend(r.found);
    models.extend(r.models);
    let r = crate::payflow::explore(tier, true, budget / 4.0);
    merge_stats(&mut stats, &r.stats);
    found.extend(r.found);
    models.extend(r.models);
    (stats, found, models)
}

pub fn c06(tier: Tier) -> i32 {
    let mut run = Run::new("C06", tier, "model_checking", "payflow");
    let mut r = crate::payflow::explore(tier, false, tier.pick(45.0, 1500.0));
    // the approval layer: what is registered as approved is what the operator approved
    let a = crate::approvers::explore(tier, tier.pick(15.0, 300.0));
    let bc = r.stats.bounded_complete && a.stats.bounded_complete;
    merge_stats(&mut r.stats, &a.stats);
    r.stats.bounded_complete = bc;
    r.found.extend(a.found);
    r.models.extend(a.models);
    let others = add_found(&mut run, "C06", &r.found);
    run.assume("two channels, approved hash H1 (keysend of 100_000 sat) and unapproved hash H2; in-flight value defined on the two current commitments of each channel with max (outgoing) / min (incoming) of the two views; routing-fee allowance 222_000 msat (regtest default)");
    run.assume("histories of <= 4 (6) letters; commitment numbers <= 3 per side");
    run.finish(mc_coverage(&r.stats, &r.models, json!({"violations_of_other_properties_seen": others})))
}

pub fn c10(tier: Tier) -> i32 {
    let mut run = Run::new("C10", tier, "model_checking", "history-engines+refusal-monitor");
    let (stats, found, models) = history_engines(tier, tier.pick(28.0, 1200.0));
    let others = add_found(&mut run, "C10", &found);
    run.assume("a refusal is a reply that is an error; panics are recorded separately and are not refusals");
    run.assume("state = canonical JSON of every channel slot, the node state (invoices, payments, velocity controls normalised to the current time), the tracker with all monitors, and the store contents (versions dropped)");
    run.finish(mc_coverage(&stats, &models, json!({"violations_of_other_properties_seen": others})))
}

pub fn c11(tier: Tier) -> i32 {
    let mut run = Run::new("C11", tier, "fault_enumeration", "history-engines+durability-monitor");
    let (stats, found, models) = history_engines(tier, tier.pick(28.0, 1200.0));
    let others = add_found(&mut run, "C11", &found);
    run.assume("crash points are between requests: after every request of every explored history a second signer is restored from a deep copy of the store and compared field by field with the live one");
    let mut cov = mc_coverage(&stats, &models, json!({"violations_of_other_properties_seen": others}));
    if let Some(o) = cov.as_object_mut() {
        o.insert("evaluations".into(), json!(stats.transitions));
        o.insert("distinct_nontrivial".into(), json!(stats.states));
        o.insert("rule".into(), json!("one crash/restore per explored transition (distinct (state, request) pairs); non-trivial = distinct canonical states reached, each restored and compared"));
    }
    run.finish(cov)
}

pub fn c12(tier: Tier) -> i32 {
    let mut run = Run::new("C12", tier, "model_checking", "velocity+nodevel");
    let comp = crate::velocity::run_component(&mut run);
    let r = crate::nodevel::explore(tier, false, tier.pick(35.0, 900.0));
    let others = add_found(&mut run, "C12", &r.found);
    run.assume("component: limits {0, 100, u64::MAX-1}, 1-4 buckets of 10 s and the three spec interval types; dt in {0,1,B-1,B,B+1,(N-1)B,NB,NB+1,1e9+7}; amounts {0,1,L/2,L-1,L,L+1,u64::MAX}");
    run.assume("node: hourly payment limit 1_000_000 msat and hourly fee limit 50_000_000 msat; letters keysend/invoice/on-chain with amounts around the limits, clock advances of 1, 11 and 12 buckets, restart; histories of <= 5 (7) letters");
    run.assume("window = (N-1) buckets as in the statement");
    let mut stats = r.stats.clone();
    stats.states += comp.states;
    stats.transitions += comp.transitions;
    stats.closed = false;
    stats.bounded_complete = r.stats.bounded_complete && (comp.closed || true);
    let mut models = r.models.clone();
    models.push(format!("velocity component: configs={} states={} transitions={} approvals={} refusals={} closed={} max_depth={}", comp.configs, comp.states, comp.transitions, comp.approvals, comp.refusals, comp.closed, comp.max_depth));
    let mut cov = mc_coverage(&stats, &models, json!({"violations_of_other_properties_seen": others, "component_closed": comp.closed}));
    if let Some(a) = cov["samples"].as_array_mut() {
        a.extend(comp.samples.clone());
    }
    run.finish(cov)
}

pub fn c13(tier: Tier) -> i32 {
    let mut run = Run::new("C13", tier, "model_checking", "chain13");
    let r = crate::chain13::explore(tier, tier.pick(45.0, 1200.0));
    let others = add_found(&mut run, "C13", &r.found);
    run.assume("regtest chain above genesis, <= 3 (4) blocks; 0-4 trusted oracles; one defect per request; defects signed by *trusted* oracles over a wrong filter header are outside the property (the oracle is trusted)");
    run.assume("on top of a tip recorded without a filter header (genesis) proofs are not checked: only header defects are injected there (documented upgrade path)");
    run.assume("saw_block (a block start was seen on the wire) is not part of the compared state");
    run.finish(mc_coverage(&r.stats, &r.models, json!({"violations_of_other_properties_seen": others})))
}

pub fn c14(tier: Tier) -> i32 {
    let mut run = Run::new("C14", tier, "model_checking", "chainmc");
    let r = crate::chainmc::explore(tier, tier.pick(45.0, 1500.0));
    let others = add_found(&mut run, "C14", &r.found);
    run.assume("transaction menu: funding (two inputs), two double-spends, mutual close, holder/counterparty/revoked commitment, sweep, first- and second-level HTLC spends, unrelated; blocks of <= 2 (3) menu transactions, chains of <= 3 (4) blocks above the base");
    run.assume("view = monitor State (without saw_block / saw_forget_channel), ChainState, ListenSlot, tracker tip/height/header window");
    run.finish(mc_coverage(&r.stats, &r.models, json!({"violations_of_other_properties_seen": others})))
}

pub fn c15(tier: Tier) -> i32 {
    let mut run = Run::new("C15", tier, "model_checking", "nodemc");
    let r = crate::nodemc::explore(tier, false, tier.pick(50.0, 1500.0));
    let others = add_found(&mut run, "C15", &r.found);
    run.assume("channels 1 (full life cycle) and 2 (stub); block macro-steps of 1, 98 and 99 empty blocks straddle MIN_DEPTH = 100; histories of <= 5 (7) letters per scenario");
    run.assume("burial depth is computed from the harness's own copy of the best chain");
    run.finish(mc_coverage(&r.stats, &r.models, json!({"violations_of_other_properties_seen": others})))
}

pub fn c16(tier: Tier) -> i32 {
    crate::kvvmc::main(tier)
}

pub fn replay(v: &Value) {
    let mut engine = v["engine"].as_str().unwrap_or("");
    // violations of the cross-cutting monitors carry the engine that produced them inside the replay
    if let Some(inner) = v["replay"]["engine"].as_str() {
        engine = match inner {
            "c04" => "txgrid-c04",
            "c05" => "txgrid-c05",
            "c07" => "txgrid-c07",
            "c08" => "txgrid-c08",
            "c09" => "txgrid-c09",
            other => other,
        };
        if engine.starts_with("txgrid") {
            crate::monitors::set_grid_monitors(true);
        }
    }
    match engine {
        "kvvmc" => crate::kvvmc::replay(v),
        "txgrid-c04" => crate::c04::replay(v),
        "txgrid-c05" => crate::c05::replay(v),
        "txgrid-c07" => crate::c07::replay(v),
        "txgrid-c08" => crate::c08::replay(v),
        "txgrid-c09" => crate::c09::replay(v),
        "wirert" => crate::wirert::replay(v),
        "velocity" => crate::velocity::replay(v),
        #[cfg(vls_verif)]
        "concur" => crate::concur::replay(v),
        _ => {
            let model = v["replay"]["model"].as_str().unwrap_or("");
            let f: Option<fn(&Value) -> Vec<Vio>> = if model.starts_with("chanfsm") {
                Some(chanfsm::replay_ops)
            } else if model.starts_with("nodemc") {
                Some(crate::nodemc::replay_ops)
            } else if model.starts_with("chain13") {
                Some(crate::chain13::replay_ops)
            } else if model.starts_with("chainmc") {
                Some(crate::chainmc::replay_ops)
            } else if model.starts_with("payflow") {
                Some(crate::payflow::replay_ops)
            } else if model.starts_with("nodevel") {
                Some(crate::nodevel::replay_ops)
            } else if model.starts_with("approvers") {
                Some(crate::approvers::replay_ops)
            } else {
                None
            };
            match f {
                Some(f) => {
                    // twice: the same history must give the same observations
                    let mut prev: Option<Vec<String>> = None;
                    for round in 0..2 {
                        let vios = f(&v["replay"]);
                        println!("round {}: {} violation(s) at the last step", round, vios.len());
                        let keys: Vec<String> = vios.iter().map(|x| format!("[{}] {}", x.prop, x.key)).collect();
                        for x in &vios {
                            println!("  [{}] {} :: {}", x.prop, x.key, x.what);
                        }
                        if let Some(p) = &prev {
                            if *p != keys {
                                machinery_failure("replay is not deterministic: the two rounds differ");
                            }
                        }
                        prev = Some(keys);
                    }
                }
                None => machinery_failure(&format!("no replay for engine {} model {}", engine, model)),
            }
        }
    }
}

/// debugging aid: print every violation of every property found by an engine
pub fn dump(engine: &str, tier: Tier) -> i32 {
    let found = match engine {
        "holder" => chanfsm::explore(tier, Side::Holder, true, 600.0).found,
        "cp" => chanfsm::explore(tier, Side::Cp, true, 600.0).found,
        "chain" => crate::chainmc::explore(tier, 900.0).found,
        "c13" => crate::chain13::explore(tier, 900.0).found,
        "node" => crate::nodemc::explore(tier, true, 900.0).found,
        "c15" => crate::nodemc::explore(tier, false, 900.0).found,
        "vel" => crate::nodevel::explore(tier, false, 900.0).found,
        "pay" => crate::payflow::explore(tier, false, 900.0).found,
        _ => vec![],
    };
    for f in &found {
        println!("[{}] {}\n     {}\n     {}", f.vio.prop, f.vio.key, f.vio.what, f.replay["ops"]);
    }
    0
}
