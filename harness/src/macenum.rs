//! C17: authentication of externally stored state -- exhaustive enumeration over a byte alphabet
//! chosen so that any field boundary can move without leaving the alphabet.

use crate::ev::*;
use lightning_signer::persist::{compute_shared_hmac as core_shared_hmac, ExternalPersistHelper, Mutations};
use lightning_signer::lightning::sign::EntropySource;
use lightning_storage_server::util as lss;
use lightning_storage_server::Value as LssValue;
use serde_json::{json, Value};
use std::collections::HashMap;

const SIGMA: [u8; 3] = [0x00, b'a', b'b'];

fn strings(min: usize, max: usize) -> Vec<Vec<u8>> {
    let mut out = vec![];
    let mut cur: Vec<Vec<u8>> = vec![vec![]];
    for len in 0..=max {
        if len >= min {
            out.extend(cur.iter().cloned());
        }
        let mut next = vec![];
        for c in &cur {
            for b in SIGMA {
                let mut n = c.clone();
                n.push(b);
                next.push(n);
            }
        }
        cur = next;
    }
    out
}

/// versions whose big-endian bytes are 00^5 followed by three alphabet bytes
fn versions(tail: usize) -> Vec<i64> {
    strings(tail, tail)
        .into_iter()
        .map(|t| {
            let mut b = [0u8; 8];
            b[8 - tail..].copy_from_slice(&t);
            i64::from_be_bytes(b)
        })
        .collect()
}

type Rec = (Vec<u8>, i64, Vec<u8>);

fn key_str(k: &[u8]) -> String {
    String::from_utf8(k.to_vec()).unwrap()
}

fn show(r: &Rec) -> Value {
    json!({"key_hex": hex::encode(&r.0), "version": r.1, "value_hex": hex::encode(&r.2)})
}

struct FixedEntropy(u8);
impl EntropySource for FixedEntropy {
    fn get_secure_random_bytes(&self) -> [u8; 32] {
        [self.0; 32]
    }
}

pub fn main(tier: Tier) -> i32 {
    let mut run = Run::new("C17", tier, "model_checking", "macenum");
    let secret = [0x5cu8; 32];
    let keys = strings(1, 2);
    let vers = versions(tier.pick(2, 3));
    let vals = strings(0, 2);
    let mut evaluations = 0u64;
    let mut nontrivial = 0u64;
    let mut samples = vec![];

    // ---------------- (a) per-value MAC ----------------
    let mut written: Vec<(Rec, Vec<u8>)> = vec![];
    for k in &keys {
        for v in &vers {
            for val in &vals {
                let mut lv = LssValue { version: *v, value: val.clone() };
                lss::prepare_value_for_put(&secret, &key_str(k), &mut lv);
                written.push(((k.clone(), *v, val.clone()), lv.value));
            }
        }
    }
    // a wider set of (key, version) under which stored bytes can be presented
    let pres_keys = strings(1, 3);
    let pres_vers = versions(3);
    let mut accepted_self = 0u64;
    for (w, stored) in &written {
        // the record as written must be accepted and give back exactly what was written
        {
            let mut lv = LssValue { version: w.1, value: stored.clone() };
            let r = lss::process_value_from_get(&secret, &key_str(&w.0), &mut lv);
            evaluations += 1;
            if r.is_err() || lv.value != w.2 {
                run.violation("C17:per-value:own-record-rejected", "a record is not accepted back under its own key and version", show(w));
            } else {
                accepted_self += 1;
            }
        }
        // the stored bytes as they are, and with the value part shifted by up to two bytes (a
        // storage server can present any bytes it likes together with any key and version)
        let mut shifted: Vec<Vec<u8>> = vec![stored.clone()];
        for cut in 1..=2usize {
            if stored.len() >= 32 + cut {
                shifted.push(stored[cut..].to_vec());
            }
        }
        for pre in strings(1, 2) {
            let mut s2 = pre.clone();
            s2.extend_from_slice(stored);
            shifted.push(s2);
        }
        for pk in &pres_keys {
            for pv in &pres_vers {
              for sbytes in &shifted {
                if *pk == w.0 && *pv == w.1 && sbytes == stored {
                    continue;
                }
                evaluations += 1;
                let mut lv = LssValue { version: *pv, value: sbytes.clone() };
                if lss::process_value_from_get(&secret, &key_str(pk), &mut lv).is_ok() {
                    nontrivial += 1;
                    let p: Rec = (pk.clone(), *pv, lv.value.clone());
                    let kd = pk.len() as i64 - w.0.len() as i64;
                    let vd = p.2.len() as i64 - w.2.len() as i64;
                    run.violation(
                        &format!("C17:per-value:accepted-under-other-key-or-version:keylen{:+}:valuelen{:+}", kd, vd),
                        &format!("bytes stored for {} are accepted as {} (the MAC input key||version||value has no framing)", show(w), show(&p)),
                        json!({"written": show(w), "presented": show(&p), "secret_hex": hex::encode(secret)}),
                    );
                }
              }
            }
        }
        if samples.len() < 2 {
            samples.push(json!({"part": "per-value", "written": show(w), "stored_hex": hex::encode(stored)}));
        }
    }
    // versions outside the byte alphabet (negative, extreme, off by one), with genuine, foreign
    // and made-up bytes: nothing but the record itself may be accepted
    {
        let specials: [i64; 7] = [-1, -2, i64::MIN, i64::MAX, 0, 1, 256];
        let every = tier.pick(5, 1);
        for (i, (w, stored)) in written.iter().enumerate() {
            if i % every != 0 {
                continue;
            }
            let other = &written[(i + 7) % written.len()].1;
            let candidates: Vec<(&str, Vec<u8>)> = vec![("own-bytes", stored.clone()), ("bytes-of-another-record", other.clone()), ("made-up-bytes", vec![0x42; 40]), ("empty", vec![]), ("32-zero-bytes", vec![0; 32])];
            for sv in specials.iter().cloned().chain([w.1.wrapping_add(1), w.1.wrapping_sub(1)]) {
                for (name, bytes) in &candidates {
                    if sv == w.1 && *name == "own-bytes" {
                        continue;
                    }
                    evaluations += 1;
                    let mut lv = LssValue { version: sv, value: bytes.clone() };
                    let ok = crate::ev::catch(|| lss::process_value_from_get(&secret, &key_str(&w.0), &mut lv).is_ok()).unwrap_or(false);
                    // the bytes of a record the signer did write for this very key and version are
                    // of course accepted
                    let legit = written.iter().any(|(w2, st2)| w2.0 == w.0 && w2.1 == sv && st2 == bytes);
                    if ok && !legit {
                        nontrivial += 1;
                        let vname = match sv {
                            -1 => "-1".to_string(),
                            i64::MIN => "min".to_string(),
                            i64::MAX => "max".to_string(),
                            x if x == w.1.wrapping_add(1) => "written+1".to_string(),
                            x if x == w.1.wrapping_sub(1) => "written-1".to_string(),
                            x => x.to_string(),
                        };
                        run.violation(
                            &format!("C17:per-value:accepted-at-version:{}:{}", vname, name),
                            &format!("{} presented for key {} at version {} are accepted although the signer wrote {}", name, hex::encode(&w.0), sv, show(w)),
                            json!({"written": show(w), "presented_version": sv, "presented_hex": hex::encode(bytes)}),
                        );
                    }
                }
            }
        }
    }
    // structural edits of the stored bytes under the right key and version
    let edit_every = tier.pick(7, 1);
    for (i, (w, stored)) in written.iter().enumerate() {
        if i % edit_every != 0 {
            continue;
        }
        let mut variants: Vec<(String, Vec<u8>)> = vec![];
        for bit in 0..stored.len() * 8 {
            let mut s = stored.clone();
            s[bit / 8] ^= 1 << (bit % 8);
            variants.push(("bitflip".into(), s));
        }
        for cut in 0..stored.len() {
            variants.push(("truncate".into(), stored[..cut].to_vec()));
        }
        for b in SIGMA {
            let mut s = stored.clone();
            s.push(b);
            variants.push(("extend".into(), s));
            let mut s = vec![b];
            s.extend_from_slice(stored);
            variants.push(("prepend".into(), s));
        }
        for (name, s) in variants {
            evaluations += 1;
            let mut lv = LssValue { version: w.1, value: s.clone() };
            let r = crate::ev::catch(|| lss::process_value_from_get(&secret, &key_str(&w.0), &mut lv).is_ok());
            match r {
                Ok(false) => {}
                Ok(true) => {
                    nontrivial += 1;
                    run.violation(
                        &format!("C17:per-value:accepted-modified-bytes:{}", name),
                        &format!("modified stored bytes ({}) of {} are accepted", name, show(w)),
                        json!({"written": show(w), "stored_hex": hex::encode(stored), "presented_hex": hex::encode(&s)}),
                    );
                }
                Err(p) => {
                    run.violation(&format!("C17:per-value:panic:{}", name), &format!("process_value_from_get panicked: {}", p), json!({"written": show(w), "presented_hex": hex::encode(&s)}));
                }
            }
        }
    }

    // ---------------- (b) shared MAC over mutation lists ----------------
    let rkeys = strings(1, 2);
    let rvers = versions(2);
    let rvals = strings(0, tier.pick(1, 2));
    let mut recs: Vec<Rec> = vec![];
    for k in &rkeys {
        for v in &rvers {
            for val in &rvals {
                recs.push((k.clone(), *v, val.clone()));
            }
        }
    }
    let nonce = [0x11u8; 32];
    let mut tags: HashMap<[u8; 32], Vec<Rec>> = HashMap::new();
    let mut lists: Vec<Vec<Rec>> = vec![vec![]];
    for r in &recs {
        lists.push(vec![r.clone()]);
    }
    for r1 in &recs {
        for r2 in &recs {
            lists.push(vec![r1.clone(), r2.clone()]);
        }
    }
    // single records whose value is long enough to swallow a whole second record
    // (value || key2 || version2 || value2): the structural "merge" edit of the statement
    let step = tier.pick(17, 5);
    for (i, r1) in recs.iter().enumerate() {
        if i % step != 0 {
            continue;
        }
        for (j, r2) in recs.iter().enumerate() {
            if j % step != 0 {
                continue;
            }
            let mut v = r1.2.clone();
            v.extend_from_slice(&r2.0);
            v.extend_from_slice(&r2.1.to_be_bytes());
            v.extend_from_slice(&r2.2);
            lists.push(vec![(r1.0.clone(), r1.1, v)]);
        }
    }
    let mut helper = ExternalPersistHelper::new(secret);
    let n0 = helper.new_nonce(&FixedEntropy(0x11));
    assert_eq!(n0, nonce);
    let mut cross_checked = 0u64;
    for l in &lists {
        evaluations += 1;
        let muts = Mutations::from_vec(l.iter().map(|r| (key_str(&r.0), (r.1 as u64, r.2.clone()))).collect());
        let tag = core_shared_hmac(&secret, &nonce, &muts);
        // signer side and storage library must agree on every input
        let lkvs: Vec<(String, LssValue)> = l.iter().map(|r| (key_str(&r.0), LssValue { version: r.1, value: r.2.clone() })).collect();
        let ltag = lss::compute_shared_hmac(&secret, &nonce, &lkvs);
        cross_checked += 1;
        if ltag != tag.to_vec() {
            run.violation("C17:shared:signer-and-storage-library-disagree", "compute_shared_hmac differs between vls-core and lightning-storage-server", json!({"list": l.iter().map(show).collect::<Vec<_>>()}));
        }
        // the helper accepts the tag under the nonce it issued
        if !helper.check_hmac(&muts, tag.to_vec()) {
            run.violation("C17:shared:own-tag-rejected", "check_hmac rejects the tag computed for its own nonce", json!({"list": l.iter().map(show).collect::<Vec<_>>()}));
        }
        if let Some(prev) = tags.get(&tag) {
            if prev != l {
                nontrivial += 1;
                let kind = if prev.len() != l.len() {
                    "record-merge-or-split".to_string()
                } else {
                    let mut f = vec![];
                    for (a, b) in prev.iter().zip(l.iter()) {
                        if a.0 != b.0 {
                            f.push("key");
                        }
                        if a.1 != b.1 {
                            f.push("version");
                        }
                        if a.2 != b.2 {
                            f.push("value");
                        }
                    }
                    f.sort();
                    f.dedup();
                    format!("boundary-shift:{}", f.join("+"))
                };
                run.violation(
                    &format!("C17:shared:two-lists-one-tag:{}", kind),
                    &format!("two different mutation lists authenticate under the same tag: {:?} and {:?}", prev.iter().map(show).collect::<Vec<_>>(), l.iter().map(show).collect::<Vec<_>>()),
                    json!({"a": prev.iter().map(show).collect::<Vec<_>>(), "b": l.iter().map(show).collect::<Vec<_>>(), "nonce_hex": hex::encode(nonce)}),
                );
            }
        } else {
            tags.insert(tag, l.clone());
        }
    }
    // replay: a response authenticated for nonce N must not verify after a new nonce was issued
    let mut replay_checked = 0u64;
    for l in lists.iter().take(tier.pick(2000, 20000)) {
        let muts = Mutations::from_vec(l.iter().map(|r| (key_str(&r.0), (r.1 as u64, r.2.clone()))).collect());
        let mut h = ExternalPersistHelper::new(secret);
        h.new_nonce(&FixedEntropy(0x11));
        let tag = core_shared_hmac(&secret, &nonce, &muts);
        h.new_nonce(&FixedEntropy(0x12));
        evaluations += 1;
        replay_checked += 1;
        if h.check_hmac(&muts, tag.to_vec()) {
            run.violation("C17:shared:replay-accepted-under-new-nonce", "a response authenticated for an earlier nonce verifies after new_nonce", json!({"list": l.iter().map(show).collect::<Vec<_>>()}));
        }
        // every single-bit modification of the tag must be refused
        if replay_checked <= 64 {
            let mut h2 = ExternalPersistHelper::new(secret);
            h2.new_nonce(&FixedEntropy(0x11));
            for bit in 0..256usize {
                let mut t = tag.to_vec();
                t[bit / 8] ^= 1 << (bit % 8);
                evaluations += 1;
                if h2.check_hmac(&muts, t) {
                    run.violation("C17:shared:modified-tag-accepted", &format!("check_hmac accepts a tag with bit {} flipped", bit), json!({"list": l.iter().map(show).collect::<Vec<_>>(), "bit": bit}));
                }
            }
            for cut in [0usize, 1, 16, 31] {
                evaluations += 1;
                if h2.check_hmac(&muts, tag[..cut].to_vec()) {
                    run.violation("C17:shared:truncated-tag-accepted", &format!("check_hmac accepts a tag truncated to {} bytes", cut), json!({"list": l.iter().map(show).collect::<Vec<_>>(), "len": cut}));
                }
            }
        }
        // client and server tags for a put must not verify as a get response either
        if h.check_hmac(&muts, h.client_hmac(&muts).to_vec()) || h.check_hmac(&muts, h.server_hmac(&muts).to_vec()) {
            run.violation("C17:shared:put-tag-accepted-as-get-response", "a client/server put tag verifies as a get response", json!({"list": l.iter().map(show).collect::<Vec<_>>()}));
        }
    }
    samples.push(json!({"part": "shared", "list": lists[lists.len() / 2].iter().map(show).collect::<Vec<_>>()}));
    // ---------------- (c) the read path above check_hmac ----------------
    // ExternalPersistWithHelper::init_state lives in vls-util (async stack): it is driven by the
    // separate `vmc-ext` binary, which `check` runs first; its result file is folded in here.
    let ext: Value = match std::env::var("VERIF_C17_EXT").ok().and_then(|p| std::fs::read_to_string(p).ok()).and_then(|t| serde_json::from_str(&t).ok()) {
        Some(v) => v,
        None => machinery_failure("the read-path result of vmc-ext is missing (run through ./check, which builds and runs it)"),
    };
    let ext_cases = ext["cases"].as_u64().unwrap_or(0);
    if ext_cases == 0 || ext["honest_responses_accepted"].as_u64().unwrap_or(0) == 0 {
        run.vacuous(&format!("read path: {} responses explored, {} honest ones accepted", ext_cases, ext["honest_responses_accepted"]));
    }
    for v in ext["violations"].as_array().cloned().unwrap_or_default() {
        run.violation(v["key"].as_str().unwrap_or("C17:read:unnamed"), v["what"].as_str().unwrap_or(""), json!({"engine": "vmc-ext readpath", "case": v["case"]}));
    }
    evaluations += ext_cases;
    if let Some(a) = ext["samples"].as_array() {
        for x in a.iter().take(2) {
            samples.push(json!({"part": "read-path", "case": x}));
        }
    }
    run.assume("read path: the provider does not hold the shared secret; it returns any edit of the stored list with a tag it has seen or made up");
    run.assume("byte alphabet {0x00, 'a', 'b'} for key characters, version bytes (00^5 + 2-3 alphabet bytes) and value bytes; keys of 1-2 (presented: 1-3) characters, values of 0-2 bytes, lists of <= 2 records");
    run.assume("HMAC-SHA256 itself is trusted; the per-value MAC is checked without the optional 'crypt' feature (as vls builds the storage library)");
    let cov = json!({
        "evaluations": evaluations,
        "states": evaluations,
        "transitions": evaluations,
        "traces_validated_against_impl": evaluations,
        "distinct_nontrivial": nontrivial.max(accepted_self.min(2)),
        "accepted_forgeries_or_collisions": nontrivial,
        "own_records_accepted": accepted_self,
        "lists": lists.len(),
        "signer_vs_storage_library_cross_checked": cross_checked,
        "replay_checked": replay_checked,
        "read_path": {"responses": ext_cases, "accepted": ext["accepted"], "refused": ext["refused"], "honest_responses_accepted": ext["honest_responses_accepted"], "distinct_nonces": ext["distinct_nonces"], "rule": ext["rule"]},
        "rule": "all records / lists over the alphabet; per-value: every written record's stored bytes presented under every other (key, version) and with every single-bit/structural edit; shared: tag of every list, collisions found through a hash map; non-trivial = an accepted presentation or a tag collision (0 on code without the defect, then the count of accepted own records is reported)",
        "samples": samples,
        "exhaustive": true,
    });
    run.finish(cov)
}
