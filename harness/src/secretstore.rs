//! C03 (component part): the compact counterparty secret store against a naive reference that
//! keeps every secret and applies the BOLT-3 derivation rule literally.

use crate::ev::*;
use lightning_signer::bitcoin::hashes::sha256::Hash as Sha256;
use lightning_signer::bitcoin::hashes::Hash;
use lightning_signer::policy::validator::CounterpartyCommitmentSecrets;
use serde_json::{json, Value};
use std::collections::BTreeMap;

pub const TOP: u64 = (1 << 48) - 1;

/// BOLT-3 generate_from_seed restricted to the low `bits` bits
pub fn derive(secret: [u8; 32], bits: u32, idx: u64) -> [u8; 32] {
    let mut p = secret;
    for b in (0..bits).rev() {
        if idx & (1 << b) != 0 {
            p[(b / 8) as usize] ^= 1 << (b % 8);
            p = Sha256::hash(&p).to_byte_array();
        }
    }
    p
}

pub fn tree_secret(seed: [u8; 32], idx: u64) -> [u8; 32] {
    derive(seed, 48, idx)
}

fn trailing_zeros48(i: u64) -> u32 {
    if i == 0 {
        48
    } else {
        i.trailing_zeros().min(48)
    }
}

/// can the secret at index `a` derive the secret at index `b`?
fn can_derive(a: u64, b: u64) -> bool {
    let t = trailing_zeros48(a);
    let mask = if t >= 64 { 0 } else { !((1u64 << t) - 1) };
    (b & mask) == a
}

/// all secrets (commitment number n -> secret, index = TOP - n) pairwise consistent?
pub fn naive_consistent(all: &BTreeMap<u64, [u8; 32]>) -> bool {
    for (na, sa) in all.iter() {
        let ia = TOP - na;
        for (nb, sb) in all.iter() {
            let ib = TOP - nb;
            if ia != ib && can_derive(ia, ib) {
                if derive(*sa, trailing_zeros48(ia), ib) != *sb {
                    return false;
                }
            }
        }
    }
    true
}

pub struct StoreStats {
    pub sequences: u64,
    pub steps: u64,
    pub accepted: u64,
    pub rejected: u64,
    pub distinct_outcomes: u64,
    pub samples: Vec<Value>,
}

#[derive(Clone, Copy, Debug, PartialEq, Eq)]
enum Kind {
    Tree,
    Rogue,
    OtherTree,
}

fn secret_for(kind: Kind, idx: u64) -> [u8; 32] {
    match kind {
        Kind::Tree => tree_secret([0x33; 32], idx),
        Kind::OtherTree => tree_secret([0x44; 32], idx),
        Kind::Rogue => {
            let mut x = [0x55u8; 32];
            x[31] = (idx & 0xff) as u8;
            x
        }
    }
}

fn dfs(
    run: &mut Run,
    store: &CounterpartyCommitmentSecrets,
    accepted: &BTreeMap<u64, [u8; 32]>,
    hist: &mut Vec<(u64, Kind, bool)>,
    depth: usize,
    nidx: u64,
    st: &mut StoreStats,
    outcomes: &mut std::collections::HashSet<Vec<bool>>,
) {
    if depth == 0 {
        st.sequences += 1;
        outcomes.insert(hist.iter().map(|h| h.2).collect());
        if st.samples.len() < 3 && hist.iter().filter(|h| h.2).count() >= 2 {
            st.samples.push(json!({"part": "secretstore", "steps_n_kind_accepted": hist.iter().map(|(n, k, a)| json!([n, format!("{:?}", k), a])).collect::<Vec<_>>()}));
        }
        return;
    }
    // The channel layer feeds the store in order: the next commitment number, or a retry of a
    // number it has already passed (validate_counterparty_revocation admits revoke_num ==
    // next_counterparty_revoke_num or one below; exploring all older numbers is a superset).
    // A *future* index is outside the store's contract and is never produced by the channel.
    let next_n = accepted.keys().max().map(|m| m + 1).unwrap_or(0);
    for n in 0..=next_n.min(nidx - 1) {
        for kind in [Kind::Tree, Kind::Rogue, Kind::OtherTree] {
            let idx = TOP - n;
            let sec = secret_for(kind, idx);
            let mut s2 = store.clone();
            let r = catch(|| s2.provide_secret(idx, sec));
            st.steps += 1;
            let rep = |hist: &Vec<(u64, Kind, bool)>| json!({"part": "secretstore", "steps": hist.iter().map(|(n, k, a)| json!([n, format!("{:?}", k), a])).collect::<Vec<_>>(), "last": [n, format!("{:?}", kind)]});
            let ok = match r {
                Err(p) => {
                    run.violation("C03:store:panic", &format!("provide_secret panicked: {}", p), rep(hist));
                    continue;
                }
                Ok(r) => r.is_ok(),
            };
            let mut acc2 = accepted.clone();
            // A secret for an index the store has already passed (idx >= min seen) is answered
            // Ok without being stored; that is not an acceptance of *that* secret (the channel
            // layer has compared its point with the signed point before it gets here).
            let is_new = accepted.keys().all(|m| n > *m);
            if ok && !is_new {
                for (m, sm) in accepted.iter() {
                    let got = catch(|| s2.get_secret(TOP - m));
                    if got != Ok(Some(*sm)) {
                        run.violation(
                            "C03:store:old-index-provide-changed-store",
                            &format!("providing a secret for already covered commitment {} changed the stored secret of commitment {}", n, m),
                            rep(hist),
                        );
                    }
                }
                hist.push((n, kind, ok));
                dfs(run, &s2, &acc2, hist, depth - 1, nidx, st, outcomes);
                hist.pop();
                continue;
            }
            if ok {
                st.accepted += 1;
                acc2.insert(n, sec);
                if !naive_consistent(&acc2) {
                    run.violation(
                        "C03:store:accepted-inconsistent-secret",
                        &format!("provide_secret accepted a secret for commitment {} ({:?}) that is inconsistent with earlier accepted secrets under the BOLT-3 tree", n, kind),
                        rep(hist),
                    );
                    // keep the reference to consistent sets only
                    acc2 = accepted.clone();
                } else if let Some(old) = accepted.get(&n) {
                    if *old != sec {
                        run.violation(
                            "C03:store:accepted-different-secret-for-same-index",
                            &format!("provide_secret accepted a second, different secret for commitment {}", n),
                            rep(hist),
                        );
                    }
                }
            } else {
                st.rejected += 1;
                // a refused secret must not change what the store answers
                for (m, sm) in accepted.iter() {
                    let got = catch(|| s2.get_secret(TOP - m));
                    if got != Ok(Some(*sm)) {
                        run.violation(
                            "C03:store:refused-secret-changed-store",
                            &format!("after a refused provide_secret the store no longer returns the accepted secret of commitment {}", m),
                            rep(hist),
                        );
                    }
                }
            }
            // every accepted secret must be reproducible from the compact store
            if ok {
                for (m, sm) in acc2.iter() {
                    let got = catch(|| s2.get_secret(TOP - m));
                    match got {
                        Ok(Some(x)) if x == *sm => {}
                        Ok(other) => {
                            run.violation(
                                "C03:store:get-secret-mismatch",
                                &format!("get_secret for accepted commitment {} returns {:?}", m, other.map(hex::encode)),
                                rep(hist),
                            );
                        }
                        Err(_) => {
                            run.violation("C03:store:get-secret-panics", &format!("get_secret({}) panicked", m), rep(hist));
                        }
                    }
                }
            }
            hist.push((n, kind, ok));
            dfs(run, &s2, &acc2, hist, depth - 1, nidx, st, outcomes);
            hist.pop();
        }
    }
}

pub fn run_store(run: &mut Run) -> StoreStats {
    let mut st = StoreStats { sequences: 0, steps: 0, accepted: 0, rejected: 0, distinct_outcomes: 0, samples: vec![] };
    let (depth, nidx) = run.tier.pick((6usize, 7u64), (8usize, 9u64));
    let mut outcomes = std::collections::HashSet::new();
    let store = CounterpartyCommitmentSecrets::new();
    dfs(run, &store, &BTreeMap::new(), &mut vec![], depth, nidx, &mut st, &mut outcomes);
    // the legitimate use: tree secrets in order, longer run, must all be reproducible
    let mut s = CounterpartyCommitmentSecrets::new();
    let mut acc = BTreeMap::new();
    for n in 0..40u64 {
        let sec = secret_for(Kind::Tree, TOP - n);
        if s.provide_secret(TOP - n, sec).is_ok() {
            acc.insert(n, sec);
            st.accepted += 1;
        } else {
            st.rejected += 1;
        }
        st.steps += 1;
        for (m, sm) in acc.iter() {
            if s.get_secret(TOP - m) != Some(*sm) {
                run.violation(
                    "C03:store:get-secret-mismatch",
                    &format!("in-order run: after {} secrets get_secret({}) is wrong", n + 1, m),
                    json!({"part": "secretstore", "in_order_upto": n}),
                );
            }
        }
        // a rogue secret at the next position must be refused whenever the tree rule can tell
        let mut s3 = s.clone();
        let nn = n + 1;
        let rogue = secret_for(Kind::Rogue, TOP - nn);
        if s3.provide_secret(TOP - nn, rogue).is_ok() {
            let mut a3 = acc.clone();
            a3.insert(nn, rogue);
            if !naive_consistent(&a3) {
                run.violation(
                    "C03:store:accepted-inconsistent-secret",
                    &format!("in-order run: rogue secret accepted at commitment {}", nn),
                    json!({"part": "secretstore", "in_order_upto": n, "rogue_at": nn}),
                );
            }
        }
    }
    st.distinct_outcomes = outcomes.len() as u64;
    st
}
