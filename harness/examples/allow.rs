use vmc::world::*;
use vmc::ev::*;
use vmc::txbase::*;
fn main() {
    quiet_panics();
    let cfg = WorldCfg::default();
    let w = World::new(cfg.clone());
    let before = w.snapshot();
    let node = w.node.clone();
    let good = foreign_address(1, cfg.network);
    let r = call(move || node.add_allowlist(&[good.clone(), "not-an-address".to_string()]).map_err(|e| status_kind(&e)));
    println!("add_allowlist [good, bad]: {}", r.tag());
    let after = w.snapshot();
    println!("diff: {:?}", json_diff(&before, &after));
    let node = w.node.clone();
    let good = foreign_address(2, cfg.network);
    let r = call(move || node.set_allowlist(&[good.clone(), "not-an-address".to_string()]).map_err(|e| status_kind(&e)));
    println!("set_allowlist [good, bad]: {}", r.tag());
    let after2 = w.snapshot();
    println!("diff: {:?}", json_diff(&after, &after2));
}
