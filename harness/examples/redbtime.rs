use std::time::Instant;
use vls_persist::kvv::redb::RedbKVVStore;
use vls_persist::kvv::KVVStore;
fn main() {
    let t = Instant::now();
    for i in 0..50 {
        let p = format!("/dev/shm/rt-{}", i);
        let _ = std::fs::remove_dir_all(&p);
        std::fs::create_dir_all(&p).unwrap();
        let s = RedbKVVStore::new(&p);
        drop(s);
    }
    println!("create: {:?}/op", t.elapsed() / 50);
    let t = Instant::now();
    let s = RedbKVVStore::new("/dev/shm/rt-0");
    for i in 0..50 { s.put("a", vec![i as u8]).unwrap(); }
    println!("put: {:?}/op", t.elapsed() / 50);
    drop(s);
    let t = Instant::now();
    for _ in 0..50 { let s = RedbKVVStore::new("/dev/shm/rt-0"); drop(s); }
    println!("reopen: {:?}/op", t.elapsed() / 50);
    println!("size {:?}", std::fs::metadata("/dev/shm/rt-0/redb").unwrap().len());
    let t = Instant::now();
    for i in 0..50 { std::fs::create_dir_all(format!("/dev/shm/rt-c{}", i)).unwrap(); std::fs::copy("/dev/shm/rt-0/redb", format!("/dev/shm/rt-c{}/redb", i)).unwrap(); }
    println!("copy: {:?}/op", t.elapsed() / 50);
    for i in 0..50 { let _ = std::fs::remove_dir_all(format!("/dev/shm/rt-{}", i)); let _ = std::fs::remove_dir_all(format!("/dev/shm/rt-c{}", i)); }
}
