use vmc::nodevel::*;
use vmc::vmc::Model;
use vmc::ev::*;
fn main() {
    quiet_panics();
    let m = VelModel { max_ops: 5, monitors: false };
    for ops in [vec![Op::Onchain(25000), Op::Advance(3600), Op::Onchain(25000)], vec![Op::Advance(3600), Op::Onchain(25000)]] {
        let mut s = m.init();
        let mut v = vec![];
        for o in &ops { m.apply(&mut s, o, false, &mut v); }
        let w = s.w.as_ref().unwrap();
        let snap = w.snapshot();
        println!("{:?}\n key={}\n store fee={}\n live fee={}", ops, m.key(&s), snap["store"].as_object().unwrap().iter().find(|(k,_)| k.starts_with("node/state")).map(|(_,v)| v["fee_velocity_control"].to_string()).unwrap_or_default(), snap["live"]["node"]["entry"]["fee_velocity_control"]);
    }
}
