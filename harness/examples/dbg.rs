fn main() {
    use vmc::vmc::Model;
    for cfg in vmc::chainmc::configs(vmc::ev::Tier::Quick) {
        let m = vmc::chainmc::C14Model { cfg };
        let mut s = m.init();
        println!("init ok {} {}", m.name(), m.key(&s));
        let ops = m.ops(&s);
        println!("{} ops: {:?}", ops.len(), &ops[..ops.len().min(12)]);
        let mut v = vec![];
        for op in ops.iter().take(3) {
            m.apply(&mut s, op, true, &mut v);
            println!("applied {:?} -> {} vios", op, v.len());
        }
        for x in v { println!("  {} :: {}", x.key, x.what); }
    }
}
