use vmc::world::*;
use vmc::ev::*;
fn main() {
    quiet_panics();
    let mut cfg = WorldCfg::default();
    cfg.cloud = true;
    let w = World::new(cfg);
    println!("store after build: {:?}", dump_persister(&w.persister).keys().collect::<Vec<_>>());
    let r = w.new_channel(1);
    println!("new_channel: {}", r.tag());
    let m = w.prepare_request();
    println!("muts: {:?}", m.as_ref().map(|m| m.iter().map(|x| x.0.clone()).collect::<Vec<_>>()));
    w.commit_request();
    println!("store after commit: {:?}", dump_persister(&w.persister).keys().collect::<Vec<_>>());
    let w2 = w.clone_restored();
    println!("restored channels: {}", w2.node.get_channels().len());
}
